#!/venv/bin/python
"""Re-run every seeded change stored under seeded/<ID>/ against every registered check and rewrite seeded/MATRIX.md
(and the `checks` / `reported` / `own_property_check` fields of each meta.json).  Scratch copies live under the system
temp directory and are removed as soon as a change has been evaluated; /repo itself is never patched."""
import concurrent.futures as cf
import json
import os
import shutil
import subprocess
import sys
import tempfile

VERIF = os.path.dirname(os.path.abspath(__file__))
CHECKS = [c["property_id"] for c in json.load(open(os.path.join(VERIF, "MANIFEST.json")))["checks"]]


def runcheck(args):
    tmp, c = args
    r = subprocess.run([os.path.join(VERIF, "check"), c, "--repo", tmp], capture_output=True, text=True)
    viol = [l.strip()[:230] for l in (r.stdout + r.stderr).splitlines() if (l.startswith("  ") and "]" in l and "[" in l and not l.startswith("  rule ")) or "ANALYSIS-ERROR" in l]
    return c, r.returncode, viol


def main():
    root = os.path.join(VERIF, "seeded")
    ids = sys.argv[1:] or sorted(d for d in os.listdir(root) if os.path.exists(os.path.join(root, d, "meta.json")))
    rows = []
    for sid in ids:
        mp = os.path.join(root, sid, "meta.json")
        meta = json.load(open(mp))
        tmp = tempfile.mkdtemp(prefix=f"verif-seed-{sid}-")
        try:
            shutil.copytree("/repo/trimesh", tmp + "/trimesh", ignore=shutil.ignore_patterns("__pycache__", "*.pyc"))
            r = subprocess.run(["patch", "-p1", "-s", "-f", "-d", tmp, "-i", os.path.join(root, sid, "patch.diff")], capture_output=True, text=True)
            if r.returncode != 0:
                print(sid, "patch does not apply")
                continue
            with cf.ThreadPoolExecutor(16) as ex:
                out = list(ex.map(runcheck, [(tmp, c) for c in CHECKS]))
        finally:
            shutil.rmtree(tmp, ignore_errors=True)
        hits = {c: viol for c, rc, viol in out if rc == 1}
        errs = {c: viol for c, rc, viol in out if rc not in (0, 1)}
        own = meta["property"]
        meta["checks"] = {**{c: "caught" for c in hits}, **({own: "missed"} if own not in hits and own in CHECKS else {})}
        meta["reported"] = {c: v[:3] for c, v in hits.items()}
        meta["own_property_check"] = "caught" if own in hits else ("not registered" if own not in CHECKS else "missed")
        if errs:
            meta["analysis_errors"] = {c: v[:1] for c, v in errs.items()}
        else:
            meta.pop("analysis_errors", None)
        json.dump(meta, open(mp, "w"), indent=1)
        rows.append((sid, meta.get("round", "?"), meta.get("title", "")[:88], ", ".join(sorted(hits)) or "-", meta["own_property_check"]))
        print(sid, "reported by", sorted(hits) or "NOTHING", ("errors: " + str(sorted(errs))) if errs else "")
    if not sys.argv[1:]:
        with open(os.path.join(root, "MATRIX.md"), "w") as f:
            f.write("| change | round | what it does | reported by | own check |\n|---|---|---|---|---|\n")
            for r in rows:
                f.write("| " + " | ".join(str(x) for x in r) + " |\n")
        n_any = sum(1 for r in rows if r[3] != "-")
        n_own = sum(1 for r in rows if r[4] == "caught")
        print(f"{len(rows)} seeded changes: {n_any} reported by some check, {n_own} by the check of their own property")


if __name__ == "__main__":
    main()
