#!/venv/bin/python
"""Re-run every seeded change stored under seeded/<ID>/ against every registered check and rewrite seeded/MATRIX.md
(and the `checks` / `reported` / `own_property_check` fields of each meta.json).  Scratch copies live under the system
temp directory and are removed as soon as a change has been evaluated; /repo itself is never patched."""
import json
import os
import sys

sys.path.insert(0, os.path.dirname(os.path.abspath(__file__)))
from sa.matrix import registered_checks, run_matrix  # noqa: E402

VERIF = os.path.dirname(os.path.abspath(__file__))


def main():
    root = os.path.join(VERIF, "seeded")
    checks = registered_checks()
    ids = sys.argv[1:] or sorted(d for d in os.listdir(root) if os.path.exists(os.path.join(root, d, "meta.json")))
    rows = {}

    def done(sid, res):
        if res is None:
            print(sid, "patch does not apply")
            return
        mp = os.path.join(root, sid, "meta.json")
        meta = json.load(open(mp))
        hits = {c: v for c, (rc, v) in res.items() if rc == 1}
        errs = {c: v for c, (rc, v) in res.items() if rc not in (0, 1)}
        own = meta["property"]
        meta["checks"] = {**{c: "caught" for c in sorted(hits)}, **({own: "missed"} if own not in hits and own in checks else {})}
        meta["reported"] = {c: v[:3] for c, v in sorted(hits.items())}
        meta["own_property_check"] = "caught" if own in hits else ("not registered" if own not in checks else "missed")
        if errs:
            meta["analysis_errors"] = {c: v[:1] for c, v in errs.items()}
        else:
            meta.pop("analysis_errors", None)
        json.dump(meta, open(mp, "w"), indent=1)
        rows[sid] = (sid, meta.get("round", "?"), meta.get("title", "")[:88], ", ".join(sorted(hits)) or "-", meta["own_property_check"])
        print(sid, "reported by", sorted(hits) or "NOTHING", ("errors: " + str(sorted(errs))) if errs else "", flush=True)

    run_matrix({sid: os.path.join(root, sid, "patch.diff") for sid in ids}, checks, progress=done)
    if not sys.argv[1:]:
        with open(os.path.join(root, "MATRIX.md"), "w") as f:
            f.write("| change | round | what it does | reported by | own check |\n|---|---|---|---|---|\n")
            for sid in sorted(rows):
                f.write("| " + " | ".join(str(x) for x in rows[sid]) + " |\n")
    n_any = sum(1 for r in rows.values() if r[3] != "-")
    n_own = sum(1 for r in rows.values() if r[4] == "caught")
    print(f"{len(rows)} seeded changes: {n_any} reported by some check, {n_own} by the check of their own property")


if __name__ == "__main__":
    main()
