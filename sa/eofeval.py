"""Constant propagation of the end-of-stream value through the body of a read loop.

A loop that reads from a stream terminates on every (finite) input only if, once the stream is
exhausted, no path through the body returns to the loop head.  At end of stream `read` /
`readline` return the empty bytes / str object and `next` raises StopIteration: those are the
only facts assumed.  Everything else is UNKNOWN; conditions on unknown values fork; any statement
inside a `try` may raise into its handlers.  Pure methods of concrete str / bytes / list values
are folded with the host interpreter's own implementation (they are total and side-effect free).

outcomes(loop, eof) -> list of (kind, trail) for kind in {"back", "break", "raise", "return"};
a "back" outcome whose trail has no consumption of a finite resource is a hang at end of stream.
"""
from __future__ import annotations

import ast

UNK = object()

PURE_METHODS = {"decode", "encode", "strip", "lstrip", "rstrip", "split", "rsplit", "lower", "upper", "startswith", "endswith", "find", "rfind", "index",
                "replace", "splitlines", "join", "count", "isdigit", "partition", "rpartition", "title", "format", "copy"}
READS = {"readline", "read", "read1", "readlines", "peek"}
CONSUMES = {"pop", "popleft", "popitem"}
GROWS = {"append", "extend", "insert", "appendleft", "add", "update", "extendleft"}


class _Raise(Exception):
    def __init__(self, name):
        self.name = name


class EofEval:
    def __init__(self, loop, eof=b"", consts=None):
        """consts: module-level names bound once to a literal (e.g. a header size): known values inside the loop"""
        self.loop = loop
        self.eof = eof
        self.consts = dict(consts or {})
        self.grown = set()
        for n in ast.walk(loop):
            if isinstance(n, ast.Call) and isinstance(n.func, ast.Attribute) and n.func.attr in GROWS and isinstance(n.func.value, ast.Name):
                self.grown.add(n.func.value.id)
            if isinstance(n, ast.AugAssign) and isinstance(n.target, ast.Name):
                self.grown.add(n.target.id)
        self.reads = [n for n in ast.walk(loop) if isinstance(n, ast.Call) and isinstance(n.func, ast.Attribute) and n.func.attr in READS]
        self.budget = 4000

    # ------------------------------------------------------------------ expressions
    def ev(self, e, st):
        env, trail = st
        if isinstance(e, ast.Constant):
            return e.value
        if isinstance(e, ast.Name):
            return env.get(e.id, UNK)
        if isinstance(e, (ast.List, ast.Tuple)):
            vals = [self.ev(x, st) for x in e.elts]
            if any(v is UNK for v in vals):
                return UNK
            return vals if isinstance(e, ast.List) else tuple(vals)
        if isinstance(e, ast.UnaryOp):
            v = self.ev(e.operand, st)
            if v is UNK:
                return UNK
            try:
                if isinstance(e.op, ast.Not):
                    return not v
                if isinstance(e.op, ast.USub):
                    return -v
            except Exception as ex:
                raise _Raise(type(ex).__name__)
            return UNK
        if isinstance(e, ast.BoolOp):
            unknown = False
            last = UNK
            for x in e.values:
                v = self.ev(x, st)
                if v is UNK:
                    unknown = True
                    continue
                last = v
                if isinstance(e.op, ast.And) and not v:
                    return v if not unknown else False
                if isinstance(e.op, ast.Or) and v:
                    return v if not unknown else UNK
            return UNK if unknown else last
        if isinstance(e, ast.Compare):
            left = self.ev(e.left, st)
            result = True
            for op, c in zip(e.ops, e.comparators):
                right = self.ev(c, st)
                if isinstance(op, (ast.Is, ast.IsNot)) and (left is not UNK and right is None or right is not UNK and left is None) \
                        and not (left is UNK or right is UNK):
                    r = (left is right) if isinstance(op, ast.Is) else (left is not right)
                elif left is UNK or right is UNK:
                    return UNK
                else:
                    try:
                        r = {ast.Eq: lambda a, b: a == b, ast.NotEq: lambda a, b: a != b, ast.Lt: lambda a, b: a < b, ast.LtE: lambda a, b: a <= b,
                             ast.Gt: lambda a, b: a > b, ast.GtE: lambda a, b: a >= b, ast.In: lambda a, b: a in b, ast.NotIn: lambda a, b: a not in b,
                             ast.Is: lambda a, b: a is b, ast.IsNot: lambda a, b: a is not b}[type(op)](left, right)
                    except Exception as ex:
                        raise _Raise(type(ex).__name__)
                result = result and r
                if not result:
                    return False
                left = right
            return result
        if isinstance(e, ast.Subscript):
            v = self.ev(e.value, st)
            if isinstance(e.slice, ast.Slice):
                lo = self.ev(e.slice.lower, st) if e.slice.lower is not None else None
                hi = self.ev(e.slice.upper, st) if e.slice.upper is not None else None
                step = self.ev(e.slice.step, st) if e.slice.step is not None else None
                if v is UNK or UNK in (lo, hi, step):
                    return UNK
                idx = slice(lo, hi, step)
            else:
                idx = self.ev(e.slice, st)
                if v is UNK or idx is UNK:
                    return UNK
            try:
                return v[idx]
            except Exception as ex:
                raise _Raise(type(ex).__name__)
        if isinstance(e, ast.BinOp):
            a = self.ev(e.left, st)
            b = self.ev(e.right, st)
            if a is UNK or b is UNK:
                return UNK
            try:
                if isinstance(e.op, ast.Add):
                    return a + b
                if isinstance(e.op, ast.Sub):
                    return a - b
                if isinstance(e.op, ast.Mult) and not (isinstance(a, int) and isinstance(b, int) and abs(a * b) > 10**6):
                    return a * b
                if isinstance(e.op, ast.Mod):
                    return a % b
            except Exception as ex:
                raise _Raise(type(ex).__name__)
            return UNK
        if isinstance(e, ast.IfExp):
            t = self.ev(e.test, st)
            if t is UNK:
                self.ev(e.body, st)
                self.ev(e.orelse, st)
                return UNK
            return self.ev(e.body if t else e.orelse, st)
        if isinstance(e, ast.Call):
            return self.call(e, st)
        if isinstance(e, ast.Attribute):
            v = self.ev(e.value, st)
            if v is not UNK and not hasattr(v, e.attr):
                raise _Raise("AttributeError")
            return UNK
        if isinstance(e, (ast.ListComp, ast.GeneratorExp, ast.SetComp, ast.DictComp, ast.Lambda, ast.JoinedStr, ast.Dict, ast.Set, ast.Starred,
                          ast.NamedExpr, ast.Await, ast.Yield, ast.YieldFrom, ast.FormattedValue)):
            return UNK
        return UNK

    def call(self, e, st):
        env, trail = st
        f = e.func
        args = [self.ev(a, st) for a in e.args]
        for k in e.keywords:
            self.ev(k.value, st)
        if isinstance(f, ast.Attribute):
            if f.attr in READS:
                self.ev(f.value, st)
                trail.append(("read", ast.unparse(e)))
                if f.attr == "readlines":
                    return []
                return self.eof
            recv = self.ev(f.value, st)
            if f.attr in CONSUMES and isinstance(f.value, ast.Name) and recv is UNK:
                if f.value.id not in self.grown:
                    trail.append(("consume", ast.unparse(e)))
                return UNK
            if recv is UNK:
                return UNK
            if isinstance(recv, (str, bytes, list, tuple)):
                if not hasattr(recv, f.attr):
                    raise _Raise("AttributeError")
                if f.attr in PURE_METHODS and all(a is not UNK for a in args) and not e.keywords:
                    try:
                        return getattr(recv, f.attr)(*args)
                    except Exception as ex:
                        raise _Raise(type(ex).__name__)
            return UNK
        if isinstance(f, ast.Name):
            if f.id == "next":
                trail.append(("read", ast.unparse(e)))
                if len(args) < 2:
                    raise _Raise("StopIteration")
                return args[1]
            if f.id in ("len", "int", "float", "str", "bool", "bytes", "list", "tuple") and len(args) == 1 and args[0] is not UNK and f.id not in env:
                try:
                    return {"len": len, "int": int, "float": float, "str": str, "bool": bool, "bytes": bytes, "list": list, "tuple": tuple}[f.id](args[0])
                except Exception as ex:
                    raise _Raise(type(ex).__name__)
        return UNK

    # ------------------------------------------------------------------ statements
    def run(self):
        """outcomes of one iteration of the loop body once the stream is exhausted"""
        outs = []
        for kind, st in self.block(self.loop.body, (dict(self.consts), [])):
            if kind == "next":
                kind = "back"
            elif kind == "continue":
                kind = "back"
            outs.append((kind, st[1]))
        return outs

    def block(self, body, st):
        """-> list of (kind, state); kind in next / break / continue / raise:<name> / return"""
        states = [st]
        done = []
        for s in body:
            nxt = []
            for cur in states:
                for kind, out in self.stmt(s, cur):
                    (nxt if kind == "next" else done).append((kind, out))
            states = [o for _, o in nxt]
            self.budget -= len(states)
            if self.budget < 0:
                raise RuntimeError("path budget exhausted")
            if not states:
                break
        return done + [("next", s_) for s_ in states]

    @staticmethod
    def fork(st):
        return (dict(st[0]), list(st[1]))

    def assign(self, target, value, st):
        env = st[0]
        if isinstance(target, ast.Name):
            env[target.id] = value
        elif isinstance(target, (ast.Tuple, ast.List)):
            if value is UNK:
                for t in target.elts:
                    self.assign(t.value if isinstance(t, ast.Starred) else t, UNK, st)
            else:
                try:
                    vals = list(value)
                except Exception:
                    raise _Raise("TypeError")
                if any(isinstance(t, ast.Starred) for t in target.elts):
                    for t in target.elts:
                        self.assign(t.value if isinstance(t, ast.Starred) else t, UNK, st)
                    return
                if len(vals) != len(target.elts):
                    raise _Raise("ValueError")
                for t, v in zip(target.elts, vals):
                    self.assign(t, v, st)
        else:
            # attribute / subscript store: evaluate the pieces for definite errors
            if isinstance(target, ast.Subscript):
                self.ev(target.value, st)
                if not isinstance(target.slice, ast.Slice):
                    self.ev(target.slice, st)
                base = target.value
                if isinstance(base, ast.Name):
                    # a store into a concrete local makes it unknown
                    env[base.id] = UNK

    def stmt(self, s, st):
        st = self.fork(st)
        try:
            if isinstance(s, ast.Expr):
                self.ev(s.value, st)
                return [("next", st)]
            if isinstance(s, ast.Assign):
                v = self.ev(s.value, st)
                for t in s.targets:
                    self.assign(t, v, st)
                return [("next", st)]
            if isinstance(s, ast.AnnAssign):
                if s.value is not None:
                    self.assign(s.target, self.ev(s.value, st), st)
                return [("next", st)]
            if isinstance(s, ast.AugAssign):
                self.ev(s.value, st)
                if isinstance(s.target, ast.Name):
                    st[0][s.target.id] = UNK
                return [("next", st)]
            if isinstance(s, ast.Break):
                return [("break", st)]
            if isinstance(s, ast.Continue):
                return [("continue", st)]
            if isinstance(s, ast.Return):
                if s.value is not None:
                    self.ev(s.value, st)
                return [("return", st)]
            if isinstance(s, ast.Raise):
                name = "Exception"
                if s.exc is not None:
                    x = s.exc.func if isinstance(s.exc, ast.Call) else s.exc
                    name = ast.unparse(x).split(".")[-1]
                return [(f"raise:{name}", st)]
            if isinstance(s, ast.Assert):
                t = self.ev(s.test, st)
                if t is UNK:
                    return [("next", st), ("raise:AssertionError", self.fork(st))]
                return [("next", st)] if t else [("raise:AssertionError", st)]
            if isinstance(s, ast.If):
                t = self.ev(s.test, st)
                outs = []
                if t is UNK or t:
                    outs += self.block(s.body, self.fork(st))
                if t is UNK or not t:
                    outs += self.block(s.orelse, self.fork(st))
                return outs
            if isinstance(s, (ast.For, ast.While)):
                # nested loop: zero or more iterations; names bound inside become unknown
                if isinstance(s, ast.For):
                    it = self.ev(s.iter, st)
                else:
                    it = UNK
                inner = self.fork(st)
                for n in ast.walk(s):
                    if isinstance(n, ast.Name) and isinstance(n.ctx, ast.Store):
                        inner[0][n.id] = UNK
                outs = []
                if not (isinstance(it, (list, tuple, str, bytes)) and len(it) == 0):
                    for kind, o in self.block(s.body, self.fork(inner)):
                        if kind in ("break", "continue", "next"):
                            continue
                        outs.append((kind, o))
                    after = inner
                else:
                    after = st
                outs += self.block(s.orelse, self.fork(after)) if s.orelse else [("next", after)]
                return outs
            if isinstance(s, ast.With):
                for it in s.items:
                    self.ev(it.context_expr, st)
                    if it.optional_vars is not None:
                        self.assign(it.optional_vars, UNK, st)
                return self.block(s.body, st)
            if isinstance(s, ast.Try):
                outs = []
                body_outs = self.block(s.body, self.fork(st))
                # state in which a handler starts: anything assigned in the try body is unknown
                hstate = self.fork(st)
                for n in ast.walk(ast.Module(body=s.body, type_ignores=[])):
                    if isinstance(n, ast.Name) and isinstance(n.ctx, ast.Store):
                        hstate[0][n.id] = UNK
                # trail events of the try body may or may not have happened: keep only those before it
                for kind, o in body_outs:
                    if kind.startswith("raise:"):
                        name = kind.split(":", 1)[1]
                        h = self.handler_for(s, name)
                        if h is not None:
                            continue  # covered by the handler exploration below
                        outs.append((kind, o))
                    elif kind == "next":
                        outs += self.block(s.orelse, o) if s.orelse else [("next", o)]
                    else:
                        outs.append((kind, o))
                for h in s.handlers:
                    hs = self.fork(hstate)
                    if h.name:
                        hs[0][h.name] = UNK
                    outs += self.block(h.body, hs)
                if s.finalbody:
                    fin = []
                    for kind, o in outs:
                        for k2, o2 in self.block(s.finalbody, o):
                            fin.append((kind if k2 == "next" else k2, o2))
                    outs = fin
                return outs
            if isinstance(s, (ast.Pass, ast.Import, ast.ImportFrom, ast.Global, ast.Nonlocal, ast.FunctionDef, ast.ClassDef, ast.Delete)):
                return [("next", st)]
            return [("next", st)]
        except _Raise as r:
            return [(f"raise:{r.name}", st)]

    @staticmethod
    def handler_for(trystmt, name):
        for h in trystmt.handlers:
            if h.type is None:
                return h
            names = [ast.unparse(x).split(".")[-1] for x in (h.type.elts if isinstance(h.type, ast.Tuple) else [h.type])]
            if name in names or "BaseException" in names or ("Exception" in names and name not in ("KeyboardInterrupt", "SystemExit", "GeneratorExit")):
                return h
            # LookupError covers IndexError / KeyError; ValueError covers UnicodeDecodeError
            if ("LookupError" in names and name in ("IndexError", "KeyError")) or ("ValueError" in names and name.startswith("Unicode")):
                return h
        return None
