"""Setters of hashed mesh data re-bind the DataStore entry on every path (shared by C01-R3 and C02-R7)."""
from __future__ import annotations

import ast

from .cfg import CFG
from .report import key_of


def setter_rebinds(run, ix, rule, prop, fields=("vertices", "faces")):
    import networkx as nx
    run.rule(rule, "the setters of hashed mesh arrays hand the new value to DataStore.__setitem__ on every path: they never copy it INTO the array that is already stored "
                   "(that buffer may be memory a second TrackedArray - the caller's, another mesh's, a path's - also tracks, whose dirty flag such a write does not raise)")
    T = ix.cls("trimesh.base.Trimesh")
    for field in fields:
        s = T.setters.get(field)
        if s is None:
            run.instance(rule, "trimesh/base.py", f"Trimesh.{field} setter not found - NOT decided", True, nontrivial=False)
            continue
        stores = [st for st in ast.walk(s.node) if isinstance(st, ast.Assign) and isinstance(st.targets[0], ast.Subscript)
                  and ast.unparse(st.targets[0].value) == "self._data" and isinstance(st.targets[0].slice, ast.Constant) and st.targets[0].slice.value == field]
        if not stores:
            run.instance(rule, s.where, f"Trimesh.{field} setter: no `self._data['{field}'] = ...` store - NOT decided here (C01-R3 reports it)", True, nontrivial=False)
            continue
        cfg = CFG(s.node, exceptions=False)
        g2 = cfg.g.copy()
        g2.remove_nodes_from([n_ for st in stores for n_ in cfg.nodes_of.get(id(st), [])])
        bypass = cfg.exit in g2 and cfg.entry in g2 and nx.has_path(g2, cfg.entry, cfg.exit)
        run.instance(rule, s.where, f"every path through the {field} setter re-binds self._data['{field}']", not bypass)
        if bypass:
            inplace = [st for st in ast.walk(s.node) if isinstance(st, ast.Assign) and isinstance(st.targets[0], ast.Subscript) and not ast.unparse(st.targets[0].value).startswith("self._data")]
            run.violation(rule, s.where, f"Trimesh.{field} setter has a path that returns without `self._data['{field}'] = ...`"
                          + (f" (it writes `{ast.unparse(inplace[0])[:50]}` into the array that is already stored)" if inplace else "")
                          + ": two objects built on one array hold different TrackedArrays over the same bytes, and the other one keeps its memoised hash while its bytes change",
                          key=key_of(f"{prop}-{rule}", "setter-bypass", field))
