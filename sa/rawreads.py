"""Shared rule: entries are read from a raw memo dict (`x._cache.cache`) only after that cache was verified."""
from __future__ import annotations

import ast

from .cachesim import CacheSim
from .report import key_of

RAW_READ_EXEMPT = {
    "trimesh.visual.color:ColorVisuals.kind": "only the number of entries is read (len), no value leaves the cache",
    "trimesh.exchange.gltf:_append_mesh": "membership only decides whether normals are exported; the values come from the verified property",
    "trimesh.exchange.obj:export_obj": "membership only decides whether normals are exported; the values come from the verified property",
}


def raw_reads(run, ix, ef, rule, prop, module_filter=None, floor=1):
    """every Load of `<name>._cache.cache` that reads entries (subscript, iteration, items/keys/values/get, membership,
    passing the dict on) must be dominated by a verification of that cache with no hashed-data write in between"""
    n = 0
    for f in ix.all_functions:
        if f.module.name == "trimesh.caching":
            continue
        if module_filter is not None and not module_filter(f.module.name):
            continue
        reads = []
        parents = {}
        for node in ast.walk(f.node):
            for c in ast.iter_child_nodes(node):
                parents[id(c)] = node
        for node in ast.walk(f.node):
            if isinstance(node, ast.Attribute) and node.attr == "cache" and isinstance(node.value, ast.Attribute) \
                    and node.value.attr == "_cache" and isinstance(node.value.value, ast.Name) and isinstance(node.ctx, ast.Load):
                par = parents.get(id(node))
                # receiver of a mutating dict call, or store target: not a read of entries
                if isinstance(par, ast.Attribute) and par.attr in ("update", "pop", "clear", "setdefault", "__setitem__"):
                    continue
                if isinstance(par, ast.Subscript) and isinstance(par.ctx, (ast.Store, ast.Del)):
                    continue
                reads.append((node, node.value.value.id))
        if not reads:
            continue
        spec = f"{f.module.name}:{f.qualname}"
        # nested functions are analysed as part of their own FuncInfo only
        owners = sorted({o for _, o in reads})
        for owner in owners:
            cls = None
            if f.cls is not None and f.parent is None and f.params and f.params[0] == owner:
                cls = f.cls
            sim = CacheSim(ef, f, cls, owner, _any_hashed, None)
            cfg = sim.cfg
            # an object created inside this function and never written to afterwards carries a cache consistent with its data
            refs = sim.an.env.get(owner, set())
            fresh_local = bool(refs) and all(r.fresh for r in refs) and owner not in sim.an.params \
                and not any(fx.data_writes for fx in sim.fx.values()) and _bound_by_calls_only(f, owner)
            for node, o in reads:
                if o != owner:
                    continue
                n += 1
                rnodes = [k for k, st in cfg.stmt.items() if st is not None and cfg.kind[k] != "join" and any(node is x for x in _own_walk(cfg, k))]
                if not rnodes:
                    continue
                ok = True
                why = ""
                for r in rnodes:
                    verifiers = [k for k, fx in sim.fx.items() if (fx.memo_reads or any(e[0] == "verify" for e in fx.events)) and k != r
                                 and cfg.dominates(k, r)]
                    # the same statement may verify first (`x._cache.verify()` is its own node) - also accept an API access in the
                    # read's own statement only if it is the verify call itself
                    good = False
                    for v in verifiers:
                        writes_between = [w for w, fx in sim.fx.items() if fx.data_writes and w not in (v,) and
                                          _reach(cfg, v, w) and (_reach(cfg, w, r) or w == r)]
                        if not writes_between:
                            good = True
                            break
                    if not good:
                        ok = False
                        why = "no dominating verification" if not verifiers else "hashed data is written between the verification and the read"
                exempt = RAW_READ_EXEMPT.get(spec)
                if fresh_local and not ok:
                    run.instance(rule, f.where, f"raw read of `{owner}._cache.cache`: `{owner}` is created in this function and not modified", True)
                    continue
                if exempt and not ok:
                    run.instance(rule, f.where, f"raw read `{ast.unparse(parents.get(id(node), node))[:60]}`: exempt - {exempt}", True, nontrivial=False)
                    continue
                run.instance(rule, f.where, f"raw read `{ast.unparse(parents.get(id(node), node))[:60]}` verified first: {ok}", ok)
                if not ok:
                    run.violation(rule, f"{f.module.rel}:{node.lineno} {f.qualname}",
                                  f"entries are read from `{owner}._cache.cache` ({why}): if `{owner}`'s data changed since its last "
                                  f"verified access the stale entries are handed on",
                                  key=key_of(f"{prop}-{rule}", spec, owner))
    run.floor("raw memo-dict reads examined", n, floor)


def _bound_by_calls_only(f, name):
    """`name` is bound in f only by plain assignments of a call result (`x = creation.box(...)`, `x = y.copy()`): a loop or
    comprehension variable ranges over the ELEMENTS of a container, and the elements of a list built in this function are
    not new objects just because the list is"""
    binds = 0
    for n in ast.walk(f.node):
        if isinstance(n, ast.Name) and n.id == name and isinstance(n.ctx, ast.Store):
            binds += 1
    good = 0
    for st in ast.walk(f.node):
        if isinstance(st, ast.Assign) and len(st.targets) == 1 and isinstance(st.targets[0], ast.Name) and st.targets[0].id == name and isinstance(st.value, ast.Call):
            good += 1
    return binds > 0 and binds == good


def _any_hashed(path):
    if not path:
        return None
    if path[0] in ("_data", "_vertices", "entities", "vertices", "faces", "transforms", "geometry", "graph"):
        return path[0]
    return None


def _own_walk(cfg, k):
    from .cfg import own_exprs

    st = cfg.stmt[k]
    if cfg.kind[k] == "stmt":
        return list(ast.walk(st))
    out = []
    for e in own_exprs(st):
        if isinstance(e, ast.AST):
            out.extend(ast.walk(e))
    return out


def _reach(cfg, a, b):
    import networkx as nx

    return a != b and nx.has_path(cfg.g, a, b)


