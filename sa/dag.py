"""E5b - hash-consed value graphs: what a function computes, with the source's names, step boundaries and repeated
subexpressions factored out.

`Values(ix, f)` gives every expression of function f a node in one hash-consed DAG:

  * a local is replaced by the node of its reaching definition (SSA reading: `x += e` is `x' = x + e`, `x[i] = e` is
    `x' = STORE(x, _[i], e)`); several reaching definitions give `PHI(a, b, ...)` (argument order canonical); a loop
    variable is `EACH(iterable)`; a value that depends on itself around a loop is `MU`;
  * parameters are `P_<name>`, callees are the dotted entity they resolve to, array casts are dropped, keyword
    arguments are sorted (the same vocabulary as sa/provenance.py);
  * every non-leaf subterm is interned: structurally equal subterms ARE the same node, whether the source wrote the
    expression twice, named it once, or split it over three statements.  Size is linear in the code.

Rules query the graph with expression templates (`match`): metavariables `_e_x` bind nodes (equal binding = same node),
`+ * & |` match in any operand order, comparisons also mirrored, `.reshape(a, b)` was already unified at load time.
`text(node, depth)` prints a node with shared parts expanded `depth` levels for messages.
"""
from __future__ import annotations

import ast
import copy
import itertools

from .provenance import Prov


def _is_leaf(n):
    return isinstance(n, (ast.Name, ast.Constant))


class _FoldNeg(ast.NodeTransformer):
    """-<number literal> is one constant"""

    def visit_UnaryOp(self, node):
        self.generic_visit(node)
        if isinstance(node.op, ast.USub) and isinstance(node.operand, ast.Constant) and isinstance(node.operand.value, (int, float)) \
                and not isinstance(node.operand.value, bool):
            return ast.Constant(value=-node.operand.value)
        return node


class Dag:
    def __init__(self):
        self.key2sym = {}
        self.defs = {}

    def intern(self, node):
        """node: an expression whose proper subexpressions are already leaves / symbols -> symbol Name"""
        if _is_leaf(node):
            return node
        # projection of a tuple built in the same function (`(a, b)[0]`, also through a join of several tuples - the
        # return value of an inlined helper with several exits) is the component itself
        if isinstance(node, ast.Subscript) and isinstance(node.slice, ast.Constant) and isinstance(node.slice.value, int) \
                and not isinstance(node.slice.value, bool) and isinstance(node.value, ast.Name):
            k = node.slice.value
            d = self.defs.get(node.value.id)
            if isinstance(d, ast.Tuple) and -len(d.elts) <= k < len(d.elts) and not any(isinstance(x, ast.Starred) for x in d.elts):
                return d.elts[k]
            if isinstance(d, ast.Call) and isinstance(d.func, ast.Name) and d.func.id == "PHI" and d.args:
                parts = [self.defs.get(a.id) if isinstance(a, ast.Name) else None for a in d.args]
                if all(isinstance(p, ast.Tuple) and -len(p.elts) <= k < len(p.elts) and not any(isinstance(x, ast.Starred) for x in p.elts) for p in parts):
                    els = [p.elts[k] for p in parts]
                    uniq = []
                    for x in els:
                        if ast.dump(x) not in [ast.dump(u) for u in uniq]:
                            uniq.append(x)
                    if len(uniq) == 1:
                        return uniq[0]
                    uniq.sort(key=self._ident)
                    return self.intern(ast.Call(func=ast.Name(id="PHI", ctx=ast.Load()), args=uniq, keywords=[]))
        key = ast.dump(node)
        s = self.key2sym.get(key)
        if s is None:
            s = f"S{len(self.key2sym) + 1}"
            self.key2sym[key] = s
            self.defs[s] = node
        return ast.Name(id=s, ctx=ast.Load())

    def intern_tree(self, expr):
        """intern every subexpression of a (small) tree bottom-up"""
        dag = self

        class I(ast.NodeTransformer):
            def __init__(self, bound=frozenset()):
                self.bound = frozenset(bound)

            def _open(self, node):
                return bool(self.bound) and any(isinstance(k, ast.Name) and k.id in self.bound for k in ast.walk(node))

            def visit(self, node):
                if isinstance(node, ast.expr):
                    if _is_leaf(node):
                        return node
                    if isinstance(node, (ast.Lambda, ast.ListComp, ast.SetComp, ast.DictComp, ast.GeneratorExp)):
                        # subterms that do not mention the bound variables are ordinary nodes of the graph
                        if isinstance(node, ast.Lambda):
                            a = node.args
                            names = [x.arg for x in a.posonlyargs + a.args + a.kwonlyargs]
                        else:
                            names = [x.id for g in node.generators for x in ast.walk(g.target) if isinstance(x, ast.Name)]
                        inner = I(self.bound | set(names))
                        for fld, val in ast.iter_fields(node):
                            if isinstance(val, ast.AST):
                                setattr(node, fld, inner.visit(val))
                            elif isinstance(val, list):
                                setattr(node, fld, [inner.visit(v) if isinstance(v, ast.AST) else v for v in val])
                        return node if self._open(node) else dag.intern(_strip_ctx(node))
                    self.generic_visit(node)
                    if isinstance(node, (ast.Starred, ast.Slice)) or self._open(node):
                        return node
                    return dag.intern(_strip_ctx(node))
                return self.generic_visit(node)

        return I().visit(_FoldNeg().visit(expr))

    # ------------------------------------------------------------------ printing
    def node(self, x):
        """x: symbol text / Name / ast -> ast node one level expanded"""
        if isinstance(x, str):
            x = ast.parse(x, mode="eval").body
        if isinstance(x, ast.Name) and x.id in self.defs:
            return self.defs[x.id]
        return x

    def text(self, x, depth=3, limit=400):
        dag = self

        def ex(n, d):
            class E(ast.NodeTransformer):
                def visit_Name(self, node):
                    if node.id in dag.defs and d > 0:
                        return ex(copy.deepcopy(dag.defs[node.id]), d - 1)
                    return node

            return E().visit(n)

        try:
            n = ast.parse(x, mode="eval").body if isinstance(x, str) else copy.deepcopy(x)
        except SyntaxError:
            return str(x)[:limit]  # a slice text such as `:2`
        out = ast.unparse(ast.fix_missing_locations(ex(n, depth)))
        return out if len(out) <= limit else out[:limit] + "..."

    def contains(self, x, sym, _seen=None):
        """does node x (transitively) contain symbol / leaf text `sym`?"""
        _seen = _seen if _seen is not None else set()
        n = ast.parse(x, mode="eval").body if isinstance(x, str) else x
        for k in ast.walk(n):
            if isinstance(k, ast.Name):
                if k.id == sym:
                    return True
                if k.id in self.defs and k.id not in _seen:
                    _seen.add(k.id)
                    if self.contains(self.defs[k.id], sym, _seen):
                        return True
        return False

    # ------------------------------------------------------------------ matching
    def match(self, template, code, env=None):
        """template text with _e_ (any node, same node everywhere) / _k_ (constant) metavariables against a node;
        returns the binding {meta: symbol or leaf text} or None"""
        t = _FoldNeg().visit(ast.parse(template, mode="eval").body)
        c = ast.parse(code, mode="eval").body if isinstance(code, str) else code
        e2 = dict(env or {})
        try:
            self._m(t, c, e2)
        except _No:
            return None
        return e2

    def _ident(self, c):
        return c.id if isinstance(c, ast.Name) else ast.unparse(c)

    def _m(self, t, c, env):
        if isinstance(t, ast.Name) and t.id.startswith("_e_"):
            k = self._ident(c)
            if env.setdefault(t.id, k) != k:
                raise _No
            return
        if isinstance(t, ast.Name) and t.id.startswith("_v_"):
            # a variable bound inside the matched term (comprehension / lambda variable): any name, the same everywhere
            if not isinstance(c, ast.Name) or c.id in self.defs:
                raise _No
            if env.setdefault(t.id, c.id) != c.id:
                raise _No
            return
        if isinstance(t, ast.Name) and t.id.startswith("_k_"):
            cc = self.node(c)
            if not isinstance(cc, ast.Constant):
                raise _No
            if env.setdefault(t.id, repr(cc.value)) != repr(cc.value):
                raise _No
            return
        if isinstance(t, ast.Name) and isinstance(c, ast.Name) and t.id == c.id:
            return  # the template names a node of the graph (a symbol bound earlier) or the same leaf
        c = self.node(c) if isinstance(c, ast.Name) else c
        # dotted names: template `numpy.dot` is an Attribute chain, the graph holds it as one Name
        if isinstance(t, ast.Attribute) and isinstance(c, ast.Name) and "." in c.id:
            if ast.unparse(t) != c.id:
                raise _No
            return
        if isinstance(t, ast.Name):
            if not isinstance(c, ast.Name) or c.id != t.id:
                raise _No
            return
        if isinstance(t, ast.BinOp) and isinstance(c, ast.BinOp) and type(t.op) is type(c.op) and isinstance(t.op, (ast.Add, ast.Mult, ast.BitAnd, ast.BitOr)):
            tt, cc = self._flat_t(t, type(t.op)), self._flat_c(c, type(c.op))
            if len(tt) == len(cc) and len(tt) <= 4:
                for perm in itertools.permutations(cc):
                    e2 = dict(env)
                    try:
                        for a, b in zip(tt, perm):
                            self._m(a, b, e2)
                    except _No:
                        continue
                    env.clear()
                    env.update(e2)
                    return
            raise _No
        if isinstance(t, ast.Compare) and isinstance(c, ast.Compare) and len(t.ops) == 1 and len(c.ops) == 1:
            FL = {ast.Lt: ast.Gt, ast.Gt: ast.Lt, ast.LtE: ast.GtE, ast.GtE: ast.LtE, ast.Eq: ast.Eq, ast.NotEq: ast.NotEq}
            if type(t.ops[0]) is type(c.ops[0]):
                e2 = dict(env)
                try:
                    self._m(t.left, c.left, e2)
                    self._m(t.comparators[0], c.comparators[0], e2)
                    env.clear()
                    env.update(e2)
                    return
                except _No:
                    pass
            if type(c.ops[0]) in FL and FL[type(c.ops[0])] is type(t.ops[0]):
                self._m(t.left, c.comparators[0], env)
                self._m(t.comparators[0], c.left, env)
                return
            raise _No
        if type(t) is not type(c):
            raise _No
        if isinstance(t, ast.Constant):
            if t.value != c.value or type(t.value) is not type(c.value):
                raise _No
            return
        if isinstance(t, ast.Call):
            self._m(t.func, c.func, env)
            if len(t.args) != len(c.args):
                raise _No
            for a, b in zip(t.args, c.args):
                self._m(a, b, env)
            tk = {k.arg: k.value for k in t.keywords}
            ck = {k.arg: k.value for k in c.keywords}
            if set(tk) != set(ck):
                raise _No
            for k in tk:
                self._m(tk[k], ck[k], env)
            return
        for fld in t._fields:
            if fld in ("ctx", "type_comment", "kind"):
                continue
            a, b = getattr(t, fld, None), getattr(c, fld, None)
            if isinstance(a, list):
                if not isinstance(b, list) or len(a) != len(b):
                    raise _No
                for x, y in zip(a, b):
                    if isinstance(x, ast.AST):
                        self._m(x, y, env)
                    elif x != y:
                        raise _No
            elif isinstance(a, ast.AST):
                if not isinstance(b, ast.AST):
                    raise _No
                self._m(a, b, env)
            elif a != b:
                raise _No

    def _flat_t(self, e, op):
        if isinstance(e, ast.BinOp) and type(e.op) is op:
            return self._flat_t(e.left, op) + self._flat_t(e.right, op)
        return [e]

    def _flat_c(self, e, op):
        n = self.node(e) if isinstance(e, ast.Name) else e
        if isinstance(n, ast.BinOp) and type(n.op) is op:
            return self._flat_c(n.left, op) + self._flat_c(n.right, op)
        return [e]

    def find(self, template, root, env=None, limit=5000):
        """every (binding, symbol) of a subterm reachable from root that matches the template"""
        out, seen, todo = [], set(), [root if not isinstance(root, str) else ast.parse(root, mode="eval").body]
        while todo and len(seen) < limit:
            n = todo.pop()
            key = self._ident(n) if isinstance(n, ast.Name) else id(n)
            if key in seen:
                continue
            seen.add(key)
            if isinstance(n, ast.expr):
                e = self.match(template, n, env)
                if e is not None:
                    out.append((e, self._ident(n) if isinstance(n, ast.Name) else ast.unparse(n)))
            nn = self.node(n) if isinstance(n, ast.Name) else n
            for c in ast.iter_child_nodes(nn):
                todo.append(c)
        return out


class _No(Exception):
    pass


def _strip_ctx(node):
    for n in ast.walk(node):
        if hasattr(n, "ctx"):
            n.ctx = ast.Load()
    return node


class Values:
    """value graph of one function"""

    def __init__(self, ix, f, abstract=None, dag=None, strip=True):
        """strip=False keeps conversion calls (`np.asanyarray(x)`, `np.array(x)`, `float(x)`) in the values: for rules
        about whether a stored object is the caller's or a copy"""
        self.ix = ix
        self.f = f
        self.strip = strip
        self.pv = Prov(ix, f, ssa=True)
        self.abstract = dict(abstract or {})
        self.dag = dag or Dag()
        self._memo = {}
        self._busy = set()

    # the value local `name` has at statement `at_stmt` (before it runs)
    def local(self, name, at_stmt):
        ds = self.pv.defs_at(at_stmt, name)
        if ds is None or not ds:
            return ast.Name(id=name, ctx=ast.Load())  # global / builtin / closure
        if ds == [self.pv.cfg.entry]:
            return ast.Name(id=f"P_{name}", ctx=ast.Load())
        vals = []
        for d in ds:
            if d == self.pv.cfg.entry:
                vals.append(ast.Name(id=f"P_{name}", ctx=ast.Load()))
            else:
                vals.append(self._def(name, d))
        ids = sorted({self.dag._ident(v) for v in vals})
        if len(ids) == 1:
            return vals[0]
        return self.dag.intern(ast.Call(func=ast.Name(id="PHI", ctx=ast.Load()), args=[ast.parse(i, mode="eval").body for i in ids], keywords=[]))

    def _def(self, name, d):
        key = (name, d)
        if key in self._memo:
            return self._memo[key]
        if key in self._busy:
            return ast.Name(id="MU", ctx=ast.Load())
        self._busy.add(key)
        try:
            st = self.pv.cfg.stmt[d]
            kind = self.pv.cfg.kind[d]
            out = None
            if kind == "stmt" and isinstance(st, ast.Assign) and len(st.targets) == 1 and isinstance(st.targets[0], ast.Name):
                out = self.value(st.value, st)
            elif kind == "stmt" and isinstance(st, ast.AnnAssign) and isinstance(st.target, ast.Name) and st.value is not None:
                out = self.value(st.value, st)
            elif kind == "stmt" and isinstance(st, ast.AugAssign) and isinstance(st.target, ast.Name):
                out = self.dag.intern(ast.BinOp(left=self.local(name, st), op=st.op, right=self.value(st.value, st)))
            elif kind == "stmt" and isinstance(st, (ast.Assign, ast.AugAssign)):
                tg = st.targets[0] if isinstance(st, ast.Assign) else st.target
                if isinstance(tg, ast.Subscript) and isinstance(tg.value, ast.Name) and tg.value.id == name and (isinstance(st, ast.AugAssign) or len(st.targets) == 1):
                    prev = self.local(name, st)
                    sl = self._subst(copy.deepcopy(tg.slice), st)
                    idx = self.dag.intern_tree(ast.Subscript(value=ast.Name(id="_", ctx=ast.Load()), slice=sl, ctx=ast.Load()))
                    val = self.value(st.value, st)
                    if isinstance(st, ast.AugAssign):
                        cur = self.dag.intern_tree(ast.Subscript(value=prev, slice=copy.deepcopy(sl), ctx=ast.Load()))
                        val = self.dag.intern(ast.BinOp(left=cur, op=st.op, right=val))
                    out = self.dag.intern(ast.Call(func=ast.Name(id="STORE", ctx=ast.Load()), args=[prev, idx, val], keywords=[]))
                elif isinstance(st, ast.Assign) and len(st.targets) == 1 and isinstance(tg, (ast.Tuple, ast.List)) and all(isinstance(x, ast.Name) for x in tg.elts):
                    i = [x.id for x in tg.elts].index(name)
                    if isinstance(st.value, (ast.Tuple, ast.List)) and len(st.value.elts) == len(tg.elts):
                        out = self.value(st.value.elts[i], st)
                    else:
                        out = self.dag.intern(ast.Subscript(value=self.value(st.value, st), slice=ast.Constant(i), ctx=ast.Load()))
            elif kind == "for" and isinstance(st, ast.For) and isinstance(st.target, ast.Name):
                out = self.dag.intern(ast.Call(func=ast.Name(id="EACH", ctx=ast.Load()), args=[self.value(st.iter, st)], keywords=[]))
            elif kind == "for" and isinstance(st, ast.For) and isinstance(st.target, (ast.Tuple, ast.List)) and all(isinstance(x, ast.Name) for x in st.target.elts):
                i = [x.id for x in st.target.elts].index(name)
                each = self.dag.intern(ast.Call(func=ast.Name(id="EACH", ctx=ast.Load()), args=[self.value(st.iter, st)], keywords=[]))
                out = self.dag.intern(ast.Subscript(value=each, slice=ast.Constant(i), ctx=ast.Load()))
            elif kind == "stmt" and isinstance(st, (ast.FunctionDef, ast.ClassDef)):
                out = ast.Name(id=f"{self.f.module.name}.{self.f.qualname}.{name}", ctx=ast.Load())
            elif kind == "stmt" and isinstance(st, (ast.Import, ast.ImportFrom)):
                dotted = self.pv._local_import(st, name)
                if dotted:
                    out = ast.Name(id=dotted, ctx=ast.Load())
            if out is None:
                out = ast.Name(id=f"OPAQUE_{name}_{getattr(st, 'lineno', 0)}", ctx=ast.Load())
            self._memo[key] = out
            return out
        finally:
            self._busy.discard(key)

    def _subst(self, expr, at_stmt):
        """replace local loads by their value nodes (in place on a private copy); comprehension / lambda variables stay"""
        vals = self

        class T(ast.NodeTransformer):
            def __init__(self, bound=()):
                self.bound = set(bound)

            def visit_Name(self, node):
                if isinstance(node.ctx, ast.Load) and node.id not in self.bound:
                    return vals.local(node.id, at_stmt)
                return node

            def _scoped(self, node, names):
                inner = T(self.bound | set(names))
                for fld, val in ast.iter_fields(node):
                    if isinstance(val, ast.AST):
                        setattr(node, fld, inner.visit(val))
                    elif isinstance(val, list):
                        setattr(node, fld, [inner.visit(v) if isinstance(v, ast.AST) else v for v in val])
                return node

            def visit_Lambda(self, node):
                a = node.args
                return self._scoped(node, [x.arg for x in a.posonlyargs + a.args + a.kwonlyargs])

            def _comp(self, node):
                names = [x.id for g in node.generators for x in ast.walk(g.target) if isinstance(x, ast.Name)]
                return self._scoped(node, names)

            visit_ListComp = visit_SetComp = visit_DictComp = visit_GeneratorExp = _comp

        return T().visit(expr)

    def value(self, expr, at_stmt):
        """node of an expression evaluated at statement at_stmt"""
        e = self._subst(copy.deepcopy(expr), at_stmt)
        e = self.pv._finish_ast(e, self.strip) if hasattr(self.pv, "_finish_ast") else e
        if self.abstract:
            ab = self.abstract

            class A(ast.NodeTransformer):
                def visit_Call(self, node):
                    if isinstance(node.func, ast.Name) and node.func.id in ab:
                        return ast.Name(id=ab[node.func.id], ctx=ast.Load())  # one opaque symbol per producer
                    return self.generic_visit(node)

            e = A().visit(e)
        e = self._bind_args(e)
        return self.dag.intern_tree(e)

    def _bind_args(self, e):
        """calls of functions defined in the repository get their positional arguments bound to parameter names
        (`util.allclose(a, b, 1e-8)` and `util.allclose(a, b, atol=1e-8)` are one node); keywords stay sorted"""
        ix = self.ix
        from .index import ClassInfo, FuncInfo

        class B(ast.NodeTransformer):
            def visit_Call(self, node):
                self.generic_visit(node)
                if not (isinstance(node.func, ast.Name) and "." in node.func.id and node.args) or any(isinstance(a, ast.Starred) for a in node.args) \
                        or any(k.arg is None for k in node.keywords):
                    return node
                r = ix.resolve_dotted(node.func.id)
                params = None
                if isinstance(r, FuncInfo) and r.cls is None:
                    a = r.node.args
                    if not a.vararg:
                        params = [x.arg for x in a.posonlyargs + a.args]
                elif isinstance(r, ClassInfo):
                    mem = ix.member(r, "__init__")
                    ini = mem.get("method") if mem else None
                    if ini is not None and not ini.node.args.vararg:
                        params = [x.arg for x in ini.node.args.posonlyargs + ini.node.args.args][1:]
                if params is None or len(node.args) > len(params):
                    return node
                have = {k.arg for k in node.keywords}
                names = params[:len(node.args)]
                if have & set(names):
                    return node
                node.keywords = sorted(node.keywords + [ast.keyword(arg=n, value=v) for n, v in zip(names, node.args)], key=lambda k: k.arg)
                node.args = []
                return node

        return B().visit(e)

    # convenience
    def returns(self):
        return [r for r in ast.walk(self.f.node) if isinstance(r, ast.Return) and r.value is not None and self.pv.stmt_of_return(r) is not None]

    def match(self, template, node, env=None):
        return self.dag.match(template, node, env)

    def text(self, node, depth=3, limit=400):
        return self.dag.text(node, depth, limit)
