"""E8 - dimension analysis: which power of the model's length unit a value scales with.

A function that first rescales its input ("we are scaling the mesh to a unit cube") does so in order to compare against
absolute constants afterwards: `fit_error < 1e-6` means something only for a quantity that no longer depends on the size
of the model.  Whether that is so is a fact about the *shape of the arithmetic*: the length exponent of every value -
coordinates 1, a difference of coordinates 1, a coordinate divided by an extent 0, a squared distance 2, a count 0 - is
computed by abstract interpretation (no values, no running):

    a + b, a - b    the common exponent (a literal or an unknown adopts the other's: code is assumed homogeneous)
    a * b, a / b    sum, difference;   a ** k   k times;   sqrt   half
    min max sum mean ptp abs norm, indexing, reshaping, stacking     unchanged
    argmin / len / shape / comparisons                               0
    calls of repository functions                                    analysed with the argument exponents (bounded depth)

`None` is "unknown"; joins are optimistic (unknown joins to the known side).  Every comparison met is recorded with the
exponents of both sides; a rule then looks at the comparisons against a non-zero numeric literal.
"""
from __future__ import annotations

import ast
from fractions import Fraction

from .index import FuncInfo

LIT = "lit"  # a numeric literal: dimensionless, adopts the other operand's exponent in + and -

_SAME_METHODS = {"min", "max", "sum", "mean", "ptp", "copy", "reshape", "astype", "flatten", "ravel", "clip", "round", "squeeze", "take", "view",
                 "cumsum", "transpose", "tolist", "item", "std", "swapaxes", "repeat", "__abs__", "dot"}
_ZERO_METHODS = {"argmin", "argmax", "argsort", "nonzero", "any", "all", "searchsorted"}
_SAME_FUNCS = {"numpy.abs", "numpy.absolute", "numpy.min", "numpy.max", "numpy.amin", "numpy.amax", "numpy.sum", "numpy.mean", "numpy.median", "numpy.ptp",
               "numpy.array", "numpy.asanyarray", "numpy.asarray", "numpy.ascontiguousarray", "numpy.linalg.norm", "numpy.sort", "numpy.unique",
               "numpy.vstack", "numpy.hstack", "numpy.column_stack", "numpy.concatenate", "numpy.stack", "numpy.append", "numpy.diff", "numpy.cumsum",
               "numpy.reshape", "numpy.squeeze", "numpy.atleast_2d", "numpy.atleast_1d", "numpy.float64", "float", "abs", "max", "min", "sum", "numpy.clip",
               "numpy.round", "numpy.std", "numpy.maximum", "numpy.minimum", "numpy.tile", "numpy.repeat", "numpy.nanmax", "numpy.nanmin", "numpy.average",
               "numpy.subtract", "numpy.add", "numpy.negative", "numpy.fabs", "numpy.ravel", "numpy.transpose", "numpy.copy", "numpy.require"}
_ZERO_FUNCS = {"len", "numpy.argmin", "numpy.argmax", "numpy.argsort", "numpy.nonzero", "numpy.shape", "numpy.arange", "numpy.zeros", "numpy.ones",
               "numpy.eye", "numpy.sign", "numpy.isclose", "numpy.allclose", "numpy.any", "numpy.all", "range", "int", "bool", "numpy.isfinite", "numpy.isnan",
               "numpy.logical_and", "numpy.logical_or", "numpy.logical_not", "numpy.arctan2", "numpy.cos", "numpy.sin", "numpy.arccos", "numpy.arcsin"}


_GEOM_ATTRS = {"vertices", "points", "bounds", "centroid", "extents", "convex_hull", "bounding_box", "bounding_box_oriented", "center_mass", "scale",
               "triangles", "triangles_center", "data", "min_bound", "max_bound"}


def _join(a, b):
    if isinstance(a, tuple) and isinstance(b, tuple) and len(a) == len(b):
        return tuple(_join(x, y) for x, y in zip(a, b))
    if a is None or a == LIT:
        return b if b is not None else a
    if b is None or b == LIT:
        return a
    return a if a == b else None


def _num(d):
    """exponent as a Fraction (literals are 0), or None"""
    if d == LIT:
        return Fraction(0)
    return d if isinstance(d, Fraction) else None


class Units:
    def __init__(self, ix, depth=3):
        self.ix = ix
        self.depth = depth
        self.returns = []  # (FuncInfo, Return node, exponent(s)) of every return met while recording
        self.compares = []  # (FuncInfo, Compare node, left exponent, right exponent, left literal value or None, right literal value or None)
        self._memo = {}
        self._busy = set()

    # ---- functions
    def analyse(self, fi: FuncInfo, args, depth=0):
        """exponent(s) of what the function returns, for the given parameter exponents ({name: Fraction | None})"""
        key = (id(fi), tuple(sorted((k, str(v)) for k, v in args.items())))
        if key in self._memo:
            return self._memo[key]
        if key in self._busy or depth > self.depth:
            return None
        self._busy.add(key)
        env = {p: args.get(p) for p in fi.params}
        fr = {"fi": fi, "env": env, "ret": [], "depth": depth, "record": True}
        # two passes so that values defined later in a loop body are seen by earlier uses; comparisons recorded on the last
        fr["record"] = False
        self.block(fi.node.body, fr)
        fr["ret"], fr["record"] = [], True
        self.block(fi.node.body, fr)
        out = None
        for r in fr["ret"]:
            out = r if out is None else _join(out, r)
        self._busy.discard(key)
        self._memo[key] = out
        return out

    def block(self, body, fr):
        for st in body:
            self.stmt(st, fr)

    def stmt(self, st, fr):
        env = fr["env"]
        if isinstance(st, ast.Assign):
            d = self.dim(st.value, fr)
            for t in st.targets:
                self.bind(t, d, fr)
        elif isinstance(st, ast.AnnAssign) and st.value is not None:
            self.bind(st.target, self.dim(st.value, fr), fr)
        elif isinstance(st, ast.AugAssign):
            cur = self.dim(_load(st.target), fr)
            self.bind(st.target, self.binop(st.op, cur, self.dim(st.value, fr), st.value), fr)
        elif isinstance(st, ast.Expr):
            self.dim(st.value, fr)
        elif isinstance(st, ast.Return):
            if st.value is not None:
                d = self.dim(st.value, fr)
                fr["ret"].append(d)
                if fr["record"]:
                    self.returns.append((fr["fi"], st, d))
        elif isinstance(st, (ast.If, ast.While)):
            self.dim(st.test, fr)
            self.block(st.body, fr)
            self.block(st.orelse, fr)
        elif isinstance(st, ast.For):
            self.bind(st.target, self.dim(st.iter, fr), fr)
            self.block(st.body, fr)
            self.block(st.orelse, fr)
        elif isinstance(st, (ast.With, ast.AsyncWith)):
            self.block(st.body, fr)
        elif isinstance(st, ast.Try):
            self.block(st.body, fr)
            for h in st.handlers:
                self.block(h.body, fr)
            self.block(st.orelse, fr)
            self.block(st.finalbody, fr)
        elif isinstance(st, (ast.Assert,)):
            self.dim(st.test, fr)

    def bind(self, t, d, fr):
        env = fr["env"]
        if isinstance(t, ast.Name):
            env[t.id] = _join(env.get(t.id), d) if fr["record"] is False and t.id in env and env[t.id] is None else d
        elif isinstance(t, (ast.Tuple, ast.List)):
            for i, e in enumerate(t.elts):
                self.bind(e, d[i] if isinstance(d, tuple) and len(d) == len(t.elts) else (d if not isinstance(d, tuple) else None), fr)
        elif isinstance(t, ast.Subscript) and isinstance(t.value, ast.Name):
            cur = env.get(t.value.id)
            if not isinstance(cur, tuple) and not isinstance(d, tuple):
                env[t.value.id] = _join(cur, d)

    # ---- expressions
    def dim(self, e, fr):
        env = fr["env"]
        if isinstance(e, ast.Constant):
            return LIT if isinstance(e.value, (int, float)) and not isinstance(e.value, bool) else None
        if isinstance(e, ast.Name):
            return env.get(e.id)
        if isinstance(e, (ast.Tuple, ast.List)):
            ds = tuple(self.dim(x, fr) for x in e.elts)
            return ds if isinstance(e, ast.Tuple) else _joinall(ds)
        if isinstance(e, ast.Attribute):
            if e.attr in ("T", "real", "flat"):
                return self.dim(e.value, fr)
            if e.attr in ("shape", "size", "ndim", "dtype"):
                return Fraction(0)
            b = self.dim(e.value, fr)
            # geometric attributes of an object that scales with the model scale the same way
            if isinstance(b, Fraction) and e.attr in _GEOM_ATTRS:
                return b
            return None
        if isinstance(e, ast.Subscript):
            b = self.dim(e.value, fr)
            self.dim(e.slice, fr) if isinstance(e.slice, ast.expr) and not isinstance(e.slice, ast.Slice) else None
            if isinstance(b, tuple):
                if isinstance(e.slice, ast.Constant) and isinstance(e.slice.value, int) and -len(b) <= e.slice.value < len(b):
                    return b[e.slice.value]
                return _joinall(b)
            return b
        if isinstance(e, ast.BinOp):
            return self.binop(e.op, self.dim(e.left, fr), self.dim(e.right, fr), e.right)
        if isinstance(e, ast.UnaryOp):
            d = self.dim(e.operand, fr)
            return Fraction(0) if isinstance(e.op, ast.Not) else d
        if isinstance(e, ast.Compare):
            ds = [self.dim(e.left, fr)] + [self.dim(c, fr) for c in e.comparators]
            if fr["record"] and len(e.ops) == 1 and isinstance(e.ops[0], (ast.Lt, ast.LtE, ast.Gt, ast.GtE)):
                self.compares.append((fr["fi"], e, ds[0], ds[1], _literal(e.left), _literal(e.comparators[0])))
            return Fraction(0)
        if isinstance(e, ast.BoolOp):
            for v in e.values:
                self.dim(v, fr)
            return Fraction(0)
        if isinstance(e, ast.IfExp):
            self.dim(e.test, fr)
            return _join(self.dim(e.body, fr), self.dim(e.orelse, fr))
        if isinstance(e, ast.Call):
            return self.call(e, fr)
        if isinstance(e, (ast.ListComp, ast.GeneratorExp, ast.SetComp)):
            saved = dict(env)
            for g in e.generators:
                self.bind(g.target, self.dim(g.iter, fr), fr)
                for c in g.ifs:
                    self.dim(c, fr)
            d = self.dim(e.elt, fr)
            env.clear()
            env.update(saved)
            return d
        if isinstance(e, ast.Starred):
            return self.dim(e.value, fr)
        return None

    def binop(self, op, a, b, right_node):
        if isinstance(a, tuple) or isinstance(b, tuple):
            return None
        if isinstance(op, (ast.Add, ast.Sub)):
            return _join(a, b)
        na, nb = _num(a), _num(b)
        if isinstance(op, (ast.Mult, ast.MatMult)):
            if a == LIT and b == LIT:
                return LIT
            return na + nb if na is not None and nb is not None else None
        if isinstance(op, (ast.Div, ast.FloorDiv)):
            if a == LIT and b == LIT:
                return LIT
            return na - nb if na is not None and nb is not None else None
        if isinstance(op, ast.Pow):
            k = _literal(right_node)
            if a == LIT:
                return LIT
            if na is not None and k is not None:
                return na * Fraction(k).limit_denominator(64)
            return None
        if isinstance(op, ast.Mod):
            return a
        return None

    def call(self, e, fr):
        f = e.func
        args = [self.dim(a, fr) for a in e.args]
        kws = {k.arg: self.dim(k.value, fr) for k in e.keywords if k.arg}
        if isinstance(f, ast.Attribute):
            # method of a value
            name = self._dotted(f, fr)
            if name is None or not name.startswith(("numpy.", "scipy.", "trimesh.")):
                base = self.dim(f.value, fr)
                if f.attr in _SAME_METHODS:
                    if f.attr == "dot" and args:
                        na, nb = _num(base), _num(args[0])
                        return na + nb if na is not None and nb is not None else None
                    return base
                if f.attr in _ZERO_METHODS:
                    return Fraction(0)
                if name is None:
                    return None
        name = self._dotted(f, fr)
        if name is None:
            return None
        if name in ("numpy.sqrt",):
            n = _num(args[0]) if args else None
            return n / 2 if n is not None else None
        if name in ("numpy.dot", "numpy.cross", "numpy.multiply", "numpy.outer", "numpy.matmul", "numpy.inner"):
            na, nb = (_num(args[0]), _num(args[1])) if len(args) >= 2 else (None, None)
            return na + nb if na is not None and nb is not None else None
        if name in ("numpy.divide", "numpy.true_divide"):
            na, nb = (_num(args[0]), _num(args[1])) if len(args) >= 2 else (None, None)
            return na - nb if na is not None and nb is not None else None
        if name in ("numpy.square",):
            n = _num(args[0]) if args else None
            return n * 2 if n is not None else None
        if name in ("numpy.power",) and len(e.args) >= 2:
            return self.binop(ast.Pow(), args[0], args[1], e.args[1])
        if name in _SAME_FUNCS:
            ds = [a for a in args if not isinstance(a, tuple)]
            if args and isinstance(args[0], tuple):
                return _joinall(args[0])
            return _joinall(ds) if ds else None
        if name in _ZERO_FUNCS:
            return Fraction(0)
        if name.split(".")[-1][:1].isupper() and not name.startswith("trimesh.") and args and isinstance(args[0], Fraction):
            return args[0]  # an object built from points (ConvexHull, Voronoi, cKDTree): its coordinates scale like them
        target = self.ix.resolve_dotted(name) if name.startswith("trimesh.") else None
        if isinstance(target, FuncInfo) and target.cls is None:
            a = target.node.args
            names = [x.arg for x in a.posonlyargs + a.args]
            bound = dict(zip(names, args))
            bound.update({k: v for k, v in kws.items() if k in names})
            return self.analyse(target, bound, fr["depth"] + 1)
        return None

    def _dotted(self, f, fr):
        parts = []
        x = f
        while isinstance(x, ast.Attribute):
            parts.append(x.attr)
            x = x.value
        if not isinstance(x, ast.Name) or x.id in fr["env"]:
            return None
        m = fr["fi"].module
        r = self.ix.resolve_name(m, x.id)
        if r is None:
            if x.id in ("float", "abs", "max", "min", "sum", "len", "range", "int", "bool"):
                return x.id if not parts else None
            return None
        base = r if isinstance(r, str) else (getattr(r, "name", None) if not isinstance(r, FuncInfo) else f"{r.module.name}.{r.name}")
        if isinstance(r, FuncInfo):
            return base if not parts else None
        if hasattr(r, "name") and not isinstance(r, str) and hasattr(r, "functions"):
            base = r.name  # a module
        if base is None:
            return None
        return ".".join([base] + list(reversed(parts)))


def _joinall(ds):
    out = None
    for d in ds:
        out = d if out is None else _join(out, d)
    return out


def _literal(node):
    if isinstance(node, ast.Constant) and isinstance(node.value, (int, float)) and not isinstance(node.value, bool):
        return node.value
    if isinstance(node, ast.UnaryOp) and isinstance(node.op, ast.USub) and isinstance(node.operand, ast.Constant) \
            and isinstance(node.operand.value, (int, float)) and not isinstance(node.operand.value, bool):
        return -node.operand.value
    return None


def _load(t):
    import copy

    t2 = copy.deepcopy(t)
    for x in ast.walk(t2):
        if hasattr(x, "ctx"):
            x.ctx = ast.Load()
    return t2
