"""Path summaries: every entry -> exit path of a function as (conditions, statements).

Rules about "under which condition is X done" should not depend on whether the code says
`if c: A else: B`, `if not c: B else: A`, `if not c: return B` followed by A, or nests the tests
differently.  A path summary lists, for one path,

    conds : frozenset of (atom text, polarity)   - the branch decisions taken, with the test text
            normalised: `not x` flips the polarity, `a != b` is `a == b` with flipped polarity,
            `a not in b` is `a in b` flipped, `x is not None` is `x is None` flipped, `and` on the
            taken-true side / `or` on the taken-false side are split into their conjuncts;
    stmts : the simple statements executed, in order (ast nodes);
    exit  : 'return' / 'raise' / 'fall' and the Return / Raise node if any.

Loops are taken zero times or once.  Expressions inside conditions can be canonicalised by the caller
(pass `canon=`) so that local names do not matter.
"""
from __future__ import annotations

import ast


def _atoms(test, polarity, canon, origin=None):
    """decompose a test taken with `polarity` into normalised (text, polarity) atoms.
    `canon(expr, origin)` gets the (possibly rebuilt) expression and the original test node it came from,
    so that a provenance-based canonicaliser can find the statement it belongs to."""
    origin = origin if origin is not None else test
    if isinstance(test, ast.UnaryOp) and isinstance(test.op, ast.Not):
        return _atoms(test.operand, not polarity, canon, origin)
    if isinstance(test, ast.BoolOp):
        if isinstance(test.op, ast.And) and polarity:
            return [a for v in test.values for a in _atoms(v, True, canon, origin)]
        if isinstance(test.op, ast.Or) and not polarity:
            return [a for v in test.values for a in _atoms(v, False, canon, origin)]
        return [(canon(test, origin), polarity)]
    if isinstance(test, ast.Compare) and len(test.ops) == 1:
        op = test.ops[0]
        flip = {ast.NotEq: ast.Eq, ast.NotIn: ast.In, ast.IsNot: ast.Is}
        if type(op) in flip:
            t2 = ast.Compare(left=test.left, ops=[flip[type(op)]()], comparators=test.comparators)
            return [(canon(ast.copy_location(t2, test), origin), not polarity)]
    return [(canon(test, origin), polarity)]


class PathSummary:
    __slots__ = ("conds", "stmts", "exit", "exit_node")

    def __init__(self, conds, stmts, exit, exit_node):
        self.conds = frozenset(conds)
        self.stmts = stmts
        self.exit = exit
        self.exit_node = exit_node

    def holds(self, text):
        """True / False when the atom was decided on this path, None when it was not tested"""
        for t, p in self.conds:
            if t == text:
                return p
        return None

    def has_stmt(self, pred):
        return any(pred(s) for s in self.stmts)


def summaries(fnode, canon=None, limit=2000):
    canon = canon or (lambda e, origin=None: ast.unparse(e))
    out = []

    def run(body, conds, stmts, k):
        """k(conds, stmts) continues after the body"""
        if len(out) > limit:
            return
        if not body:
            k(conds, stmts)
            return
        st, rest = body[0], body[1:]
        if isinstance(st, (ast.FunctionDef, ast.AsyncFunctionDef, ast.ClassDef)):
            run(rest, conds, stmts, k)
        elif isinstance(st, ast.If):
            for pol, blk in ((True, st.body), (False, st.orelse)):
                try:
                    at = _atoms(st.test, pol, canon)
                except Exception:
                    at = [(ast.unparse(st.test), pol)]
                # contradictory with what is already known on this path: infeasible
                if any((t, not p) in conds for t, p in at):
                    continue
                run(list(blk), conds + at, stmts, lambda c, s: run(rest, c, s, k))
        elif isinstance(st, (ast.For, ast.AsyncFor, ast.While)):
            # zero iterations, or one iteration
            run(list(st.orelse), conds, stmts + [st], lambda c, s: run(rest, c, s, k))
            run(list(st.body), conds, stmts + [st], lambda c, s: run(list(st.orelse), c, s, lambda c2, s2: run(rest, c2, s2, k)))
        elif isinstance(st, (ast.With, ast.AsyncWith)):
            run(list(st.body), conds, stmts + [st], lambda c, s: run(rest, c, s, k))
        elif isinstance(st, ast.Try):
            after = lambda c, s: run(list(st.finalbody), c, s, lambda c2, s2: run(rest, c2, s2, k))  # noqa
            run(list(st.body), conds, stmts, lambda c, s: run(list(st.orelse), c, s, after))
            for h in st.handlers:
                run(list(h.body), conds, stmts, after)
        elif isinstance(st, ast.Return):
            out.append(PathSummary(conds, stmts + [st], "return", st))
        elif isinstance(st, ast.Raise):
            out.append(PathSummary(conds, stmts + [st], "raise", st))
        elif isinstance(st, (ast.Break, ast.Continue)):
            k(conds, stmts + [st])
        else:
            run(rest, conds, stmts + [st], k)

    run(list(fnode.body), [], [], lambda c, s: out.append(PathSummary(c, s, "fall", None)))
    return out
