"""E0 - program index over /repo/trimesh: modules, imports, classes (MRO),
members classified (method / property getter / setter / cache_decorator), functions
(nested too), module-level constants.  Pure `ast`; nothing is imported or run.
"""
from __future__ import annotations

import ast
import os

from .report import AnalysisError

PKG = "trimesh"


class FuncInfo:
    __slots__ = (
        "name", "qualname", "node", "module", "cls", "parent", "kind", "params",
        "decorators", "nested",
    )

    def __init__(self, name, qualname, node, module, cls=None, parent=None):
        self.name = name
        self.qualname = qualname
        self.node = node
        self.module = module
        self.cls = cls
        self.parent = parent
        self.kind = "function"
        self.decorators = []
        self.nested = {}
        a = node.args
        self.params = [x.arg for x in a.posonlyargs + a.args]
        if a.vararg:
            self.params.append("*" + a.vararg.arg)
        self.params += [x.arg for x in a.kwonlyargs]
        if a.kwarg:
            self.params.append("**" + a.kwarg.arg)

    @property
    def where(self):
        return f"{self.module.rel}:{self.node.lineno} {self.qualname}"

    def __repr__(self):
        return f"<Func {self.module.name}:{self.qualname} {self.kind}>"


class ClassInfo:
    def __init__(self, name, node, module):
        self.name = name
        self.node = node
        self.module = module
        self.base_exprs = node.bases
        self.bases = []  # resolved ClassInfo
        self.ext_bases = []  # dotted names of unresolved bases
        self.mro = [self]
        self.getters = {}
        self.setters = {}
        self.methods = {}
        self.attrs = {}  # class-level assignments name -> value node
        self.subclasses = []

    @property
    def dotted(self):
        return f"{self.module.name}.{self.name}"

    @property
    def where(self):
        return f"{self.module.rel}:{self.node.lineno} {self.name}"

    def __repr__(self):
        return f"<Class {self.dotted}>"


# signatures of the repository's own functions, filled by Index._normalise_calls, used to spell rule templates the same
# way as the normalised source (sa/template.py)
SIG_DOTTED = {}
SIG_LAST = {}
_EXTERNAL_ROOTS = {"numpy", "np", "scipy", "sp", "math", "collections", "copy", "json", "os", "struct", "itertools", "nx",
                   "networkx", "shapely", "sympy", "PIL", "lxml", "re", "base64", "hashlib", "zlib", "io"}


def move_keywords(call, params):
    """in place: keywords that name the next positional parameter become positional; True when something moved"""
    if any(isinstance(x, ast.Starred) for x in call.args) or any(k.arg is None for k in call.keywords):
        return False
    moved = False
    while len(call.args) < len(params):
        nxt = params[len(call.args)]
        k = next((k for k in call.keywords if k.arg == nxt), None)
        if k is None:
            break
        call.keywords.remove(k)
        call.args.append(k.value)
        moved = True
    return moved


def normalise_template_calls(tree):
    """the same spelling for calls of repository functions inside a rule template (dotted or alias form)"""
    for n in ast.walk(tree):
        if not isinstance(n, ast.Call) or not n.keywords:
            continue
        f = n.func
        parts = []
        while isinstance(f, ast.Attribute):
            parts.append(f.attr)
            f = f.value
        if not isinstance(f, ast.Name):
            continue
        parts.append(f.id)
        parts.reverse()
        if parts[0] in _EXTERNAL_ROOTS:
            continue
        sig = SIG_DOTTED.get(".".join(parts))
        if sig is None:
            sig = SIG_LAST.get(("method" if parts[0] in ("self", "P_self", "cls") and len(parts) == 2 else "function", parts[-1]))
        if sig:
            move_keywords(n, sig)
    return tree


class _Idioms(ast.NodeTransformer):
    """One spelling for numpy idioms that mean the same for every argument (applied to every module as it is loaded, so no
    rule sees the other spelling; positions are kept):
        x.reshape(a, b, ...)    ->  x.reshape((a, b, ...))      the shape as one tuple
        x[:, ::-1]              ->  np.fliplr(x)                 (both need ndim >= 2, both return the reversed-column view)
        len(x.shape)            ->  x.ndim
    Spellings that agree only for some ranks or types (vstack / concatenate, dot / @, flatnonzero / nonzero()[0]) are not
    touched; rules that care list the alternatives."""

    def visit_Call(self, node):
        self.generic_visit(node)
        f = node.func
        if isinstance(f, ast.Attribute) and f.attr == "reshape" and len(node.args) >= 2 and not node.keywords \
                and not any(isinstance(a, ast.Starred) for a in node.args):
            tup = ast.copy_location(ast.Tuple(elts=list(node.args), ctx=ast.Load()), node.args[0])
            tup.end_lineno, tup.end_col_offset = getattr(node.args[-1], "end_lineno", None), getattr(node.args[-1], "end_col_offset", None)
            node.args = [tup]
        if isinstance(f, ast.Name) and f.id == "len" and len(node.args) == 1 and not node.keywords and isinstance(node.args[0], ast.Attribute) \
                and node.args[0].attr == "shape":
            return ast.copy_location(ast.Attribute(value=node.args[0].value, attr="ndim", ctx=ast.Load()), node)
        return node

    def visit_FunctionDef(self, node):
        # an annotated assignment of a LOCAL (`x: NDArray = f(y)`) is the plain assignment `x = f(y)` for every analysis here: the
        # annotation of a local is never evaluated.  Class bodies (dataclass / NamedTuple fields) and module level are left alone.
        self.generic_visit(node)

        class _Ann(ast.NodeTransformer):
            def visit_FunctionDef(self, n):  # nested functions are visited by the outer transformer on their own
                return n

            visit_AsyncFunctionDef = visit_FunctionDef

            def visit_ClassDef(self, n):
                return n

            def visit_AnnAssign(self, n):
                if n.value is not None and isinstance(n.target, (ast.Name, ast.Attribute, ast.Subscript)):
                    return ast.copy_location(ast.Assign(targets=[n.target], value=n.value, type_comment=None), n)
                return n

        node.body = [_Ann().visit(st) if not isinstance(st, (ast.FunctionDef, ast.AsyncFunctionDef, ast.ClassDef)) else st for st in node.body]
        return node

    visit_AsyncFunctionDef = visit_FunctionDef

    def visit_Subscript(self, node):
        self.generic_visit(node)
        sl = node.slice
        if isinstance(node.ctx, ast.Load) and isinstance(sl, ast.Tuple) and len(sl.elts) == 2 and all(isinstance(e, ast.Slice) for e in sl.elts):
            a, b = sl.elts
            if a.lower is None and a.upper is None and a.step is None and b.lower is None and b.upper is None \
                    and isinstance(b.step, ast.UnaryOp) and isinstance(b.step.op, ast.USub) and isinstance(b.step.operand, ast.Constant) and b.step.operand.value == 1:
                fn = ast.copy_location(ast.Attribute(value=ast.copy_location(ast.Name(id="np", ctx=ast.Load()), node), attr="fliplr", ctx=ast.Load()), node)
                return ast.copy_location(ast.Call(func=fn, args=[node.value], keywords=[]), node)
        return node


class Module:
    def __init__(self, name, path, rel, src):
        self.name = name
        self.path = path
        self.rel = rel
        self.src = src
        self.lines = src.splitlines()
        self.tree = _Idioms().visit(ast.parse(src, filename=path))
        self.imports = {}  # local alias -> dotted target
        self.functions = {}
        self.classes = {}
        self.constants = {}  # name -> list of value nodes (all module-level assignments)
        self.is_pkg = os.path.basename(path) == "__init__.py"

    def segment(self, node):
        return ast.get_source_segment(self.src, node) or ""

    def __repr__(self):
        return f"<Module {self.name}>"


def _dec_name(d):
    """dotted text of a decorator expression"""
    if isinstance(d, ast.Call):
        d = d.func
    parts = []
    while isinstance(d, ast.Attribute):
        parts.append(d.attr)
        d = d.value
    if isinstance(d, ast.Name):
        parts.append(d.id)
    return ".".join(reversed(parts))


class Index:
    def __init__(self, repo="/repo", min_modules=100):
        self.repo = os.path.abspath(repo)
        self.root = os.path.join(self.repo, PKG)
        self.modules = {}
        self.classes_by_name = {}
        self.all_functions = []
        if not os.path.isdir(self.root):
            raise AnalysisError(f"package directory not found: {self.root}")
        for dp, dn, fn in os.walk(self.root):
            dn[:] = sorted(d for d in dn if d != "__pycache__")
            for f in sorted(fn):
                if not f.endswith(".py"):
                    continue
                path = os.path.join(dp, f)
                rel = os.path.relpath(path, self.repo)
                parts = rel[:-3].split(os.sep)
                if parts[-1] == "__init__":
                    parts = parts[:-1]
                name = ".".join(parts)
                try:
                    with open(path, encoding="utf-8") as fh:
                        src = fh.read()
                    self.modules[name] = Module(name, path, rel, src)
                except SyntaxError as e:
                    raise AnalysisError(f"cannot parse {rel}: {e}")
        if len(self.modules) < min_modules:
            raise AnalysisError(
                f"only {len(self.modules)} modules parsed under {self.root}; expected >= {min_modules}"
            )
        for m in self.modules.values():
            self._scan_module(m)
        self._link_classes()
        self.calls_normalised = 0
        if not os.environ.get("VERIF_NO_CALLNORM"):
            self._normalise_calls()

    # ------------------------------------------------------------------
    def _abs_import(self, m, level, modname):
        if level == 0:
            return modname or ""
        base = m.name.split(".")
        if not m.is_pkg:
            base = base[:-1]
        if level > 1:
            base = base[: len(base) - (level - 1)]
        if modname:
            base = base + modname.split(".")
        return ".".join(base)

    def _scan_imports(self, m, body):
        for st in body:
            if isinstance(st, ast.Import):
                for a in st.names:
                    if a.asname:
                        m.imports[a.asname] = a.name
                    else:
                        m.imports[a.name.split(".")[0]] = a.name.split(".")[0]
            elif isinstance(st, ast.ImportFrom):
                base = self._abs_import(m, st.level, st.module)
                for a in st.names:
                    m.imports[a.asname or a.name] = f"{base}.{a.name}" if base else a.name
            elif isinstance(st, (ast.Try, ast.If, ast.With)):
                for blk in _blocks(st):
                    self._scan_imports(m, blk)

    def _scan_module(self, m):
        self._scan_imports(m, m.tree.body)
        self._scan_body(m, m.tree.body, None, None, "")

    def _scan_body(self, m, body, cls, parent, prefix):
        for st in body:
            if isinstance(st, (ast.FunctionDef, ast.AsyncFunctionDef)):
                qual = prefix + st.name
                fi = FuncInfo(st.name, qual, st, m, cls=cls, parent=parent)
                fi.decorators = [_dec_name(d) for d in st.decorator_list]
                self._classify(fi)
                self.all_functions.append(fi)
                if cls is not None and parent is None:
                    if fi.kind in ("property", "cached"):
                        cls.getters[st.name] = fi
                    elif fi.kind == "setter":
                        cls.setters[st.name] = fi
                    elif fi.kind == "deleter":
                        pass
                    else:
                        cls.methods[st.name] = fi
                elif parent is not None:
                    parent.nested[st.name] = fi
                else:
                    m.functions[st.name] = fi
                # nested defs (local imports too)
                self._scan_imports(m, [s for s in ast.walk(st) if isinstance(s, (ast.Import, ast.ImportFrom))])
                self._scan_body(m, st.body, cls, fi, qual + ".<locals>.")
            elif isinstance(st, ast.ClassDef):
                if parent is None and cls is None:
                    ci = ClassInfo(st.name, st, m)
                    m.classes[st.name] = ci
                    self.classes_by_name.setdefault(st.name, []).append(ci)
                    self._scan_body(m, st.body, ci, None, st.name + ".")
                else:
                    # nested class: index its methods as nested functions of no class
                    ci = ClassInfo(st.name, st, m)
                    self._scan_body(m, st.body, ci, parent, prefix + st.name + ".")
            elif isinstance(st, (ast.Assign, ast.AnnAssign, ast.AugAssign)):
                if parent is None:
                    tgts = st.targets if isinstance(st, ast.Assign) else [st.target]
                    for t in tgts:
                        if isinstance(t, ast.Name) and getattr(st, "value", None) is not None:
                            if cls is not None:
                                cls.attrs[t.id] = st.value
                            else:
                                m.constants.setdefault(t.id, []).append(st)
            elif isinstance(st, (ast.If, ast.Try, ast.With, ast.For, ast.While)):
                for blk in _blocks(st):
                    self._scan_body(m, blk, cls, parent, prefix)

    def _classify(self, fi):
        for d in fi.decorators:
            last = d.split(".")[-1]
            if d == "property" or last in ("abstractproperty", "cached_property"):
                fi.kind = "property"
            elif last == "cache_decorator":
                fi.kind = "cached"
            elif last == "setter" and len(d.split(".")) == 2:
                fi.kind = "setter"
            elif last == "deleter" and len(d.split(".")) == 2:
                fi.kind = "deleter"
            elif d == "staticmethod":
                fi.kind = "staticmethod"
            elif d == "classmethod":
                fi.kind = "classmethod"
        if fi.kind == "function" and fi.cls is not None and fi.parent is None:
            fi.kind = "method"

    # ------------------------------------------------------------------
    def resolve_dotted(self, dotted, _depth=0):
        """dotted name -> Module | ClassInfo | FuncInfo | ('const', module, name) | None"""
        if not dotted or _depth > 8:
            return None
        if dotted in self.modules:
            return self.modules[dotted]
        if "." not in dotted:
            return None
        head, tail = dotted.rsplit(".", 1)
        owner = self.resolve_dotted(head, _depth + 1)
        if isinstance(owner, Module):
            if tail in owner.classes:
                return owner.classes[tail]
            if tail in owner.functions:
                return owner.functions[tail]
            if tail in owner.imports:
                return self.resolve_dotted(owner.imports[tail], _depth + 1)
            if tail in owner.constants:
                return ("const", owner, tail)
            sub = f"{owner.name}.{tail}"
            if sub in self.modules:
                return self.modules[sub]
        elif isinstance(owner, ClassInfo):
            mem = self.member(owner, tail)
            if mem:
                return mem.get("method") or mem.get("getter")
        return None

    def resolve_name(self, module, name):
        """a bare name used in `module` -> entity or dotted string for externals"""
        if name in module.classes:
            return module.classes[name]
        if name in module.functions:
            return module.functions[name]
        if name in module.imports:
            d = module.imports[name]
            r = self.resolve_dotted(d)
            return r if r is not None else d
        if name in module.constants:
            return ("const", module, name)
        return None

    def resolve_expr(self, module, expr):
        """Name / dotted Attribute chain -> entity or external dotted string or None"""
        parts = []
        e = expr
        while isinstance(e, ast.Attribute):
            parts.append(e.attr)
            e = e.value
        if not isinstance(e, ast.Name):
            return None
        r = self.resolve_name(module, e.id)
        for p in reversed(parts):
            if r is None:
                return None
            if isinstance(r, str):
                r = f"{r}.{p}"
            elif isinstance(r, Module):
                r2 = self.resolve_dotted(f"{r.name}.{p}")
                r = r2
            elif isinstance(r, ClassInfo):
                mem = self.member(r, p)
                r = (mem.get("method") or mem.get("getter")) if mem else None
            else:
                return None
        return r

    def _normalise_calls(self):
        """One spelling for calls of this repository's own functions: a keyword argument that names the next positional
        parameter is moved to that position (`f(points=p, matrix=m)`, `f(p, matrix=m)` and `f(p, m)` all become
        `f(p, m)`); what cannot be moved stays a keyword.  Only calls whose callee is resolved to one definition are
        touched (module-level functions by name or module alias, `self.method` with a single definition in the
        hierarchy); callees with decorators that may change the signature are left alone.  The rewrite is in place, on
        the parsed tree, before any rule looks at it."""
        def callee_params(fi, bound):
            n = fi.node
            if any(_dec_name(d) not in ("staticmethod", "classmethod") for d in n.decorator_list):
                return None
            ps = [a.arg for a in n.args.posonlyargs + n.args.args]
            if bound and fi.kind in ("method", "classmethod"):
                ps = ps[1:]
            elif bound and fi.kind != "staticmethod":
                return None
            return ps

        def visit(node, module, cls, selfname, shadow):
            if isinstance(node, (ast.FunctionDef, ast.AsyncFunctionDef, ast.Lambda)):
                a = node.args
                local = {x.arg for x in a.posonlyargs + a.args + a.kwonlyargs}
                if a.vararg:
                    local.add(a.vararg.arg)
                if a.kwarg:
                    local.add(a.kwarg.arg)
                body = node.body if isinstance(node.body, list) else [node.body]
                for st in body:
                    for x in ast.walk(st):
                        if isinstance(x, ast.Name) and isinstance(x.ctx, ast.Store):
                            local.add(x.id)
                        elif isinstance(x, (ast.Import, ast.ImportFrom)):
                            local.update((al.asname or al.name).split(".")[0] for al in x.names)
                if not isinstance(node, ast.Lambda) and getattr(node, "_verif_method", False):
                    first = (a.posonlyargs + a.args)[0].arg if (a.posonlyargs + a.args) else None
                    is_static = any(_dec_name(d) == "staticmethod" for d in node.decorator_list)
                    selfname = first if (cls is not None and not is_static) else None
                elif selfname in local:
                    selfname = None  # a closure keeps the method's receiver unless it rebinds the name
                shadow = shadow | local
            elif isinstance(node, ast.ClassDef):
                c = module.classes.get(node.name) if cls is None else None
                for st in node.body:
                    if isinstance(st, (ast.FunctionDef, ast.AsyncFunctionDef)):
                        st._verif_method = True
                    visit(st, module, c, None, shadow)
                return
            for ch in ast.iter_child_nodes(node):
                visit(ch, module, cls, selfname, shadow)
            if not isinstance(node, ast.Call) or not node.keywords:
                return
            if any(isinstance(x, ast.Starred) for x in node.args) or any(k.arg is None for k in node.keywords):
                return
            f = node.func
            target, bound = None, False
            if isinstance(f, ast.Name):
                if f.id in shadow:
                    return
                r = self.resolve_name(module, f.id)
                if isinstance(r, FuncInfo) and r.cls is None and r.parent is None:
                    target = r
            elif isinstance(f, ast.Attribute):
                root = f
                while isinstance(root, ast.Attribute):
                    root = root.value
                if not isinstance(root, ast.Name):
                    return
                if isinstance(f.value, ast.Name) and f.value.id == selfname and cls is not None:
                    mem = self.member(cls, f.attr)
                    r = mem.get("method") if mem else None
                    if isinstance(r, FuncInfo) and not mem.get("getter") and not mem.get("attr"):
                        others = [c for c in self.all_subclasses(cls) + list(cls.mro) if c is not mem["owner"] and
                                  (f.attr in c.methods or f.attr in c.attrs or f.attr in c.getters)]
                        if not others:
                            target, bound = r, True
                elif root.id not in shadow:
                    r = self.resolve_expr(module, f)
                    if isinstance(r, FuncInfo) and r.cls is None and r.parent is None:
                        target = r
            if target is None:
                return
            ps = callee_params(target, bound)
            if ps is None:
                return
            if move_keywords(node, ps):
                self.calls_normalised += 1

        # signature tables for templates: by dotted name, and by bare name where every definition of that name agrees
        SIG_DOTTED.clear()
        SIG_LAST.clear()
        by_last = {}
        for fi in self.all_functions:
            if fi.parent is not None:
                continue
            ps = callee_params(fi, fi.cls is not None)
            if fi.cls is None:
                if ps is not None:
                    SIG_DOTTED[f"{fi.module.name}.{fi.name}"] = ps
                by_last.setdefault(("function", fi.name), []).append(ps)
            elif fi.kind in ("method", "classmethod", "staticmethod"):
                by_last.setdefault(("method", fi.name), []).append(ps)
        for k, sigs in by_last.items():
            if all(x is not None and x == sigs[0] for x in sigs):
                SIG_LAST[k] = sigs[0]
        for m in self.modules.values():
            visit(m.tree, m, None, None, frozenset())

    def _link_classes(self):
        for m in self.modules.values():
            for c in m.classes.values():
                for b in c.base_exprs:
                    r = self.resolve_expr(m, b)
                    if isinstance(r, ClassInfo):
                        c.bases.append(r)
                        r.subclasses.append(c)
                    else:
                        c.ext_bases.append(r if isinstance(r, str) else ast.unparse(b))
        for m in self.modules.values():
            for c in m.classes.values():
                c.mro = self._mro(c)

    def _mro(self, c, _seen=()):
        if c in _seen:
            return [c]
        seqs = [self._mro(b, _seen + (c,)) for b in c.bases] + [list(c.bases)]
        out = [c]
        seqs = [list(s) for s in seqs if s]
        while seqs:
            for s in seqs:
                h = s[0]
                if not any(h in t[1:] for t in seqs):
                    break
            else:
                h = seqs[0][0]  # inconsistent hierarchy: fall back
            out.append(h)
            seqs = [[x for x in s if x is not h] for s in seqs]
            seqs = [s for s in seqs if s]
        return out

    def member(self, cls, name):
        """resolve attribute `name` on class through the MRO (first class that
        defines it in any role wins, as in Python).
        returns dict(getter=FuncInfo?, setter=FuncInfo?, method=FuncInfo?, attr=node?, owner=ClassInfo)"""
        for k in cls.mro:
            if name in k.getters or name in k.methods or name in k.attrs or name in k.setters:
                out = {"owner": k}
                if name in k.getters:
                    out["getter"] = k.getters[name]
                if name in k.setters:
                    out["setter"] = k.setters[name]
                if name in k.methods:
                    out["method"] = k.methods[name]
                if name in k.attrs:
                    out["attr"] = k.attrs[name]
                return out
        return {}

    def all_subclasses(self, cls):
        out, todo = [], [cls]
        while todo:
            c = todo.pop()
            for s in c.subclasses:
                if s not in out:
                    out.append(s)
                    todo.append(s)
        return out

    def cls(self, dotted_or_name):
        r = self.resolve_dotted(dotted_or_name) if "." in dotted_or_name else None
        if isinstance(r, ClassInfo):
            return r
        c = self.classes_by_name.get(dotted_or_name.split(".")[-1], [])
        if len(c) == 1:
            return c[0]
        if not c:
            raise AnalysisError(f"class not found: {dotted_or_name}")
        raise AnalysisError(f"ambiguous class name: {dotted_or_name}: {c}")

    def func(self, spec):
        """'trimesh.base:Trimesh.apply_transform' or 'trimesh.grouping:hashable_rows'
        -> FuncInfo (AnalysisError if the anchor vanished)"""
        mod, _, qual = spec.partition(":")
        m = self.modules.get(mod)
        if m is None:
            raise AnalysisError(f"anchor module vanished: {mod}")
        parts = qual.split(".")
        if len(parts) == 1:
            f = m.functions.get(parts[0])
        else:
            c = m.classes.get(parts[0])
            f = None
            if c is not None:
                kind = None
                name = parts[1]
                if name.endswith("@setter"):
                    f = c.setters.get(name[:-7])
                else:
                    f = c.methods.get(name) or c.getters.get(name)
                for p in parts[2:]:
                    f = self._nested(f, p) if f else None
            else:
                f = m.functions.get(parts[0])
                for p in parts[1:]:
                    f = self._nested(f, p) if f else None
        if f is None:
            raise AnalysisError(f"anchor function vanished: {spec}")
        return f

    def inlined(self, fi):
        """a copy of the function with the private helpers it calls expanded in place (sa/normalize.py:Inliner, the same
        behaviour-preserving rewrite the inline view applies to the whole tree): rules that relate values inside one
        function use it so that `a, b = _helper(x)` is seen as the statements of the helper.  Cached per function; the
        function itself and the index are not modified."""
        import copy

        cache = self.__dict__.setdefault("_inlined", {})
        if id(fi) in cache:
            return cache[id(fi)]
        from . import normalize

        f2 = copy.copy(fi)
        f2.node = copy.deepcopy(fi.node)
        try:
            inl = normalize.Inliner(self, max_stmts=250)
            f2.node.body = inl.expand_block(f2, normalize._all_names(f2.node), f2.node.body)
            if inl.count:
                normalize.propagate_renames(f2.node)
            ast.fix_missing_locations(f2.node)
            self.__dict__.setdefault("_inlined_helpers", {})[id(f2)] = sorted(t.qualname for t in inl.inlined)
        except Exception:  # noqa - an expansion that fails leaves the function as written
            f2 = fi
        cache[id(fi)] = f2
        return f2

    def call_arg(self, call, name, dotted):
        """the argument expression bound to parameter `name` in a call of the repository function `dotted`
        (positional or keyword), or None"""
        for k in call.keywords:
            if k.arg == name:
                return k.value
        sig = SIG_DOTTED.get(dotted) or []
        if name in sig and sig.index(name) < len(call.args) and not any(isinstance(a, ast.Starred) for a in call.args):
            return call.args[sig.index(name)]
        return None

    def call_args(self, call, dotted):
        """{parameter: argument expression} for a call of the repository function `dotted` (positional and keyword)"""
        out = {k.arg: k.value for k in call.keywords if k.arg}
        sig = SIG_DOTTED.get(dotted) or []
        if not any(isinstance(a, ast.Starred) for a in call.args):
            for p, a in zip(sig, call.args):
                out.setdefault(p, a)
        return out

    def record_class(self, module, expr):
        """(ClassInfo, [(field, default)]) when `expr` (a Name / dotted Attribute used in `module`) names a NamedTuple class
        of this repository - methods allowed (sa/normalize.py:Sroa looks at them itself) - else None"""
        r = self.resolve_expr(module, expr) if not isinstance(expr, str) else self.resolve_dotted(expr)
        if not isinstance(r, ClassInfo) or not any(str(b).split(".")[-1] == "NamedTuple" for b in r.ext_bases):
            return None
        fields = [(st.target.id, st.value) for st in r.node.body if isinstance(st, ast.AnnAssign) and isinstance(st.target, ast.Name)]
        return (r, fields) if fields else None

    def record_fields(self, dotted):
        """[(field, default expr or None)] in declaration order when `dotted` names a typing.NamedTuple class or a
        collections.namedtuple of this repository, else None.  A record built and projected in one expression
        (`K(a=x, b=y).a`) is the same value as `x`; sa/provenance.py and sa/dag.py use this to see through it."""
        modname, _, name = dotted.rpartition(".")
        m = self.modules.get(modname)
        if m is None:
            return None
        c = m.classes.get(name)
        if c is not None:
            if not any(str(b).split(".")[-1] == "NamedTuple" for b in c.ext_bases):
                return None
            out = []
            for st in c.node.body:
                if isinstance(st, ast.AnnAssign) and isinstance(st.target, ast.Name):
                    out.append((st.target.id, st.value))
                elif isinstance(st, (ast.FunctionDef, ast.Assign)):
                    return None  # methods / class attributes: not a plain record
            return out or None
        cs = m.constants.get(name) if hasattr(m, "constants") else None
        if cs and len(cs) == 1 and isinstance(cs[0].value, ast.Call) and ast.unparse(cs[0].value.func).split(".")[-1] == "namedtuple":
            a = cs[0].value.args
            if len(a) >= 2 and not cs[0].value.keywords:
                try:
                    spec = ast.literal_eval(a[1])
                except (ValueError, SyntaxError):
                    return None
                names = spec.replace(",", " ").split() if isinstance(spec, str) else list(spec)
                return [(n, None) for n in names]
        return None

    def record_project(self, call, attr_or_index):
        """the argument expression that `K(...).attr` / `K(...)[i]` denotes, or None (K a record of this repository,
        callee already resolved to its dotted name)"""
        if not isinstance(call, ast.Call) or not isinstance(call.func, (ast.Name, ast.Attribute)):
            return None
        fields = self.record_fields(ast.unparse(call.func))
        if not fields or any(isinstance(a, ast.Starred) for a in call.args) or any(k.arg is None for k in call.keywords):
            return None
        names = [n for n, _ in fields]
        bound = dict(zip(names, call.args))
        for k in call.keywords:
            bound[k.arg] = k.value
        for n, d in fields:
            if n not in bound and d is not None:
                bound[n] = d
        if isinstance(attr_or_index, int):
            if not -len(names) <= attr_or_index < len(names):
                return None
            attr_or_index = names[attr_or_index]
        return bound.get(attr_or_index)

    def constant_def(self, module, name, _depth=0):
        """(defining module, last assignment statement) of a module-level constant as seen from `module`, following
        `from .other import name` (a constant that was moved to another module and imported back is the same constant)"""
        if name in module.constants:
            return module, module.constants[name][-1]
        d = module.imports.get(name)
        if d and _depth < 4 and "." in d:
            mod, _, nm = d.rpartition(".")
            m2 = self.modules.get(mod)
            if m2 is not None and m2 is not module:
                return self.constant_def(m2, nm, _depth + 1)
        return None

    @staticmethod
    def _nested(f, name):
        """nested function by name; a nested function is private to its parent, so when the name is gone and the parent
        has exactly one nested function that one is meant (a rename must not lose the anchor)"""
        g = f.nested.get(name)
        if g is None and len(f.nested) == 1:
            g = next(iter(f.nested.values()))
        return g

    def func_by_role(self, spec, pred, what):
        """the function `spec` names - or, when a private function was renamed, the one function of the same module
        (methods and nested functions included) that satisfies `pred` (a description of what the function DOES, given by
        the rule).  AnalysisError when neither exists or the role is ambiguous."""
        try:
            return self.func(spec)
        except AnalysisError:
            pass
        mod = spec.partition(":")[0]
        m = self.modules.get(mod)
        if m is None:
            raise AnalysisError(f"anchor module vanished: {mod}")
        cands = [f for f in self.all_functions if f.module is m and _safe(pred, f)]
        if len(cands) == 1:
            return cands[0]
        raise AnalysisError(f"anchor function vanished: {spec} ({what}: {len(cands)} candidates by role)")

    def stats(self):
        return {
            "modules": len(self.modules),
            "classes": sum(len(m.classes) for m in self.modules.values()),
            "functions": len(self.all_functions),
        }


def _blocks(st):
    out = []
    for f in ("body", "orelse", "finalbody"):
        b = getattr(st, f, None)
        if b:
            out.append(b)
    for h in getattr(st, "handlers", []) or []:
        out.append(h.body)
    return out


def _safe(pred, f):
    try:
        return bool(pred(f))
    except Exception:
        return False


def const_eval(node, env=None):
    """evaluate a literal-ish expression (numbers, strings, tuples, lists, sets,
    dicts, unary/binary arithmetic on constants, names from env).  Raises ValueError
    when not statically constant."""
    env = env or {}
    if isinstance(node, ast.Constant):
        return node.value
    if isinstance(node, ast.Name):
        if node.id in env:
            return env[node.id]
        if node.id in ("True", "False", "None"):
            return {"True": True, "False": False, "None": None}[node.id]
        raise ValueError(f"name {node.id}")
    if isinstance(node, ast.Tuple):
        return tuple(const_eval(e, env) for e in node.elts)
    if isinstance(node, ast.List):
        return [const_eval(e, env) for e in node.elts]
    if isinstance(node, ast.Set):
        return {const_eval(e, env) for e in node.elts}
    if isinstance(node, ast.Dict):
        return {const_eval(k, env): const_eval(v, env) for k, v in zip(node.keys, node.values)}
    if isinstance(node, ast.UnaryOp):
        v = const_eval(node.operand, env)
        if isinstance(node.op, ast.USub):
            return -v
        if isinstance(node.op, ast.UAdd):
            return +v
        if isinstance(node.op, ast.Not):
            return not v
        if isinstance(node.op, ast.Invert):
            return ~v
    if isinstance(node, ast.BinOp):
        a, b = const_eval(node.left, env), const_eval(node.right, env)
        import operator as op

        ops = {
            ast.Add: op.add, ast.Sub: op.sub, ast.Mult: op.mul, ast.Div: op.truediv,
            ast.FloorDiv: op.floordiv, ast.Mod: op.mod, ast.Pow: op.pow,
            ast.LShift: op.lshift, ast.RShift: op.rshift, ast.BitOr: op.or_,
            ast.BitAnd: op.and_, ast.BitXor: op.xor,
        }
        if type(node.op) in ops:
            return ops[type(node.op)](a, b)
    if isinstance(node, ast.Subscript):
        v = const_eval(node.value, env)
        i = const_eval(node.slice, env)
        return v[i]
    if isinstance(node, ast.Slice):
        f = lambda x: None if x is None else const_eval(x, env)
        return slice(f(node.lower), f(node.upper), f(node.step))
    if isinstance(node, ast.Call) and isinstance(node.func, ast.Name):
        fn = {"dict": dict, "set": set, "list": list, "tuple": tuple, "frozenset": frozenset,
              "len": len, "range": range, "int": int, "float": float, "sorted": sorted}.get(node.func.id)
        if fn is not None and not any(k.arg is None for k in node.keywords):
            args = [const_eval(a, env) for a in node.args]
            kw = {k.arg: const_eval(k.value, env) for k in node.keywords}
            return fn(*args, **kw)
    if isinstance(node, ast.DictComp) and len(node.generators) == 1:
        g = node.generators[0]
        it = const_eval(g.iter, env)
        out = {}
        for item in it:
            e2 = dict(env)
            _bind(g.target, item, e2)
            if all(const_eval(c, e2) for c in g.ifs):
                out[const_eval(node.key, e2)] = const_eval(node.value, e2)
        return out
    if isinstance(node, (ast.ListComp, ast.SetComp)) and len(node.generators) == 1:
        g = node.generators[0]
        it = const_eval(g.iter, env)
        out = []
        for item in it:
            e2 = dict(env)
            _bind(g.target, item, e2)
            if all(const_eval(c, e2) for c in g.ifs):
                out.append(const_eval(node.elt, e2))
        return out if isinstance(node, ast.ListComp) else set(out)
    if isinstance(node, ast.Call) and isinstance(node.func, ast.Attribute):
        # d.items() / d.keys() / d.values() on constant dicts
        try:
            recv = const_eval(node.func.value, env)
        except ValueError:
            recv = None
        if isinstance(recv, dict) and node.func.attr in ("items", "keys", "values") and not node.args:
            return list(getattr(recv, node.func.attr)())
    raise ValueError(f"not constant: {ast.dump(node)[:80]}")


def _bind(target, value, env):
    if isinstance(target, ast.Name):
        env[target.id] = value
    elif isinstance(target, (ast.Tuple, ast.List)):
        for t, v in zip(target.elts, value):
            _bind(t, v, env)
    else:
        raise ValueError("bind")
