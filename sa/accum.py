"""Per-member contributions: one description for comprehensions and accumulating loops.

    [f(v) for v in IT if c(v)]                      IT, elt f(_1), filters {(c(_1), True)}
    for v in IT:                                    the same
        if not c(v): continue
        acc.append(f(v))
    for k, v in IT.items(): total += g(v)           IT.items(), elt g(_2), accumulated with +=

`contributions(fnode)` lists them with the loop variables renamed to `_1`, `_2`, ... (order of the target tuple), the
filter tests normalised to (atom, polarity) pairs as in sa/pathsum.py, and the accumulator name (None for a
comprehension, whose value is the accumulation).  Rules about "every member contributes" compare these, so that
turning a comprehension into a loop (or back) is not noticed.
"""
from __future__ import annotations

import ast
import copy

from .pathsum import _atoms, summaries


class Contribution:
    __slots__ = ("iter", "elt", "filters", "acc", "how", "node", "targets", "key")

    def __init__(self, it, elt, filters, acc, how, node, targets, key=None):
        self.iter = it
        self.elt = elt
        self.filters = frozenset(filters)
        self.acc = acc
        self.how = how
        self.node = node
        self.targets = targets
        self.key = key

    def __repr__(self):
        return f"<{self.how} {self.acc or ''} {self.elt} for {self.targets} in {self.iter} if {sorted(self.filters)}>"


def _target_names(t):
    if isinstance(t, ast.Name):
        return [t.id]
    if isinstance(t, (ast.Tuple, ast.List)):
        return [n for e in t.elts for n in _target_names(e)]
    return []


def _renamed(e, names):
    m = {n: f"_{i + 1}" for i, n in enumerate(names)}

    class R(ast.NodeTransformer):
        def visit_Name(self, node):
            return ast.Name(id=m.get(node.id, node.id), ctx=node.ctx)

    return ast.unparse(R().visit(copy.deepcopy(e)))


def contributions(fnode):
    out = []
    for n in ast.walk(fnode):
        if isinstance(n, (ast.ListComp, ast.SetComp, ast.GeneratorExp, ast.DictComp)) and len(n.generators) == 1:
            g = n.generators[0]
            names = _target_names(g.target)
            fl = []
            for c in g.ifs:
                fl += _atoms(c, True, lambda e, origin=None: _renamed(e, names))
            elt = n.value if isinstance(n, ast.DictComp) else n.elt
            key = _renamed(n.key, names) if isinstance(n, ast.DictComp) else None
            out.append(Contribution(ast.unparse(g.iter), _renamed(elt, names), fl, None, type(n).__name__, n, names, key))
        elif isinstance(n, ast.For):
            names = _target_names(n.target)
            # paths through the body; a path that ends in `continue` contributes only what it did before
            fake = ast.FunctionDef(name="_", args=ast.arguments(posonlyargs=[], args=[], kwonlyargs=[], kw_defaults=[], defaults=[]),
                                   body=n.body, decorator_list=[], lineno=n.lineno)
            seen = set()
            for ps in summaries(fake, canon=lambda e, origin=None: _renamed(e, names)):
                for st in ps.stmts:
                    c = _accumulates(st)
                    if c is None:
                        continue
                    acc, how, elt, key = c
                    # only the decisions taken before this statement filter it: recompute conds up to st
                    conds = _conds_before(n.body, st, names)
                    sig = (id(st),)
                    if sig in seen:
                        continue
                    seen.add(sig)
                    out.append(Contribution(ast.unparse(n.iter), _renamed(elt, names), conds, acc, how, st, names,
                                            _renamed(key, names) if key is not None else None))
    return out


def _accumulates(st):
    """(accumulator name, how, element expr, key expr) for acc.append(E) / acc.add(E) / acc.extend(E) / acc += E / acc[k] = E"""
    if isinstance(st, ast.Expr) and isinstance(st.value, ast.Call) and isinstance(st.value.func, ast.Attribute) \
            and st.value.func.attr in ("append", "add", "extend", "update") and len(st.value.args) == 1 and not st.value.keywords:
        return ast.unparse(st.value.func.value), st.value.func.attr, st.value.args[0], None
    if isinstance(st, ast.AugAssign):
        return ast.unparse(st.target), type(st.op).__name__ + "=", st.value, None
    if isinstance(st, ast.Assign) and len(st.targets) == 1 and isinstance(st.targets[0], ast.Subscript):
        return ast.unparse(st.targets[0].value), "setitem", st.value, st.targets[0].slice
    return None


def _conds_before(body, target, names):
    """normalised conditions under which `target` is reached inside one iteration of the loop body"""
    canon = lambda e, origin=None: _renamed(e, names)  # noqa

    def rec(stmts, conds):
        for i, st in enumerate(stmts):
            if st is target:
                return conds
            if isinstance(st, ast.If):
                for pol, blk in ((True, st.body), (False, st.orelse)):
                    r = rec(blk, conds + _atoms(st.test, pol, canon))
                    if r is not None:
                        return r
                # a branch that always leaves the iteration filters what follows
                if _leaves(st.body) and not _leaves(st.orelse):
                    conds = conds + _atoms(st.test, False, canon)
                elif _leaves(st.orelse) and st.orelse and not _leaves(st.body):
                    conds = conds + _atoms(st.test, True, canon)
            elif isinstance(st, ast.Try):
                for blk in (st.body, st.orelse, st.finalbody):
                    r = rec(blk, conds + ([("<try>", True)] if blk is st.body else []))
                    if r is not None:
                        return r
            elif isinstance(st, (ast.With, ast.For, ast.While)):
                r = rec(st.body, conds + ([("<nested loop>", True)] if not isinstance(st, ast.With) else []))
                if r is not None:
                    return r
        return None

    return rec(body, []) or []


def _leaves(blk):
    return bool(blk) and isinstance(blk[-1], (ast.Continue, ast.Break, ast.Return, ast.Raise))


def flows_to_return(fnode, name):
    """does local `name` reach a returned value through local assignments (flow-insensitive closure)?"""
    reach = set()
    for n in ast.walk(fnode):
        if isinstance(n, ast.Return) and n.value is not None:
            reach |= {x.id for x in ast.walk(n.value) if isinstance(x, ast.Name)}
    changed = True
    while changed:
        changed = False
        for n in ast.walk(fnode):
            tg = []
            if isinstance(n, ast.Assign):
                tg = [x.id for t in n.targets for x in ast.walk(t) if isinstance(x, ast.Name)]
            elif isinstance(n, (ast.AugAssign, ast.AnnAssign)) and n.value is not None:
                tg = [x.id for x in ast.walk(n.target) if isinstance(x, ast.Name)]
            if tg and any(t in reach for t in tg):
                new = {x.id for x in ast.walk(n.value) if isinstance(x, ast.Name)} - reach
                if new:
                    reach |= new
                    changed = True
    return name.split(".")[0].split("[")[0] in reach


def return_sources(fnode):
    """(expressions, names): every expression whose value can reach a returned value through local assignments and
    accumulator calls (acc.append / extend / add / update, acc += ...), and the local names on the way.  Flow-insensitive."""
    exprs, reach = [], set()
    for n in ast.walk(fnode):
        if isinstance(n, ast.Return) and n.value is not None:
            exprs.append(n.value)
    seen = set()
    changed = True
    while changed:
        changed = False
        for e in exprs:
            new = {x.id for x in ast.walk(e) if isinstance(x, ast.Name)} - reach
            if new:
                reach |= new
                changed = True
        for n in ast.walk(fnode):
            if id(n) in seen:
                continue
            val, tg = None, []
            if isinstance(n, ast.Assign):
                tg = [x.id for t in n.targets for x in ast.walk(t) if isinstance(x, ast.Name)]
                val = n.value
            elif isinstance(n, (ast.AugAssign, ast.AnnAssign)) and n.value is not None:
                tg = [x.id for x in ast.walk(n.target) if isinstance(x, ast.Name)]
                val = n.value
            elif isinstance(n, ast.Expr) and isinstance(n.value, ast.Call) and isinstance(n.value.func, ast.Attribute) \
                    and n.value.func.attr in ("append", "extend", "add", "update", "insert", "setdefault"):
                tg = [x.id for x in ast.walk(n.value.func.value) if isinstance(x, ast.Name)]
                val = n.value
            elif isinstance(n, (ast.For, ast.comprehension)):
                tg = [x.id for x in ast.walk(n.target) if isinstance(x, ast.Name)]
                val = n.iter
            if val is not None and any(t in reach for t in tg):
                seen.add(id(n))
                exprs.append(val)
                changed = True
    return exprs, reach


def canon_elt(pv, c):
    """element of a contribution in provenance-canonical form (locals inlined, parameters `P_x`), loop variables `_1`, `_2`"""
    import re

    e = c.node.value if isinstance(c.node, ast.DictComp) else (c.node.elt if c.acc is None else _accumulates(c.node)[2])
    st = pv.stmt_of(e)
    if st is None:
        return c.elt
    txt = pv.canon(e, st, stop=tuple(c.targets))
    for i, n in enumerate(c.targets):
        txt = re.sub(rf"\bL_{re.escape(n)}\b", f"_{i + 1}", txt)
    return txt


def canon_iter(pv, c, fnode):
    it = c.node.generators[0].iter if c.acc is None else None
    if it is None:
        for n in ast.walk(fnode):
            if isinstance(n, ast.For) and any(x is c.node for x in ast.walk(n)):
                it = n.iter
    st = pv.stmt_of(it)
    return pv.canon(it, st) if st is not None else ast.unparse(it)

def entity_bytes_name(ix):
    """name of the Entity method whose result Path.__hash__ folds in for every entity (`e._bytes()` today)"""
    import re as _re
    from .accum import contributions
    h = ix.func("trimesh.path.path:Path.__hash__")
    for c in contributions(h.node):
        m = _re.fullmatch(r"\[?_1\.(\w+)\(\)\]?", c.elt)
        if c.iter == "self.entities" and m:
            return m.group(1)
    return "_bytes"
