"""Run bookkeeping: rule instances, violations, known findings, evidence, replay files.

Exit codes: 0 held / only listed known findings; 1 VIOLATION; 2 ANALYSIS-ERROR.
"""
from __future__ import annotations

import hashlib
import json
import os
import re
import sys
import time

VERIF = os.path.dirname(os.path.dirname(os.path.abspath(__file__)))


class AnalysisError(Exception):
    """The analysis itself cannot be trusted (vanished anchor, unsupported
    construct, instance count below floor).  Never reported as a violation."""


def norm_text(s: str) -> str:
    """normalise statement text so that keys survive re-formatting"""
    return re.sub(r"\s+", " ", s).strip()


def key_of(*parts) -> str:
    return "|".join(norm_text(str(p)) for p in parts)


class Run:
    def __init__(self, prop, tier="quick", repo="/repo", level="other", seed=0):
        self.prop = prop
        self.tier = tier
        self.repo = os.path.abspath(repo)
        self.level = level
        self.seed = seed
        self.t0 = time.time()
        self.instances = []  # every rule instance evaluated: dict(rule, where, what, ok)
        self.violations = []  # dict(key, rule, where, message, detail)
        self.known = []
        self.assumptions = []
        self.analysed = {}  # free-form: what was analysed
        self.obligations = 0
        self.discharged = 0
        self.extra = {}
        self.rules = {}  # rule id -> one line description
        self.floors = []  # (label, got, need)
        self._kf = self._load_known()

    # ------------------------------------------------------------------
    def _load_known(self):
        path = os.path.join(VERIF, "known_findings.json")
        if not os.path.exists(path):
            return {}
        with open(path) as f:
            data = json.load(f)
        out = {}
        for e in data.get("known", []):
            if e.get("property") == self.prop:
                out[e["key"]] = e
        return out

    def rule(self, rid, text):
        self.rules[rid] = text

    def assume(self, text):
        if text not in self.assumptions:
            self.assumptions.append(text)

    def instance(self, rule, where, what, ok=True, nontrivial=True):
        """record that one rule instance was evaluated"""
        self.instances.append(
            {"rule": rule, "where": where, "what": what, "ok": bool(ok), "nontrivial": nontrivial}
        )

    def obligation(self, rule, where, what, ok):
        self.obligations += 1
        if ok:
            self.discharged += 1
        self.instance(rule, where, what, ok)

    def violation(self, rule, where, message, key=None, detail=None):
        """where: 'file:line qualname'; key: stable identity (no line numbers)"""
        if key is None:
            key = key_of(rule, re.sub(r":\d+", "", where), message)
        v = {"key": key, "rule": rule, "where": where, "message": message, "detail": detail or {}}
        if key in self._kf:
            if not any(k["key"] == key for k in self.known):
                self.known.append(v)
        else:
            if not any(x["key"] == key for x in self.violations):
                self.violations.append(v)

    def floor(self, label, got, need):
        self.floors.append((label, got, need))
        if got < need and self.violations:
            # fewer instances than expected, but specific violations explain it: report those
            return
        if got < need:
            raise AnalysisError(
                f"instance floor not met: {label}: found {got}, expected at least {need} "
                "(anchor moved or analysis lost precision; a rule matching too few sites would pass vacuously)"
            )

    # ------------------------------------------------------------------
    def _replay_path(self, v):
        h = hashlib.sha1(v["key"].encode()).hexdigest()[:12]
        d = os.path.join(VERIF, "replays")
        os.makedirs(d, exist_ok=True)
        return os.path.join(d, f"{self.prop}-{h}.json")

    def finish(self, explanation, samples=None, trusted_base=None, checker_cmd=None):
        wall = time.time() - self.t0
        distinct = len({(i["rule"], i["where"], i["what"]) for i in self.instances if i["nontrivial"]})
        if samples is None:
            samples = [
                {k: i[k] for k in ("rule", "where", "what", "ok")} for i in self.instances[:12]
            ]
        cov = {
            "explanation": explanation,
            "evaluations": len(self.instances),
            "distinct_nontrivial": distinct,
            "rule": "one evaluation = one rule instance (a construct of /repo's current source that a rule "
            "applies to); non-trivial = the rule had content to check there; distinct by (rule, site, fact)",
            "samples": samples,
            "rules": self.rules,
            "analysed": self.analysed,
            "floors": [{"what": a, "found": b, "required": c} for a, b, c in self.floors],
            "violations_reported": [
                {k: v[k] for k in ("rule", "where", "message", "key")} for v in self.violations
            ],
            "known_findings_matched": [
                {k: v[k] for k in ("rule", "where", "message", "key")} for v in self.known
            ],
            "instances_by_rule": _count_by(self.instances, "rule"),
        }
        if self.level == "proof":
            cov.update(
                {
                    "obligations": self.obligations,
                    "discharged": self.discharged,
                    "checker_cmd": checker_cmd or f"./check {self.prop} --tier {self.tier}",
                    "trusted_base": trusted_base or [],
                }
            )
        elif self.obligations:
            cov.update({"obligations": self.obligations, "discharged": self.discharged})
        cov.update(self.extra)
        ev = {
            "property_id": self.prop,
            "tier": self.tier,
            "seed": self.seed,
            "level": self.level,
            "coverage": cov,
            "assumptions": self.assumptions,
            "wall_s": round(wall, 3),
            "violations": len(self.violations),
        }
        # evidence is only (re)written when analysing the real repository
        if self.repo == "/repo" or os.environ.get("VERIF_WRITE_EVIDENCE"):
            d = os.path.join(VERIF, "evidence")
            os.makedirs(d, exist_ok=True)
            with open(os.path.join(d, f"{self.prop}.json"), "w") as f:
                json.dump(ev, f, indent=1, sort_keys=False, default=str)
        n_inst = len(self.instances)
        print(
            f"{self.prop} [{self.tier}] analysed repo={self.repo}: {n_inst} rule instances "
            f"({distinct} distinct non-trivial), {self.obligations} obligations / {self.discharged} discharged, "
            f"{len(self.violations)} violation(s), {len(self.known)} known finding(s), {wall:.1f}s"
        )
        for k, n in sorted(_count_by(self.instances, "rule").items()):
            print(f"  rule {k}: {n} instances - {self.rules.get(k, '')}")
        for v in self.known:
            e = self._kf[v["key"]]
            print(f"KNOWN-FINDING: property={self.prop} {e.get('what', v['message'])} [{v['rule']} at {v['where']}]")
        for v in self.violations:
            p = self._replay_path(v)
            with open(p, "w") as f:
                json.dump({"property": self.prop, "repo": self.repo, **v}, f, indent=1, default=str)
            print(f"  {v['where']}: [{v['rule']}] {v['message']}")
            print(f"VIOLATION property={self.prop} replay={p}")
        return 1 if self.violations else 0


def _count_by(items, k):
    out = {}
    for i in items:
        out[i[k]] = out.get(i[k], 0) + 1
    return out


def main_wrapper(fn):
    """run a check's main(); tracebacks become ANALYSIS-ERROR exit 2"""
    try:
        rc = fn()
    except AnalysisError as e:
        print(f"ANALYSIS-ERROR {e}")
        sys.exit(2)
    except SystemExit:
        raise
    except BrokenPipeError:
        # the reader of our stdout went away (e.g. `| head`): nothing more can be reported
        try:
            sys.stdout.close()
        except Exception:
            pass
        os._exit(141)
    except BaseException as e:  # noqa
        import traceback

        traceback.print_exc()
        print(f"ANALYSIS-ERROR uncaught {type(e).__name__}: {e}")
        sys.exit(2)
    sys.exit(rc)
