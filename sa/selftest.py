"""Self-test of the checkers, both ways, on scratch copies of /repo/trimesh.

  python -m sa.selftest [Cnn ...] [--jobs N] [--json OUT]

Each variant in mutants/<cnn>.json is a textual edit (find -> replace, exactly one
occurrence) of one file.  kind="mutant": the edited tree still parses and the
check must report a violation (optionally naming `expect` in its output);
kind="benign": behaviour-preserving edit, the check must stay silent (exit 0).
Scratch copies live under $TMPDIR and are removed immediately.  Results never
change a check's exit code; this tool prints SELFTEST lines only.
"""
from __future__ import annotations

import ast
import concurrent.futures as cf
import json
import re
import os
import shutil
import subprocess
import sys
import tempfile

VERIF = os.path.dirname(os.path.dirname(os.path.abspath(__file__)))


def load(prop):
    p = os.path.join(VERIF, "mutants", f"{prop.lower()}.json")
    if not os.path.exists(p):
        return []
    with open(p) as f:
        return json.load(f)


def load_seeded(prop):
    """seeded changes stored under seeded/<ID>/ that this property's check is recorded to have been run against"""
    out = []
    root = os.path.join(VERIF, "seeded")
    if not os.path.isdir(root):
        return out
    for d in sorted(os.listdir(root)):
        mp = os.path.join(root, d, "meta.json")
        if not os.path.exists(mp):
            continue
        with open(mp) as f:
            meta = json.load(f)
        exp = meta.get("checks", {})
        if prop in exp or meta.get("property") == prop:
            out.append({"id": d, "patch": os.path.join(root, d, "patch.diff"), "expected": exp.get(prop, "missed")})
    return out


def run_seeded(prop, s, repo="/repo"):
    tmp = tempfile.mkdtemp(prefix=f"verif-seeded-{prop}-")
    try:
        shutil.copytree(os.path.join(repo, "trimesh"), os.path.join(tmp, "trimesh"), ignore=shutil.ignore_patterns("__pycache__", "*.pyc"))
        r = subprocess.run(["patch", "-p1", "-s", "-f", "-d", tmp, "-i", s["patch"]], capture_output=True, text=True)
        if r.returncode != 0:
            return {"id": s["id"], "kind": "seeded", "status": "not-applied", "expected": s["expected"], "why": (r.stdout + r.stderr)[:120]}
        r = subprocess.run([os.path.join(VERIF, "check"), prop, "--repo", tmp, "--tier", "quick"], capture_output=True, text=True, timeout=900)
        out = r.stdout + r.stderr
        viol = [l.strip()[:200] for l in out.splitlines() if l.startswith("  ") and re.search(r"\[[A-Z]\w*\]", l)]
        status = "killed" if r.returncode == 1 else ("analysis-error" if r.returncode == 2 else "survived")
        return {"id": s["id"], "kind": "seeded", "status": status, "expected": s["expected"], "reported": viol[:2],
                "why": "" if status == "killed" or s["expected"] == "missed" else "recorded as caught but not reported"}
    finally:
        shutil.rmtree(tmp, ignore_errors=True)


def load_benign_corpus(prop):
    """behaviour-preserving refactors of this property's mechanism functions stored under benign/<prop>-*/ (written by
    blind sub-agents, each checked against the tests and a bit-identical output digest): the check must stay silent"""
    out = []
    root = os.path.join(VERIF, "benign")
    if not os.path.isdir(root):
        return out
    for d in sorted(os.listdir(root)):
        if d.startswith(prop + "-") and os.path.exists(os.path.join(root, d, "patch.diff")):
            out.append({"id": d, "patch": os.path.join(root, d, "patch.diff")})
    return out


def run_benign_corpus(prop, b, repo="/repo"):
    tmp = tempfile.mkdtemp(prefix=f"verif-refactor-{prop}-")
    try:
        shutil.copytree(os.path.join(repo, "trimesh"), os.path.join(tmp, "trimesh"), ignore=shutil.ignore_patterns("__pycache__", "*.pyc"))
        r = subprocess.run(["patch", "-p1", "-s", "-f", "-d", tmp, "-i", b["patch"]], capture_output=True, text=True)
        if r.returncode != 0:
            return {"id": b["id"], "kind": "refactor", "status": "not-applied", "why": (r.stdout + r.stderr)[:120]}
        r = subprocess.run([os.path.join(VERIF, "check"), prop, "--repo", tmp, "--tier", "quick"], capture_output=True, text=True, timeout=900)
        out = r.stdout + r.stderr
        viol = [l.strip()[:200] for l in out.splitlines() if (l.startswith("  ") and re.search(r"\[[A-Z]\w*\]", l)) or "ANALYSIS-ERROR" in l]
        status = "silent" if r.returncode == 0 else ("analysis-error" if r.returncode == 2 else "false-alarm")
        return {"id": b["id"], "kind": "refactor", "status": status, "reported": viol[:2], "why": "; ".join(viol[:1])}
    finally:
        shutil.rmtree(tmp, ignore_errors=True)


def run_variant(prop, v, repo="/repo"):
    tmp = tempfile.mkdtemp(prefix=f"verif-selftest-{prop}-")
    try:
        shutil.copytree(os.path.join(repo, "trimesh"), os.path.join(tmp, "trimesh"),
                        ignore=shutil.ignore_patterns("__pycache__", "*.pyc"))
        edits = v.get("edits") or [v]
        for e in edits:
            path = os.path.join(tmp, e["file"])
            with open(path) as f:
                src = f.read()
            n = src.count(e["find"])
            if n != 1:
                return {"id": v["id"], "kind": v["kind"], "status": "not-applied",
                        "why": f"anchor text occurs {n} times in {e['file']}"}
            src = src.replace(e["find"], e["replace"])
            try:
                ast.parse(src)
            except SyntaxError as ex:
                return {"id": v["id"], "kind": v["kind"], "status": "not-applied", "why": f"variant does not parse: {ex}"}
            with open(path, "w") as f:
                f.write(src)
        r = subprocess.run([os.path.join(VERIF, "check"), prop, "--repo", tmp, "--tier", "quick"],
                           capture_output=True, text=True, timeout=600)
        out = r.stdout + r.stderr
        viol = [l for l in out.splitlines() if l.startswith("  ") and re.search(r"\[[A-Z]\w*\]", l)]
        if v["kind"] == "mutant":
            ok = r.returncode == 1 and (not v.get("expect") or any(v["expect"] in l for l in viol))
            status = "killed" if ok else ("analysis-error" if r.returncode == 2 else "survived")
        else:
            status = "silent" if r.returncode == 0 else ("analysis-error" if r.returncode == 2 else "false-alarm")
        return {"id": v["id"], "kind": v["kind"], "status": status, "rc": r.returncode,
                "reported": viol[:4], "tail": out.splitlines()[-3:] if status not in ("killed", "silent") else []}
    finally:
        shutil.rmtree(tmp, ignore_errors=True)


def main():
    args = [a for a in sys.argv[1:] if not a.startswith("--")]
    jobs = 16
    out_json = None
    av = sys.argv[1:]
    for i, a in enumerate(av):
        if a == "--jobs":
            jobs = int(av[i + 1])
        if a == "--json":
            out_json = av[i + 1]
    args = [a for a in args if not a.isdigit() and a != out_json]
    props = [a.upper() for a in args] or sorted(
        f[:-5].upper() for f in os.listdir(os.path.join(VERIF, "mutants")) if f.endswith(".json"))
    tasks = [(p, v) for p in props for v in load(p)]
    results = {}
    with cf.ProcessPoolExecutor(max_workers=jobs) as ex:
        futs = {ex.submit(run_variant, p, v): (p, v) for p, v in tasks}
        for fu in cf.as_completed(futs):
            p, v = futs[fu]
            try:
                r = fu.result()
            except Exception as e:  # noqa
                r = {"id": v["id"], "kind": v["kind"], "status": "harness-error", "why": repr(e)}
            results.setdefault(p, []).append(r)
    bad = 0
    for p in props:
        rs = sorted(results.get(p, []), key=lambda r: r["id"])
        m = [r for r in rs if r["kind"] == "mutant"]
        b = [r for r in rs if r["kind"] == "benign"]
        print(f"SELFTEST {p}: mutants {sum(r['status'] == 'killed' for r in m)}/{len(m)} killed, "
              f"benign {sum(r['status'] == 'silent' for r in b)}/{len(b)} silent")
        for r in rs:
            if r["status"] not in ("killed", "silent"):
                bad += 1
                print(f"  SELFTEST-ISSUE {p} {r['id']} [{r['kind']}] -> {r['status']} {r.get('why', '')} {r.get('reported', '')} {r.get('tail', '')}")
    if out_json:
        with open(out_json, "w") as f:
            json.dump(results, f, indent=1)
    return 0


if __name__ == "__main__":
    sys.exit(main())
