"""fix_winding, name-free: one description shared by C05-R4 and C18-R5.

The flip is found by its shape (`A[i] = A[i][::-1]`); its guard and target are compared as canonical terms in which every
local is replaced by its definition (sa/provenance.py), matched against expression templates (sa/template.py):

    guard   E[G[0]][0][0] == E[G[0]][1][0]        E = faces_to_edges(F[PAIR]),  G = group_rows(sort(E, axis=1), require_count=2)
    target  F[PAIR[1]]   (or PAIR[0])             the same F and PAIR

i.e. one face of the pair is reversed exactly when the edge the two faces share starts at the same vertex in both.
"""
from __future__ import annotations

import ast

from .provenance import Prov
from .template import match_expr


def fix_winding_facts(ix):
    fx = ix.func("trimesh.repair:fix_winding")
    px = Prov(ix, fx, depth=14)
    flips = [st for st in ast.walk(fx.node) if isinstance(st, ast.Assign) and len(st.targets) == 1 and isinstance(st.targets[0], ast.Subscript)
             and isinstance(st.value, ast.Subscript) and isinstance(st.value.slice, ast.Slice)
             and st.value.slice.lower is None and st.value.slice.upper is None and ast.unparse(st.value.slice.step or ast.Constant(1)) == "-1"
             and ast.dump(st.value.value).replace("Store()", "Load()") == ast.dump(st.targets[0]).replace("Store()", "Load()")]
    out = {"func": fx, "n_flips": len(flips), "guard_ok": False, "target_ok": False, "stored": False, "detail": ""}
    if len(flips) != 1:
        out["detail"] = f"{len(flips)} statements of the form A[i] = A[i][::-1]"
        return out
    st = flips[0]
    gs = px.guards(st)
    out["detail"] = (gs[-1] if gs else "no guard")[:0] or ("guarded" if gs else "no guard")
    if not gs:
        return out
    env = None
    for a, b in (("[0][0]", "[1][0]"), ("[1][0]", "[0][0]"), ("[0][1]", "[1][1]"), ("[1][1]", "[0][1]")):
        env = env or match_expr(f"_e_E[_e_G[0]]{a} == _e_E[_e_G[0]]{b}", gs[-1])
    if env:
        e2 = match_expr("trimesh.geometry.faces_to_edges(_e_F[_e_PAIR])", env["_e_E"], env)
        e2 = e2 and (match_expr("trimesh.grouping.group_rows(numpy.sort(_e_E, axis=1), require_count=2)", e2["_e_G"], e2)
                     or match_expr("trimesh.grouping.group_rows(numpy.sort(_e_E, axis=-1), require_count=2)", e2["_e_G"], e2))
        out["guard_ok"] = e2 is not None
        if e2:
            tg = px.canon(st.targets[0], st)
            out["target_ok"] = any(match_expr(f"_e_F[_e_PAIR[{k}]]", tg, {k_: e2[k_] for k_ in ("_e_F", "_e_PAIR")}) is not None for k in (0, 1))
            out["detail"] = "shared edge of the pair starts at the same vertex in both faces -> one face of the pair reversed"
    # the re-wound copy is stored back into the mesh
    base = st.targets[0].value
    if isinstance(base, ast.Name):
        for s2 in ast.walk(fx.node):
            if isinstance(s2, ast.Assign) and ast.unparse(s2.targets[0]) == f"{fx.params[0]}.faces" and isinstance(s2.value, ast.Name) and s2.value.id == base.id:
                out["stored"] = True
    else:
        out["stored"] = ast.unparse(base) == f"{fx.params[0]}.faces"
    return out
