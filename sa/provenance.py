"""Canonical forms of expressions, so structural rules do not depend on the names of locals, on
import aliases or on array-cast wrappers: a local with exactly one reaching definition is replaced
by its defining expression (recursively), parameters become `P_<name>`, merge points `PHI_<name>`, loop variables `EACH(<iterable>)`, callees are replaced by the
entity they resolve to, `np.asanyarray(x, ...)`-style casts are dropped.  Two sources that differ
only in those respects have the same canonical text; a rule compares canonical texts.
"""
from __future__ import annotations

import ast
import copy

from .cfg import CFG, reaching_defs
from .index import ClassInfo, FuncInfo, Module

CASTS = {"bool", "numpy.asanyarray", "numpy.asarray", "numpy.array", "numpy.ascontiguousarray", "numpy.float64", "numpy.asfarray", "float", "numpy.require"}


class Prov:
    def __init__(self, ix, f, depth=8, ssa=False, abstract=None):
        """ssa=True: augmented assignments and element stores are definitions too - `x += e` reads as `x' = x + e`,
        `x[i] = e` as `x' = STORE(x, _[i], e)` - so that canonical forms do not depend on whether a value is built in one
        expression or updated in steps (and never on what the local is called)"""
        self.ix = ix
        self.f = f
        self.ssa = ssa
        # {resolved callee: SYMBOL}: a call to that callee is one opaque symbol in every canonical form (its arguments are
        # examined separately by whoever asks); keeps the terms of functions that thread a few producer results small
        self.abstract = dict(abstract or {})
        self.cfg = CFG(f.node, exceptions=False)
        self.rd = reaching_defs(self.cfg, ssa=ssa)
        self.depth = depth
        a = f.node.args
        self.params = [x.arg for x in a.posonlyargs + a.args + a.kwonlyargs]
        self._stmt_of = {}
        for st in ast.walk(f.node):
            if isinstance(st, ast.stmt):
                for sub in ast.walk(st):
                    if isinstance(sub, ast.expr):
                        self._stmt_of.setdefault(id(sub), st)

    # innermost statement first: walk assigns outer statements first, so refine
    def stmt_of(self, expr):
        best = None
        for st in ast.walk(self.f.node):
            if isinstance(st, ast.stmt) and st is not self.f.node:
                own = [st] if not hasattr(st, "body") else None
                if own is None:
                    # compound statement: only its header expressions belong to it
                    hdr = []
                    for fld in ("test", "iter", "target", "items", "subject"):
                        v = getattr(st, fld, None)
                        if isinstance(v, list):
                            hdr += v
                        elif v is not None:
                            hdr.append(v)
                    if any(expr is sub for h in hdr for sub in ast.walk(h)):
                        best = st
                else:
                    if any(expr is sub for sub in ast.walk(st)):
                        best = st
        return best

    def stmt_of_return(self, r):
        """the Return node itself when it belongs to this function (not to a nested def)"""
        return r if self.cfg.nodes_of.get(id(r)) else None

    def node_at(self, stmt):
        ns = self.cfg.nodes_of.get(id(stmt))
        return ns[0] if ns else None

    def defs_at(self, stmt, name):
        n = self.node_at(stmt)
        if n is None:
            return None
        return sorted(d for (x, d) in self.rd[n] if x == name)

    def inline(self, expr, at_stmt, depth=None, stop=()):
        """copy of expr with uniquely-defined locals replaced by their definitions; names in `stop` are kept as `L_<name>`"""
        depth = self.depth if depth is None else depth
        prov = self

        class T(ast.NodeTransformer):
            def visit_Name(self, node):
                if not isinstance(node.ctx, ast.Load):
                    return node
                if node.id in stop:
                    return ast.Name(id=f"L_{node.id}", ctx=ast.Load())
                ds = prov.defs_at(at_stmt, node.id)
                if ds is None or not ds:
                    return node  # global / builtin / closure
                if ds == [prov.cfg.entry]:
                    return ast.Name(id=f"P_{node.id}", ctx=ast.Load())
                if len(ds) == 1 and depth > 0:
                    t = prov._def_term(node.id, ds[0], depth, stop)
                    if t is not None:
                        return t
                return ast.Name(id=f"PHI_{node.id}", ctx=ast.Load())

            def visit_Lambda(self, node):
                return node

            def visit_Call(self, node):
                if prov.abstract:
                    c = prov.callee(node.func)
                    if c in prov.abstract:
                        return ast.Name(id=prov.abstract[c], ctx=ast.Load())
                return self.generic_visit(node)

        return T().visit(copy.deepcopy(expr))

    def _def_term(self, name, d, depth, stop):
        """expression tree for the value local `name` has after CFG node d defined it, or None when d is not a definition
        this analysis can express"""
        prov = self
        st = prov.cfg.stmt[d]
        if isinstance(st, ast.Assign) and len(st.targets) == 1 and isinstance(st.targets[0], ast.Name) \
                and prov.cfg.kind[d] == "stmt":
            return prov.inline(st.value, st, depth - 1, stop)
        if prov.ssa and prov.cfg.kind[d] == "stmt" and isinstance(st, ast.AugAssign) and isinstance(st.target, ast.Name):
            prev = prov.inline(ast.Name(id=name, ctx=ast.Load()), st, depth - 1, stop)
            return ast.BinOp(left=prev, op=st.op, right=prov.inline(st.value, st, depth - 1, stop))
        if prov.ssa and prov.cfg.kind[d] == "stmt" and isinstance(st, (ast.Assign, ast.AugAssign)):
            tg = st.targets[0] if isinstance(st, ast.Assign) else st.target
            if isinstance(tg, ast.Subscript) and isinstance(tg.value, ast.Name) and tg.value.id == name and (isinstance(st, ast.AugAssign) or len(st.targets) == 1):
                prev = prov.inline(ast.Name(id=name, ctx=ast.Load()), st, depth - 1, stop)
                idx = ast.Subscript(value=ast.Name(id="_", ctx=ast.Load()), slice=prov.inline(tg.slice, st, depth - 1, stop), ctx=ast.Load())
                val = prov.inline(st.value, st, depth - 1, stop)
                if isinstance(st, ast.AugAssign):
                    val = ast.BinOp(left=ast.Subscript(value=copy.deepcopy(prev), slice=copy.deepcopy(idx.slice), ctx=ast.Load()), op=st.op, right=val)
                return ast.Call(func=ast.Name(id="STORE", ctx=ast.Load()), args=[prev, idx, val], keywords=[])
        if isinstance(st, (ast.Import, ast.ImportFrom)):
            dotted = prov._local_import(st, name)
            if dotted:
                return ast.Name(id=dotted, ctx=ast.Load())
        if isinstance(st, ast.For) and prov.cfg.kind[d] == "for" and isinstance(st.target, ast.Name):
            return ast.Call(func=ast.Name(id="EACH", ctx=ast.Load()), args=[prov.inline(st.iter, st, depth - 1, stop)], keywords=[])
        if isinstance(st, ast.Assign) and len(st.targets) == 1 and isinstance(st.targets[0], ast.Tuple) \
                and prov.cfg.kind[d] == "stmt" and all(isinstance(x, ast.Name) for x in st.targets[0].elts):
            i = [x.id for x in st.targets[0].elts].index(name)
            if isinstance(st.value, (ast.Tuple, ast.List)) and len(st.value.elts) == len(st.targets[0].elts):
                return prov.inline(st.value.elts[i], st, depth - 1, stop)  # a, b = x, y
            return ast.Subscript(value=prov.inline(st.value, st, depth - 1, stop), slice=ast.Constant(i), ctx=ast.Load())
        return None

    def _local_import(self, st, name):
        """dotted target of a name bound by an import statement inside the function"""
        for a in st.names:
            bound = (a.asname or a.name).split(".")[0] if isinstance(st, ast.Import) else (a.asname or a.name)
            if bound != name:
                continue
            if isinstance(st, ast.Import):
                return a.name if a.asname else a.name.split(".")[0]
            pkg = self.f.module.name.split(".")
            if st.level:
                # a module's own package is its name minus the last component (packages are `x/__init__`)
                base = pkg[:-1] if not getattr(self.f.module, "is_package", False) else pkg
                base = base[: len(base) - (st.level - 1)] if st.level > 1 else base
                mod = ".".join(base + ([st.module] if st.module else []))
            else:
                mod = st.module or ""
            return f"{mod}.{a.name}" if mod else a.name
        return None

    def alternatives(self, name, at_stmt, stop=(), strip=True):
        """canonical text of every definition of local `name` that may reach at_stmt (None when one is not a plain assignment)"""
        out = set()
        for d in self.defs_at(at_stmt, name) or []:
            if d == self.cfg.entry:
                out.add(f"P_{name}")
                continue
            st = self.cfg.stmt[d]
            if isinstance(st, ast.Assign) and len(st.targets) == 1 and isinstance(st.targets[0], ast.Name) and self.cfg.kind[d] == "stmt":
                branches = [st.value]
                while any(isinstance(b, ast.IfExp) for b in branches):  # a conditional expression is two definitions
                    branches = [x for b in branches for x in ((b.body, b.orelse) if isinstance(b, ast.IfExp) else (b,))]
                for b in branches:
                    out.add(self.canon(b, st, stop=stop, strip=strip))
            elif isinstance(st, ast.Assign) and len(st.targets) == 1 and isinstance(st.targets[0], ast.Tuple) and self.cfg.kind[d] == "stmt" \
                    and all(isinstance(x, ast.Name) for x in st.targets[0].elts):
                i = [x.id for x in st.targets[0].elts].index(name)
                if isinstance(st.value, (ast.Tuple, ast.List)) and len(st.value.elts) == len(st.targets[0].elts):
                    out.add(self.canon(st.value.elts[i], st, stop=stop, strip=strip))
                else:
                    out.add(f"{self.canon(st.value, st, stop=stop, strip=strip)}[{i}]")
            else:
                return None
        return out

    def versions(self, name, at_stmt, stop=(), strip=True):
        """canonical text of every definition of `name` reaching at_stmt, whatever kind of definition it is (in ssa mode
        element stores and augmented assignments included); None when one of them cannot be expressed"""
        out = set()
        for d in self.defs_at(at_stmt, name) or []:
            if d == self.cfg.entry:
                out.add(f"P_{name}")
                continue
            t = self._def_term(name, d, self.depth, stop)
            if t is None:
                return None
            out.add(self._finish(t, strip))
        return out

    def enclosing_tests(self, stmt):
        """[(If node, taken-branch-is-body?)] for every `if` that encloses stmt, outermost first"""
        out = []

        def rec(body, acc):
            for st in body:
                if st is stmt:
                    out.extend(acc)
                    return True
                if isinstance(st, ast.If):
                    if rec(st.body, acc + [(st, True)]) or rec(st.orelse, acc + [(st, False)]):
                        return True
                elif not isinstance(st, (ast.FunctionDef, ast.AsyncFunctionDef, ast.ClassDef)):
                    for fld in ("body", "orelse", "finalbody"):
                        if rec(getattr(st, fld, []) or [], acc):
                            return True
                    for h in getattr(st, "handlers", []) or []:
                        if rec(h.body, acc):
                            return True
            return False

        rec(self.f.node.body, [])
        return out

    def guards(self, stmt, stop=()):
        """canonical texts of the conditions under which stmt runs (negated tests prefixed with `not `)"""
        return [("" if pos else "not ") + self.canon(i.test, i, stop=stop) for i, pos in self.enclosing_tests(stmt)]

    def callee(self, call_func):
        r = self.ix.resolve_expr(self.f.module, call_func)
        if isinstance(r, FuncInfo):
            return f"{r.module.name}.{r.qualname}"
        if isinstance(r, ClassInfo):
            return f"{r.module.name}.{r.name}"
        if isinstance(r, Module):
            return r.name
        if isinstance(r, str):
            return r
        return None

    def canon(self, expr, at_stmt, strip=True, stop=(), commutative=False):
        """commutative=True: operands of + * & | are put in text order (after everything else), `a > b` becomes `b < a`"""
        e = self.inline(expr, at_stmt, stop=stop)
        return self._finish(e, strip, commutative)

    def _finish(self, e, strip=True, commutative=False):
        prov = self

        class N(ast.NodeTransformer):
            def visit_Call(self, node):
                c = prov.callee(node.func)
                if c is None and isinstance(node.func, ast.Name) and node.func.id in ("float", "bool", "int", "len", "abs"):
                    c = node.func.id
                self.generic_visit(node)
                if c is not None:
                    if strip and c in CASTS and node.args:
                        return node.args[0]
                    node.func = ast.Name(id=c, ctx=ast.Load())
                # keyword order is irrelevant
                node.keywords = sorted(node.keywords, key=lambda k: k.arg or "")
                return node

            def visit_Attribute(self, node):
                self.generic_visit(node)
                if isinstance(node.value, ast.Call) and isinstance(node.ctx, ast.Load):
                    # a record of this repository built and projected in one expression is the argument itself
                    r = prov.ix.record_project(node.value, node.attr)
                    if r is not None:
                        return r
                c = prov.callee(node) if isinstance(node.ctx, ast.Load) else None
                if c is not None and not isinstance(node.value, ast.Call) and not (_root(node) or "").startswith(("P_", "PHI_", "L_")):
                    return ast.Name(id=c, ctx=ast.Load())
                return node

        e = N().visit(e)
        e = _RecordIndex(prov.ix).visit(e)
        if commutative:
            e = _Commute().visit(e)
        if getattr(self, "_want_ast", False):
            return ast.fix_missing_locations(e)
        return ast.unparse(ast.fix_missing_locations(e))

    def _finish_ast(self, e, strip=True):
        """callee names resolved, casts dropped, keywords sorted - on an already substituted expression tree"""
        old = getattr(self, "_want_ast", False)
        self._want_ast = True
        try:
            return self._finish(e, strip)
        finally:
            self._want_ast = old

    def term(self, expr, at_stmt, strip=True, stop=()):
        """the canonical form as an expression tree (for sa.template.match_expr); same vocabulary as canon()"""
        self._want_ast = True
        try:
            return self.canon(expr, at_stmt, strip=strip, stop=stop)
        finally:
            self._want_ast = False

    def canon_call(self, call, at_stmt):
        """(callee, [canonical positional args], {kw: canonical})"""
        c = self.callee(self.inline(call.func, at_stmt)) or ast.unparse(call.func)
        args = [self.canon(a, at_stmt) for a in call.args]
        kw = {k.arg: self.canon(k.value, at_stmt) for k in call.keywords if k.arg}
        # positional arguments of the repository's own functions are also available under the parameter's name
        from .index import SIG_DOTTED
        sig = SIG_DOTTED.get(c)
        if sig and not any(isinstance(a, ast.Starred) for a in call.args):
            for p_, a_ in zip(sig, args):
                kw.setdefault(p_, a_)
        return c, args, kw


class _RecordIndex(ast.NodeTransformer):
    """`K(a, b)[0]` -> `a` for records of this repository (after callee resolution)"""

    def __init__(self, ix):
        self.ix = ix

    def visit_Subscript(self, node):
        self.generic_visit(node)
        if isinstance(node.value, ast.Call) and isinstance(node.slice, ast.Constant) and isinstance(node.slice.value, int) \
                and isinstance(node.ctx, ast.Load):
            r = self.ix.record_project(node.value, node.slice.value)
            if r is not None:
                return r
        return node


class _Commute(ast.NodeTransformer):
    def visit_BinOp(self, node):
        self.generic_visit(node)
        if isinstance(node.op, (ast.Add, ast.Mult, ast.BitAnd, ast.BitOr)):
            # flatten the chain of the same operator, sort by text, rebuild left-associated
            terms = []

            def flat(x):
                if isinstance(x, ast.BinOp) and type(x.op) is type(node.op):
                    flat(x.left)
                    flat(x.right)
                else:
                    terms.append(x)

            flat(node)
            terms.sort(key=ast.unparse)
            out = terms[0]
            for t in terms[1:]:
                out = ast.BinOp(left=out, op=type(node.op)(), right=t)
            return out
        return node

    def visit_Compare(self, node):
        self.generic_visit(node)
        if len(node.ops) == 1 and isinstance(node.ops[0], (ast.Gt, ast.GtE)):
            flip = {ast.Gt: ast.Lt, ast.GtE: ast.LtE}[type(node.ops[0])]
            return ast.Compare(left=node.comparators[0], ops=[flip()], comparators=[node.left])
        if len(node.ops) == 1 and isinstance(node.ops[0], (ast.Eq, ast.NotEq)) and ast.unparse(node.left) > ast.unparse(node.comparators[0]):
            return ast.Compare(left=node.comparators[0], ops=node.ops, comparators=[node.left])
        return node


def _root(e):
    while isinstance(e, (ast.Attribute, ast.Subscript, ast.Call)):
        e = e.value if not isinstance(e, ast.Call) else e.func
    return e.id if isinstance(e, ast.Name) else None


def stores_to(fnode, target_text):
    """(statement, value expr) for every plain assignment whose target unparses to target_text"""
    out = []
    for st in ast.walk(fnode):
        if isinstance(st, ast.Assign):
            for t in st.targets:
                if ast.unparse(t) == target_text:
                    out.append((st, st.value))
        elif isinstance(st, ast.AugAssign) and ast.unparse(st.target) == target_text:
            out.append((st, st))
    return out


def is_emptiness(text):
    """does the canonical condition `text` imply that some input collection is empty?
    atoms: len(X) == 0, len(X) < 1, not len(X), X.size == 0, X.is_empty; `or` needs every disjunct, `and` any conjunct"""
    try:
        e = ast.parse(text, mode="eval").body
    except SyntaxError:
        return False

    def atom(x):
        if isinstance(x, ast.Attribute) and x.attr == "is_empty":
            return True
        if isinstance(x, ast.UnaryOp) and isinstance(x.op, ast.Not):
            v = x.operand
            return isinstance(v, ast.Call) and ast.unparse(v.func) == "len"
        if isinstance(x, ast.Compare) and len(x.ops) == 1:
            l, r = ast.unparse(x.left), ast.unparse(x.comparators[0])
            sized = l.startswith("len(") or l.endswith(".size")
            if sized and isinstance(x.ops[0], ast.Eq) and r == "0":
                return True
            if sized and isinstance(x.ops[0], ast.Lt) and r == "1":
                return True
            if sized and isinstance(x.ops[0], ast.LtE) and r == "0":
                return True
        return False

    def rec(x):
        if isinstance(x, ast.BoolOp):
            if isinstance(x.op, ast.Or):
                return all(rec(v) for v in x.values)
            return any(rec(v) for v in x.values)
        return atom(x)

    return rec(e)
