"""Run many (patched tree, check) pairs on all cores: shared by tools_seed_matrix.py and tools_benign_matrix.py.

Each patch gets one scratch copy of the package under the system temp directory; the pairs of a batch of patches are
spread over a process pool, so that a slow check of one patch overlaps with the fast checks of the next; every scratch
copy is removed as soon as its last check has finished."""
from __future__ import annotations

import concurrent.futures as cf
import json
import os
import shutil
import subprocess
import tempfile

VERIF = os.path.dirname(os.path.dirname(os.path.abspath(__file__)))


def registered_checks():
    return [c["property_id"] for c in json.load(open(os.path.join(VERIF, "MANIFEST.json")))["checks"]]


def _run(args):
    pid, tmp, check = args
    r = subprocess.run([os.path.join(VERIF, "check"), check, "--repo", tmp], capture_output=True, text=True)
    viol = [l.strip()[:260] for l in (r.stdout + r.stderr).splitlines()
            if (l.startswith("  ") and "]" in l and "[" in l and not l.startswith("  rule ")) or "ANALYSIS-ERROR" in l]
    return pid, check, r.returncode, viol


def run_matrix(patches, checks=None, batch=8, jobs=16, progress=None):
    """patches: {id: path to patch.diff} -> {id: {check: (exit code, report lines)}} ; id -> None when the patch does not apply"""
    checks = checks or registered_checks()
    out = {}
    ids = list(patches)
    with cf.ProcessPoolExecutor(max_workers=jobs) as ex:
        for i in range(0, len(ids), batch):
            tmps = {}
            for pid in ids[i:i + batch]:
                tmp = tempfile.mkdtemp(prefix=f"verif-matrix-{pid}-")
                shutil.copytree("/repo/trimesh", tmp + "/trimesh", ignore=shutil.ignore_patterns("__pycache__", "*.pyc"))
                r = subprocess.run(["patch", "-p1", "-s", "-f", "-d", tmp, "-i", patches[pid]], capture_output=True, text=True)
                if r.returncode != 0:
                    shutil.rmtree(tmp, ignore_errors=True)
                    out[pid] = None
                    if progress:
                        progress(pid, None)
                    continue
                tmps[pid] = tmp
                out[pid] = {}
            try:
                futs = [ex.submit(_run, (pid, tmp, c)) for pid, tmp in tmps.items() for c in checks]
                left = {pid: len(checks) for pid in tmps}
                for fu in cf.as_completed(futs):
                    pid, c, rc, viol = fu.result()
                    out[pid][c] = (rc, viol)
                    left[pid] -= 1
                    if left[pid] == 0:
                        shutil.rmtree(tmps[pid], ignore_errors=True)
                        if progress:
                            progress(pid, out[pid])
            finally:
                for tmp in tmps.values():
                    shutil.rmtree(tmp, ignore_errors=True)
    return out
