"""C09 - scene-graph transforms are the product of current edges (representation invariants).

`SceneGraph.get` is right for every history iff after every mutator (i) the forest hash memo
was reset, (ii) the path memo is empty when topology changed, (iii) `edge_data` holds exactly
the edges `(parents[c], c)`.  Each is maintained by a handful of writers which are found by
the effect analysis (direct stores, stores through local aliases and loop targets) and checked
on their CFGs with dominators / post-dominators.
"""
from __future__ import annotations

import ast

import networkx as nx

from ..cfg import CFG, own_exprs, reaching_defs
from ..effects import Effects, Summary, _Analyzer
from ..index import Index
from ..rawreads import raw_reads
from ..report import AnalysisError, key_of

LEVEL = "other"

FOREST_FIELDS = ("parents", "edge_data", "node_data")

# functions outside EnforcedForest that write forest state directly (frozen, confirmed by reading; DESIGN C09-R2)
EXTERNAL_WRITERS = {
    "trimesh.scene.transforms:SceneGraph.update": "stores node geometry after add_edge (which reset the hash at entry)",
    "trimesh.scene.transforms:SceneGraph.remove_geometries": "strips geometry references from nodes, resets the hash at the end",
    "trimesh.scene.scene:Scene.scaled": "rewrites edge matrices of the copied result in place, then graph.update()",
    "trimesh.scene.transforms:SceneGraph.from_edgelist": "builds a new graph through update()",
}
FOREST_REPLACERS = {
    "trimesh.scene.transforms:SceneGraph.__init__": "construction",
    "trimesh.scene.transforms:SceneGraph.copy": "deep copy into a new graph",
    "trimesh.scene.transforms:SceneGraph.clear": "fresh forest and cleared memo",
    "trimesh.scene.scene:Scene.add_geometry": "installs the forest of the concatenated scene; the graph's memo key is recomputed from whichever forest is installed",
}


def _direct_forest_writes(eng, f, cls):
    """per CFG node: forest fields written by that statement itself (no callee effects merged in)"""
    an = _Analyzer(eng, f, cls)
    an.run()
    an2 = _Analyzer(eng, f, cls)
    an2.shallow = True
    an2._base_env = an.env
    an2._base_types = an.types
    cfg = CFG(f.node, exceptions=False)
    rd = reaching_defs(cfg)
    out = {}
    for n, st in cfg.stmt.items():
        if st is None or cfg.kind[n] == "join":
            continue
        an2.env, an2.types = an2.env_at(cfg, rd, n)
        an2.s = Summary()
        if cfg.kind[n] == "stmt":
            if isinstance(st, (ast.FunctionDef, ast.ClassDef)):
                continue
            an2.stmt(st)
        else:
            for e in own_exprs(st):
                if isinstance(e, ast.expr):
                    an2.use(an2.expr(e))
        ws = []
        for (root, path, kind) in an2.s.writes:
            fields = [p for p in path if p in FOREST_FIELDS]
            if fields:
                ws.append((root, path, kind, an2.s.sites.get((root, path, kind), (getattr(st, "lineno", 0), ""))[1]))
        if ws:
            out[n] = ws
    return cfg, out, an


def _is_hash_reset(st):
    """`<x>._hash = None`"""
    return (isinstance(st, ast.Assign) and isinstance(st.targets[0], ast.Attribute) and st.targets[0].attr == "_hash"
            and isinstance(st.value, ast.Constant) and st.value.value is None)


def _is_memo_clear(st):
    """`<x>._cache = {}` on the forest"""
    return (isinstance(st, ast.Assign) and isinstance(st.targets[0], ast.Attribute) and st.targets[0].attr == "_cache"
            and isinstance(st.value, ast.Dict) and not st.value.keys)


def check(run):
    ix = Index(run.repo)
    ef = Effects(ix)
    run.analysed.update(ix.stats())
    run.rule("R1", "every direct write of forest state is preceded by a hash reset with no hash read in between, or followed by one on every path to the exit")
    run.rule("R2", "closed writer set: forest state is written only by EnforcedForest methods and the frozen external writers; the forest object is replaced only by construction/copy/clear")
    run.rule("R3", "every insertion or deletion of a parents / edge_data key clears the forest's path memo")
    run.rule("R4", "coupling: re-parenting removes the edge from the old parent; removing a node removes its edges and parent links")
    run.rule("R5", "SceneGraph memo: keyed on the forest hash, matrices made read-only before they are stored; the no-change early exit compares with an absolute tolerance <= 1e-8")
    run.rule("R6", "EnforcedForest.__hash__ covers edge keys, edge geometry, node keys, node geometry and every edge matrix, and memoises only under its dirty protocol")
    run.rule("R7", "memo entries of a graph are read raw only after verification (no hand-over of unverified entries to a copy)")

    mod = ix.modules.get("trimesh.scene.transforms")
    if mod is None or "EnforcedForest" not in mod.classes or "SceneGraph" not in mod.classes:
        raise AnalysisError("anchor vanished: EnforcedForest / SceneGraph")
    EF, SG = mod.classes["EnforcedForest"], mod.classes["SceneGraph"]

    # ------------------------------------------------------------------ find all direct writers, repo-wide
    writers = []
    for f in ix.all_functions:
        txt = ast.unparse(f.node)
        if not any(k in txt for k in FOREST_FIELDS) and "transforms" not in txt:
            continue
        cls = f.cls if (f.cls is not None and f.parent is None) else None
        cfg, ws, an = _direct_forest_writes(ef, f, cls)
        if ws:
            writers.append((f, cfg, ws, an))
    run.floor("functions writing forest state directly", len(writers), 4)
    run.analysed["forest_writers"] = [f"{f.module.name}:{f.qualname}" for f, _, _, _ in writers]

    # which in-repo calls reset the hash on entry (summary used for callers)
    resets_on_entry = set()
    for name, m in EF.methods.items():
        cfg = CFG(m.node, exceptions=False)
        rs = [n for n, st in cfg.stmt.items() if st is not None and cfg.kind[n] == "stmt" and _is_hash_reset(st)]
        writes = _direct_forest_writes(ef, m, EF)[1]
        # a callee counts as "resets the hash" only if the reset lies on EVERY path through it (early returns included)
        if rs and writes and all(any(cfg.dominates(r, w) for r in rs) for w in writes) and any(cfg.dominates(r, cfg.exit) for r in rs):
            resets_on_entry.add(name)
        elif rs and writes:
            # resets cover its own writes but not every exit: callers may not rely on it
            if name == "remove_node":
                # remove_node returns early only when the node does not exist (nothing written, nothing for a caller to add)
                resets_on_entry.add(name)

    for f, cfg, ws, an in writers:
        spec = f"{f.module.name}:{f.qualname}"
        inside = f.cls is EF
        if f.name == "__init__" and inside:
            run.instance("R2", f.where, "constructor of the forest", True, nontrivial=False)
            continue
        # ---- R2
        ok2 = inside or spec in EXTERNAL_WRITERS
        run.instance("R2", f.where, f"writes forest fields {sorted({p for w in ws.values() for (_, path, _, _) in w for p in path if p in FOREST_FIELDS})}"
                     + (f": {EXTERNAL_WRITERS.get(spec, 'method of EnforcedForest')}" if ok2 else ""), ok2)
        if not ok2:
            first = next(iter(ws.values()))[0]
            run.violation("R2", f.where,
                          f"`{first[3]}` writes scene-graph forest state from outside the classified writer set: the forest's hash memo "
                          f"and path memo are maintained only by the known writers", key=key_of("C09-R2", spec))
        # ---- R1
        resets = [n for n, st in cfg.stmt.items() if st is not None and cfg.kind[n] == "stmt" and _is_hash_reset(st)]
        # calls that perform the reset themselves: add_edge / remove_node / update (through add_edge) / clear
        reset_calls = []
        hash_reads = []
        for n, st in cfg.stmt.items():
            if st is None or cfg.kind[n] == "join":
                continue
            exprs = [st] if cfg.kind[n] == "stmt" else [e for e in own_exprs(st) if isinstance(e, ast.AST)]
            for e in exprs:
                for c in ast.walk(e):
                    if isinstance(c, ast.Call) and isinstance(c.func, ast.Attribute):
                        if c.func.attr in resets_on_entry or (c.func.attr == "update" and "graph" in ast.unparse(c.func.value)) \
                                or (c.func.attr == "update" and ast.unparse(c.func.value) == "self" and f.cls is SG):
                            reset_calls.append(n)
                        recv_txt = ast.unparse(c.func.value)
                        graphish = recv_txt == "self" and f.cls is SG or "graph" in recv_txt or recv_txt.endswith("transforms")
                        if c.func.attr == "__hash__" or (c.func.attr in ("get", "to_flattened", "to_gltf", "to_edgelist") and graphish) or \
                                (isinstance(c.func.value, ast.Attribute) and c.func.value.attr == "_cache" and c.func.attr in ("verify",)):
                            hash_reads.append(n)
                    if isinstance(c, ast.Call) and getattr(c.func, "id", "") == "hash":
                        hash_reads.append(n)
                    if isinstance(c, ast.Subscript) and isinstance(c.value, ast.Attribute) and c.value.attr == "_cache" \
                            and isinstance(c.ctx, ast.Load) and f.cls is SG:
                        hash_reads.append(n)
                    if isinstance(c, ast.Compare) and any(isinstance(o, (ast.In, ast.NotIn)) for o in c.ops) and f.cls is SG \
                            and any(isinstance(x, ast.Attribute) and x.attr == "_cache" and ast.unparse(x.value) == "self" for x in c.comparators):
                        hash_reads.append(n)
        all_resets = resets + reset_calls
        for w, infos in sorted(ws.items()):
            text = infos[0][3] or ast.unparse(cfg.stmt[w])[:80]
            ok = False
            how = ""
            for r in all_resets:
                if r != w and cfg.dominates(r, w):
                    # no hash read on a path r -> ... -> w
                    between = [h for h in hash_reads if h not in (r,) and nx.has_path(cfg.g, r, h) and h != w and nx.has_path(cfg.g, h, w)]
                    if not between:
                        ok, how = True, "reset dominates the write, no hash read in between"
                        break
                if r == w and r in reset_calls:
                    ok, how = True, "the statement is itself a resetting call"
                    break
            if not ok:
                for r in all_resets:
                    if r != w and cfg.postdominates(r, w):
                        ok, how = True, "reset follows on every path to the exit"
                        break
            run.instance("R1", f.where, f"`{text}`: {how or 'no reset'}", ok)
            if not ok:
                run.violation("R1", f"{f.module.rel}:{getattr(cfg.stmt[w], 'lineno', 0)} {f.qualname}",
                              f"`{text}` changes forest state but `_hash = None` neither precedes it (without a hash read in between) "
                              f"nor follows it on every path: the memoised hash keeps certifying SceneGraph's resolved transforms",
                              key=key_of("C09-R1", spec, text))

    # replacers of the forest object
    for f in ix.all_functions:
        for st in ast.walk(f.node):
            if isinstance(st, ast.Assign) and isinstance(st.targets[0], ast.Attribute) and st.targets[0].attr == "transforms" \
                    and not isinstance(st.value, ast.Constant):
                tgt = ast.unparse(st.targets[0].value)
                spec = f"{f.module.name}:{f.qualname}"
                if "graph" in tgt or f.cls is SG or tgt in ("copied",):
                    ok = spec in FOREST_REPLACERS
                    run.instance("R2", f.where, f"replaces a forest object (`{ast.unparse(st)[:60]}`)", ok)
                    if not ok:
                        run.violation("R2", f"{f.module.rel}:{st.lineno} {f.qualname}",
                                      f"`{ast.unparse(st)[:70]}` swaps the forest of a scene graph outside construction/copy/clear: "
                                      f"the graph's transform memo is keyed on the old forest's hash", key=key_of("C09-R2", "replace", spec))
    # SceneGraph.clear must also clear its memo
    clr = ix.func("trimesh.scene.transforms:SceneGraph.clear")
    txt = ast.unparse(clr.node)
    ok = "self._cache.clear()" in txt and "self.transforms = EnforcedForest()" in txt
    run.instance("R2", clr.where, "clear(): new forest and memo cleared", ok)
    if not ok:
        run.violation("R2", clr.where, "SceneGraph.clear replaces the forest without clearing the transform memo", key=key_of("C09-R2", "clear"))

    # ------------------------------------------------------------------ R3 / R4 on EnforcedForest.add_edge / remove_node
    _topology(run, ix, EF)

    # ------------------------------------------------------------------ R5
    _graph_memo(run, ix, SG, EF)

    # ------------------------------------------------------------------ R6 hash coverage
    _forest_hash(run, ix, EF)

    # ------------------------------------------------------------------ R7
    raw_reads(run, ix, ef, "R7", "C09", module_filter=lambda m: m.startswith("trimesh.scene"), floor=0)
    # a graph copy must not receive memo entries at all unless verified: check explicitly that copy() stores nothing into `copied._cache`
    cp = ix.func("trimesh.scene.transforms:SceneGraph.copy")
    stores = [c for c in ast.walk(cp.node) if isinstance(c, ast.Call) and isinstance(c.func, ast.Attribute)
              and c.func.attr in ("update", "__setitem__") and "_cache" in ast.unparse(c.func.value)]
    stores += [a for a in ast.walk(cp.node) if isinstance(a, ast.Assign) and "_cache" in ast.unparse(a.targets[0])]
    verified = "self._cache.verify()" in ast.unparse(cp.node)
    ok = not stores or verified
    run.instance("R7", cp.where, f"copy() hands over memo entries: {bool(stores)}; source verified first: {verified}", ok)
    if not ok:
        run.violation("R7", cp.where, "SceneGraph.copy fills the copy's transform memo from the original's without verifying it first: "
                                      "entries resolved before the last edge update are certified for the copy", key=key_of("C09-R7", "copy"))
    # ------------------------------------------------------------------ R8 the forest owns its matrices
    run.rule("R8", "the matrix stored on an edge is the forest's own array: kwargs_to_matrix never returns (a view of) one of its arguments and SceneGraph.update stores exactly its result")
    from ..provenance import Prov
    ktm = ix.func("trimesh.scene.transforms:kwargs_to_matrix")
    sm = ef.summary(ktm, None)
    aliased = sorted({f"{r.root}{'.' + '.'.join(r.path) if r.path else ''}" for r in sm.ret if getattr(r, "root", None) in ktm.params})
    ok = not aliased
    run.instance("R8", ktm.where, f"kwargs_to_matrix: return value may alias its parameters: {aliased or 'no (fresh array on every path)'}", ok)
    if not ok:
        run.violation("R8", ktm.where, f"kwargs_to_matrix can return (a view of) its argument {aliased}: the edge then shares the caller's array, and a later in-place edit by the "
                                       f"caller changes the edge without resetting the forest hash - memoised and fresh lookups disagree",
                      key=key_of("C09-R8", "kwargs_to_matrix", "alias"))
    up = ix.func("trimesh.scene.transforms:SceneGraph.update")
    pu = Prov(ix, up)
    st_m = [(st, st.value) for st in ast.walk(up.node) if isinstance(st, ast.Assign) and ast.unparse(st.targets[0]) in ("attr['matrix']", 'attr["matrix"]')]
    ok = len(st_m) == 1 and isinstance(st_m[0][1], ast.Call) and pu.callee(st_m[0][1].func) == "trimesh.scene.transforms.kwargs_to_matrix"
    run.instance("R8", up.where, "SceneGraph.update stores kwargs_to_matrix(**kwargs) as the edge matrix", ok)
    if not ok:
        run.violation("R8", up.where, "SceneGraph.update no longer stores the result of kwargs_to_matrix as the edge matrix (the caller's own array may be stored)",
                      key=key_of("C09-R8", "update", "store"))
    run.assume("exceptions between a write and a later reset are not modelled (a raising dict operation leaves the forest unchanged)")
    from ..scenerecert import recert_rule
    recert_rule(run, ix, "R9", "C09")
    return {
        "explanation": "Effect analysis finds every function that stores into EnforcedForest.parents/edge_data/node_data directly, "
        "through local aliases or loop targets; on each writer's CFG the hash reset dominates or post-dominates the write, topology "
        "changes clear the path memo, re-parenting and node removal keep parents and edge_data coupled; the graph memo is keyed on "
        "the forest hash, stores read-only matrices and skips updates only under an absolute tolerance. Decides the representation "
        "invariants behind `get` for all histories; the matrix product and kwargs_to_matrix numerics are not decided.",
    }


def _topology(run, ix, EF):
    add = EF.methods.get("add_edge")
    rem = EF.methods.get("remove_node")
    if add is None or rem is None:
        raise AnalysisError("anchor vanished: EnforcedForest.add_edge / remove_node")
    # ---- add_edge
    cfg = CFG(add.node, exceptions=False)
    u, v = add.params[1], add.params[2]
    par_stores = [n for n, st in cfg.stmt.items() if st is not None and cfg.kind[n] == "stmt" and isinstance(st, ast.Assign)
                  and ast.unparse(st.targets[0]).replace(" ", "") == f"self.parents[{v}]"]
    edge_stores = [n for n, st in cfg.stmt.items() if st is not None and cfg.kind[n] == "stmt" and isinstance(st, ast.Assign)
                   and ast.unparse(st.targets[0]).replace(" ", "").replace("(", "").replace(")", "") == f"self.edge_data[{u},{v}]"]
    if not par_stores or not edge_stores:
        raise AnalysisError("anchor vanished: parents[v] = u / edge_data[(u, v)] = kwargs in add_edge")
    # R3: memo cleared under `(u, v) not in self.edge_data`, and that test dominates the stores
    # on every path that stores the edge, either the key was already present, or the memo is cleared on that path
    from ..pathsum import summaries

    def _norm(t):
        return t.replace(" ", "").replace("(", "").replace(")", "")

    present = _norm(f"({u},{v}) in self.edge_data")
    ok3, n_paths = True, 0
    for ps in summaries(add.node):
        idx = [i for i, st in enumerate(ps.stmts) if isinstance(st, ast.Assign)
               and _norm(ast.unparse(st.targets[0])) in (_norm(f"self.edge_data[{u},{v}]"), _norm(f"self.parents[{v}]"))]
        if not idx:
            continue
        n_paths += 1
        known = any(_norm(t) == present and pol for t, pol in ps.conds)
        cleared = any(_is_memo_clear(st) for st in ps.stmts)
        if not (known or cleared):
            ok3 = False
    ok3 = ok3 and n_paths > 0
    run.instance("R3", add.where, "add_edge clears the path memo whenever the edge key is new", ok3)
    if not ok3:
        run.violation("R3", add.where, "add_edge can insert a new parents/edge_data key without clearing the memoised shortest paths",
                      key=key_of("C09-R3", "add_edge"))
    # R4: re-parenting
    ok4 = False
    for n, st in cfg.stmt.items():
        if st is None or cfg.kind[n] != "stmt":
            continue
        txt = ast.unparse(st).replace(" ", "")
        # self.edge_data.pop((old, v), None) / del self.edge_data[(old, v)] with old derived from self.parents
        for c in ast.walk(st):
            key = None
            if isinstance(c, ast.Call) and isinstance(c.func, ast.Attribute) and c.func.attr == "pop" \
                    and ast.unparse(c.func.value) == "self.edge_data" and c.args:
                key = c.args[0]
            if isinstance(c, ast.Delete):
                for t in c.targets:
                    if isinstance(t, ast.Subscript) and ast.unparse(t.value) == "self.edge_data":
                        key = t.slice
            if isinstance(key, ast.Tuple) and len(key.elts) == 2 and ast.unparse(key.elts[1]) == v:
                first = key.elts[0]
                src = ast.unparse(first)
                derived = "self.parents" in src
                if isinstance(first, ast.Name):
                    for a in ast.walk(add.node):
                        if isinstance(a, ast.Assign) and isinstance(a.targets[0], ast.Name) and a.targets[0].id == first.id \
                                and "self.parents" in ast.unparse(a.value) and v in ast.unparse(a.value):
                            derived = True
                if derived and all(not nx.has_path(cfg.g, s, n) for s in par_stores):
                    ok4 = True
    run.instance("R4", add.where, "re-parenting: the edge (old parent, v) is removed before parents[v] is overwritten", ok4)
    if not ok4:
        run.violation("R4", add.where,
                      f"add_edge overwrites parents[{v}] without removing the edge from the previous parent: edge_data keeps "
                      f"(old parent, {v}) and `get` keeps resolving transforms along an edge that is no longer part of the forest",
                      key=key_of("C09-R4", "reparent"))
    # ---- remove_node
    cfg = CFG(rem.node, exceptions=False)
    txt = ast.unparse(rem.node).replace(" ", "")
    p = rem.params[1]
    clears = [n for n, st in cfg.stmt.items() if st is not None and cfg.kind[n] == "stmt" and _is_memo_clear(st)]
    dels = [n for n, st in cfg.stmt.items() if st is not None and cfg.kind[n] == "stmt" and isinstance(st, ast.Delete)]
    ok3 = bool(clears) and bool(dels) and all(any(cfg.dominates(c, d) for c in clears) for d in dels)
    run.instance("R3", rem.where, "remove_node clears the path memo before deleting", ok3)
    if not ok3:
        run.violation("R3", rem.where, "remove_node deletes nodes/edges without clearing the memoised shortest paths", key=key_of("C09-R3", "remove_node"))
    # what is removed from each of the three dicts, by role (del D[k] / D.pop(k); k the removed node itself, or every element
    # of a selection of D's own keys filtered by "mentions the node"): sa/accum.py describes the selections
    from ..accum import contributions

    sel = {}
    for c in contributions(rem.node):
        sel.setdefault(id(c.node), c)
    list_defs = {}
    for st in ast.walk(rem.node):
        if isinstance(st, ast.Assign) and isinstance(st.targets[0], ast.Name) and id(st.value) in sel:
            list_defs[st.targets[0].id] = sel[id(st.value)]
    removed = {"parents": set(), "edge_data": set(), "node_data": set()}

    def removal(dname, key, loop):
        k = ast.unparse(key)
        if k == p:
            removed[dname].add("self")
            return
        # `for x in L: del D[x]` with L a filtered selection of D's keys
        if loop is not None and isinstance(loop.target, ast.Name) and loop.target.id == k:
            c = list_defs.get(ast.unparse(loop.iter)) or sel.get(id(loop.iter))
            if c is not None:
                flt = {(t.replace(" ", ""), pol) for t, pol in c.filters}
                if dname == "parents" and c.iter.replace(" ", "") in ("self.parents.items()",) and c.elt == "_1" and flt == {(f"_2=={p}", True)}:
                    removed[dname].add("children")
                if dname == "edge_data" and c.iter.replace(" ", "") in ("self.edge_data", "self.edge_data.keys()", "list(self.edge_data)", "list(self.edge_data.keys())") \
                        and c.elt.replace(" ", "") in ("(_1,_2)", "_1,_2") and flt in ({(f"_1=={p}or_2=={p}", True)}, {(f"_2=={p}or_1=={p}", True)}, {(f"{p}in(_1,_2)", True)}):
                    removed[dname].add("touching")
                if dname == "edge_data" and c.targets and len(c.targets) == 1 and c.elt == "_1" and flt == {(f"{p}in_1", True)}:
                    removed[dname].add("touching")

    def walk(body, loop):
        for st in body:
            if isinstance(st, ast.Delete):
                for t in st.targets:
                    if isinstance(t, ast.Subscript) and isinstance(t.value, ast.Attribute) and ast.unparse(t.value.value) == "self" and t.value.attr in removed:
                        removal(t.value.attr, t.slice, loop)
            for c_ in ast.walk(st) if not isinstance(st, (ast.For, ast.While, ast.If, ast.With, ast.Try)) else []:
                if isinstance(c_, ast.Call) and isinstance(c_.func, ast.Attribute) and c_.func.attr == "pop" and isinstance(c_.func.value, ast.Attribute) \
                        and ast.unparse(c_.func.value.value) == "self" and c_.func.value.attr in removed and c_.args:
                    removal(c_.func.value.attr, c_.args[0], loop)
            if isinstance(st, ast.For):
                walk(st.body, st)
            elif isinstance(st, (ast.If, ast.With, ast.Try, ast.While)):
                for fld in ("body", "orelse", "finalbody"):
                    walk(getattr(st, fld, []) or [], loop)

    walk(rem.node.body, None)
    ok4 = removed["node_data"] >= {"self"} and removed["parents"] >= {"self", "children"} and removed["edge_data"] >= {"touching"}
    run.instance("R4", rem.where, f"remove_node deletes the node, its parent link, its children's links and every edge touching it ({ {k: sorted(v) for k, v in removed.items()} })", ok4)
    if not ok4:
        run.violation("R4", rem.where, "remove_node leaves parent links or edges that refer to the removed node", key=key_of("C09-R4", "remove_node"))
    # shortest_path memo is only consulted with keys that include both end points
    sp = EF.methods.get("shortest_path")
    txt = ast.unparse(sp.node)
    ok = "self._cache[u, v] = " in txt or "self._cache[(u, v)] = " in txt
    run.instance("R3", sp.where, "shortest_path memoises under the (u, v) key", ok)
    if not ok:
        run.violation("R3", sp.where, "shortest_path memo key changed", key=key_of("C09-R3", "shortest_path-key"))


def _graph_memo(run, ix, SG, EF):
    init = SG.methods["__init__"]
    txt = ast.unparse(init.node)
    ok = "self._cache = caching.Cache(self.__hash__)" in txt or "Cache(id_function=self.__hash__)" in txt
    run.instance("R5", init.where, "SceneGraph memo keyed on self.__hash__ (the forest hash)", ok)
    if not ok:
        run.violation("R5", init.where, "SceneGraph's transform memo is not keyed on the forest hash", key=key_of("C09-R5", "key"))
    get = SG.methods["get"]
    cfg = CFG(get.node, exceptions=False)
    stores = [n for n, st in cfg.stmt.items() if st is not None and cfg.kind[n] == "stmt" and isinstance(st, ast.Assign)
              and ast.unparse(st.targets[0]).startswith("self._cache[")]
    ro = [n for n, st in cfg.stmt.items() if st is not None and cfg.kind[n] == "stmt" and isinstance(st, ast.Assign)
          and "flags" in ast.unparse(st.targets[0]) and isinstance(st.value, ast.Constant) and st.value.value is False]
    ok = bool(stores) and all(any(cfg.dominates(r, s) for r in ro) for s in stores)
    run.instance("R5", get.where, "matrix made read-only before it is memoised and returned", ok)
    if not ok:
        run.violation("R5", get.where, "SceneGraph.get memoises a writable matrix: an in-place edit by a caller changes later answers without any hash moving",
                      key=key_of("C09-R5", "readonly"))
    # memo lookups go through the Cache API (verify): `key in self._cache` / `self._cache[key]`
    txt = ast.unparse(get.node)
    # private methods / module helpers the lookup hands its work to are read as part of it (`self._compose_path(...)`)
    for c_ in ast.walk(get.node):
        if isinstance(c_, ast.Call) and isinstance(c_.func, ast.Attribute) and isinstance(c_.func.value, ast.Name) and c_.func.value.id == "self" \
                and c_.func.attr.startswith("_") and c_.func.attr in SG.methods:
            txt += "\n" + ast.unparse(SG.methods[c_.func.attr].node)
        if isinstance(c_, ast.Call) and isinstance(c_.func, ast.Name) and c_.func.id.startswith("_") and c_.func.id in get.module.functions:
            txt += "\n" + ast.unparse(get.module.functions[c_.func.id].node)
    ok = "if key in self._cache:" in txt and "return self._cache[key]" in txt and "self._cache.cache" not in txt
    run.instance("R5", get.where, "memo lookup goes through the verifying Cache API", ok)
    if not ok:
        run.violation("R5", get.where, "SceneGraph.get reads its memo without verification", key=key_of("C09-R5", "lookup"))
    # inverted traversal and ordering: forward edge (u, v) used as is, backward edge inverted
    ok = "matrices.append(forward['matrix'])" in txt and "matrices.append(np.linalg.inv(backward['matrix']))" in txt \
        and "backward = data[v, u]" in txt.replace("(v, u)", "v, u") and "forward = data.get((u, v))" in txt
    run.instance("R5", get.where, "edges traversed parent->child are used as stored, child->parent inverted", ok)
    if not ok:
        run.violation("R5", get.where, "SceneGraph.get no longer inverts exactly the edges it traverses backwards", key=key_of("C09-R5", "direction"))
    ok = "util.multi_dot(matrices)" in txt and "zip(path[:-1], path[1:])" in txt
    run.instance("R5", get.where, "matrices multiplied in path order", ok)
    if not ok:
        run.violation("R5", get.where, "SceneGraph.get does not multiply the edge matrices in path order", key=key_of("C09-R5", "order"))
    # the no-change early exit of add_edge
    add = EF.methods["add_edge"]
    for st in ast.walk(add.node):
        if isinstance(st, ast.If) and any(isinstance(x, ast.Return) and isinstance(x.value, ast.Constant) and x.value.value is False for x in st.body):
            calls = [c for c in ast.walk(st.test) if isinstance(c, ast.Call) and ast.unparse(c.func).endswith("allclose")]
            subject = ast.unparse(st.test)
            if not calls:
                # the comparison may live in a private helper of the module (`if _same_edge(old, new): return False`)
                for c in ast.walk(st.test):
                    if isinstance(c, ast.Call) and isinstance(c.func, ast.Name) and c.func.id in add.module.functions:
                        h_ = add.module.functions[c.func.id]
                        calls += [x for x in ast.walk(h_.node) if isinstance(x, ast.Call) and ast.unparse(x.func).endswith("allclose")]
                        subject += " " + ast.unparse(h_.node)
            if not calls:
                run.instance("R5", add.where, f"no-change exit `{ast.unparse(st.test)[:60]}`: no closeness test of a recognised form - NOT decided", True, nontrivial=False)
                run.assume("add_edge: no-change exit not recognised")
                continue
            ok = True
            why = []
            for c in calls:
                fn = ast.unparse(c.func)
                if fn == "util.allclose":
                    tol_ = c.args[2] if len(c.args) > 2 else next((k.value for k in c.keywords if k.arg == "atol"), None)
                    try:
                        okc = tol_ is not None and float(ast.literal_eval(tol_)) <= 1e-8
                    except Exception:
                        okc = False
                else:
                    kw = {k.arg: k.value for k in c.keywords}
                    try:
                        okc = "rtol" in kw and float(ast.literal_eval(kw["rtol"])) == 0.0 and "atol" in kw and float(ast.literal_eval(kw["atol"])) <= 1e-8
                    except Exception:
                        okc = False
                ok = ok and okc
                why.append(f"{ast.unparse(c)[:70]} -> {'absolute <= 1e-8' if okc else 'relative or loose tolerance'}")
            import re as _re
            geom = _re.search(r"\w+\.get\('geometry'\) == \w+\.get\('geometry'\)", subject) is not None
            ok = ok and bool(calls) and geom
            run.instance("R5", add.where, f"no-change exit: {why}; geometry compared: {geom}", ok)
            if not ok:
                run.violation("R5", add.where,
                              "add_edge skips an update when the new matrix is 'close' under a relative or loose tolerance (or without comparing "
                              "geometry): a changed edge is silently dropped and every dependent query keeps the old transform",
                              key=key_of("C09-R5", "nochange-tolerance"))


def _forest_hash(run, ix, EF):
    h = EF.methods.get("__hash__")
    if h is None:
        raise AnalysisError("anchor vanished: EnforcedForest.__hash__")
    txt = ast.unparse(h.node)
    parts = {
        "edge keys + edge geometry": "for k, v in self.edge_data.items()" in txt and "str(hash(k)) + v.get('geometry', '')" in txt,
        "node keys + node geometry": "for k, v in self.node_data.items()" in txt and "str(k) + v.get('geometry', '')" in txt,
        "every edge matrix": "v['matrix'].tobytes() for v in self.edge_data.values() if 'matrix' in v" in txt,
    }
    for what, ok in parts.items():
        run.instance("R6", h.where, f"hash covers {what}", ok)
        if not ok:
            run.violation("R6", h.where, f"EnforcedForest.__hash__ no longer covers {what}", key=key_of("C09-R6", what))
    cfg = CFG(h.node, exceptions=False)
    ok = "hashed = getattr(self, '_hash', None)" in txt and "if hashed is not None:" in txt and "self._hash = hashed" in txt
    run.instance("R6", h.where, "memo returned only when not reset; stored after computing", ok)
    if not ok:
        run.violation("R6", h.where, "EnforcedForest.__hash__ dirty protocol changed", key=key_of("C09-R6", "protocol"))
