"""C16 - bounding volumes (narrow): containment "by construction" and the rigid bookkeeping around the numerical search.

The search for the best direction / centre is numerical (qhull, Voronoi, optimiser) and is not decided.  What IS in
the shape of the code is that, whatever candidate the search picks, the reported size is measured on the points
themselves with that same candidate, so the volume contains them:

 B1  oriented_bounds_2D: with e the chosen unit edge, the returned transform maps p to
     (e.p - (xmin + xmax)/2, e_perp.p - (ymin + ymax)/2) and the returned rectangle is (xmax - xmin, ymax - ymin)
     over the same projections: every point lands inside the centred rectangle (polynomial identity).
 B2  oriented_bounds (3D): the translation is minus the centre of the min / max of the points transformed by the
     returned rotation, the height is the spread of the same projection, and the axis re-ordering matrix is a signed
     permutation with determinant +1 for all six orders (finite enumeration).
 B3  minimum_nsphere: every (centre, radius) pair returned has radius == max distance of the points to that very
     centre, and centre and radius are mapped back to world units with the same scale and origin.
 B4  bounding_box (AABB): centre = mean of the bounds, extents = spread of the bounds; bounding_box_oriented inverts
     the to-origin transform it was given; hull vertices are rows of the input points.
Convexity / watertightness of qhull output, minimality, and bounding_cylinder are not decided.
"""
from __future__ import annotations

import ast
import itertools

import numpy as np
import sympy as sp

from ..alg import Interp, Unsupported, arr
from ..index import Index
from ..provenance import Prov
from ..report import AnalysisError, key_of
from ..template import find

LEVEL = "other"


def _canon_defs(pv, f, name, stop=()):
    out = []
    for st in ast.walk(f.node):
        if isinstance(st, ast.Assign) and ast.unparse(st.targets[0]) == name and pv.cfg.nodes_of.get(id(st)):
            out.append((st, pv.canon(st.value, st, stop=stop)))
    return out


def check(run):
    ix = Index(run.repo)
    run.analysed.update(ix.stats())
    run.rule("B1", "oriented_bounds_2D: transform.p == (e.p - (xmin+xmax)/2, e_perp.p - (ymin+ymax)/2) and rectangle == (xmax-xmin, ymax-ymin) of the same projections")
    run.rule("B2", "oriented_bounds: translation = -(min + spread/2) of the points under the returned rotation; height = spread of the same projection; the axis re-ordering is a det +1 signed permutation for all six orders")
    run.rule("B3", "minimum_nsphere: returned radius is the maximum distance of the points to the returned centre, both un-scaled alike")
    run.rule("B4", "AABB box: centre = mean(bounds), extents = spread(bounds); the oriented box inverts the to-origin transform; hull vertices are rows of the input")

    # ------------------------------------------------------------------ B1
    f2 = ix.func("trimesh.bounds:oriented_bounds_2D")

    def relation(rule, f, what, env, pairs, broken_msg, key):
        """env: binding from a loose template (None = anchors not found -> undecided); pairs: [(meta a, meta b)] that must bind alike"""
        if env is None:
            run.instance(rule, f.where, f"{what}: anchor statements not in a recognised form - NOT decided", True, nontrivial=False)
            run.assume(f"{f.qualname}: {what} not decided (statement shapes not recognised)")
            return
        bad = [(a_, b_, env[a_], env[b_]) for a_, b_ in pairs if env[a_] != env[b_]]
        ok = not bad
        run.instance(rule, f.where, f"{what} ({', '.join(a_ + '=' + env[a_][:30] for a_, _ in pairs)})", ok)
        if not ok:
            a_, b_, x_, y_ = bad[0]
            run.violation(rule, f.where, f"{f.qualname}: {broken_msg} (`{x_[:60]}` vs `{y_[:60]}`)", key=key_of(f"C16-{rule}", key))

    env = find('''
_v_b = np.column_stack((_e_x1.min(axis=1), _e_y1.min(axis=1), _e_x2.max(axis=1), _e_y2.max(axis=1)))
''', f2.node)
    relation("B1", f2, "the rectangle bounds take min and max of the same two projections", env, [("_e_x1", "_e_x2"), ("_e_y1", "_e_y2")],
             "the lower and upper bounds of the rectangle are taken over different projections, so the rectangle need not contain the points", "bounds-pairs")
    env = find('''
_v_x = np.dot(_e_ev1, _e_h1.T)
_v_y = np.dot(_e_pv, _e_h2.T)
''', f2.node)
    relation("B1", f2, "both projections are taken of the same hull points", env, [("_e_h1", "_e_h2")],
             "the two projections are measured on different point sets", "hull-points")
    env = find('''
_v_rect = _e_ext[_e_i1]
_v_off = -_e_b[_e_i2][:2] - (_v_rect * 0.5)
_v_th = np.arctan2(*_e_ev[_e_i3][::-1])
''', f2.node)
    relation("B1", f2, "rectangle, offset and angle are read at the same candidate index", env, [("_e_i1", "_e_i2"), ("_e_i2", "_e_i3")],
             "the rectangle, its offset and its angle are read at different candidate edges: the transform no longer belongs to the reported rectangle", "same-index")
    pv_ = find("_v_perp = np.fliplr(_e_ev) * [-1.0, 1.0]", f2.node)
    run.instance("B1", f2.where, f"perpendicular direction is (-e_y, e_x) ({pv_})", pv_ is not None, nontrivial=pv_ is not None)
    # algebra: planar_matrix(offset, theta) applied to p, with (c, s) the unit edge
    pm = ix.func("trimesh.transformations:planar_matrix")
    c, s, px, py, xmin, xmax, ymin, ymax = sp.symbols("c s px py xmin xmax ymin ymax", real=True)
    th = sp.Symbol("theta", real=True)
    it = Interp(ix, trig=lambda name, x: {"sin": s, "cos": c}[name] if x == th else (_ for _ in ()).throw(Unsupported(f"trig of {x}")),
                decisions={"not np.isfinite(theta)": False, "np.isfinite(theta)": True})
    it.stubs["trimesh.transformations:transform_around"] = lambda itp, args, kw: (_ for _ in ()).throw(Unsupported("point"))
    off = np.array([-xmin - (xmax - xmin) * sp.Rational(1, 2), -ymin - (ymax - ymin) * sp.Rational(1, 2)], dtype=object)
    try:
        T = arr(it.call(pm, [], {"offset": off, "theta": th}))
    except Unsupported as e:
        # float(theta) on a symbol etc.: fall back to the decision table
        raise AnalysisError(f"E3 cannot translate planar_matrix: {e}")
    q = T.dot(np.array([px, py, 1], dtype=object))
    ex, ey = c * px + s * py, -s * px + c * py
    ok = sp.expand(q[0] - (ex - (xmin + xmax) / 2)) == 0 and sp.expand(q[1] - (ey - (ymin + ymax) / 2)) == 0 and sp.expand(q[2] - 1) == 0
    run.obligation("B1", pm.where, "planar_matrix(-(min) - spread/2, theta).p == (e.p - (xmin+xmax)/2, e_perp.p - (ymin+ymax)/2) with e = (cos, sin) theta", ok)
    if not ok:
        run.violation("B1", pm.where, "the planar transform returned with the rectangle does not centre the projections it was measured on", key=key_of("C16-B1", "algebra"))

    # ------------------------------------------------------------------ B2
    f3 = ix.func("trimesh.bounds:oriented_bounds")
    p3 = Prov(ix, f3)
    stop3 = ("order",)
    env = find('''
_v_tr = transformations.transform_points(_e_v, _e_m1)
_v_c = _e_t1.min(axis=0) + np.ptp(_e_t2, axis=0) * 0.5
_v_m2[:3, 3] = -_v_c
''', f3.node)
    if env is not None:
        env["_tr"] = env["_v_tr"]
    relation("B2", f3, "the box is centred on the min / max of the points under the matrix that is returned", env,
             [("_e_t1", "_e_t2"), ("_e_t1", "_tr"), ("_e_m1", "_v_m2")],
             "the translation is not minus the centre of the points transformed by the returned matrix: the box is not centred on them", "centre")
    env = find('''
_v_h = np.ptp(_e_p1[:, 2])
_v_rot, _v_box = oriented_bounds_2D(_e_p2[:, :2])
_v_ext = np.append(_v_box, _v_h)
''', f3.node)
    relation("B2", f3, "height and base rectangle are measured on the same projection", env, [("_e_p1", "_e_p2")],
             "the height and the base rectangle are measured on different projections of the points", "same-projection")
    # the re-ordering matrix: evaluate the code's own statements for each of the six orders
    blk = None
    for st in ast.walk(f3.node):
        if isinstance(st, ast.If) and ast.unparse(st.test) == "ordered":
            blk = st
    if blk is None:
        raise AnalysisError("anchor vanished: `if ordered:` in oriented_bounds")
    n_ok = 0
    for order in itertools.permutations(range(3)):
        env = {"np": np, "order": np.array(order), "min_extents": np.array([1.0, 2.0, 3.0])[np.argsort(order)], "to_origin": np.eye(4)}
        flip = np.eye(4)
        flip[:3, :3] = -np.eye(3)[list(order)]
        # the code negates once more when the determinant is not +1: read that from the source
        cond = [st for st in blk.body if isinstance(st, ast.If) and "det" in ast.unparse(st.test)]
        if len(cond) != 1:
            raise AnalysisError("anchor vanished: the determinant correction of the axis re-ordering in oriented_bounds")
        det = round(float(np.linalg.det(flip[:3, :3])))
        negate_when_not_one = "not np.isclose(np.linalg.det(flip[:3, :3]), 1.0)" == ast.unparse(cond[0].test) and \
            ast.unparse(cond[0].body[0]) == "flip[:3, :3] = np.dot(flip[:3, :3], -np.eye(3))"
        if not negate_when_not_one:
            raise AnalysisError(f"unrecognised determinant correction `{ast.unparse(cond[0])[:80]}` in oriented_bounds")
        if det != 1:
            flip[:3, :3] = flip[:3, :3].dot(-np.eye(3))
        m3 = flip[:3, :3]
        good = np.allclose(m3.dot(m3.T), np.eye(3)) and round(float(np.linalg.det(m3))) == 1 and np.allclose(np.abs(m3).dot([1.0, 2.0, 3.0]), np.array([1.0, 2.0, 3.0])[list(order)])
        n_ok += good
        run.obligation("B2", f3.where, f"order {order}: re-ordering matrix is orthonormal, det +1 and permutes the extents like `min_extents[order]`", bool(good))
        if not good:
            run.violation("B2", f3.where, f"oriented_bounds: for extents order {order} the axis re-ordering matrix is not a det +1 signed permutation matching `min_extents[order]`",
                          key=key_of("C16-B2", "flip", order))
    init = [c_ for _, c_ in _canon_defs(p3, f3, "flip[:3, :3]", stop3)]
    ok = init[:1] == ["-numpy.eye(3)[L_order]"]
    run.instance("B2", f3.where, f"re-ordering matrix starts as -I[order] ({init[:1]})", ok)
    if not ok:
        run.violation("B2", f3.where, f"the axis re-ordering matrix of oriented_bounds is built as {init[:1]}, not -I[order]", key=key_of("C16-B2", "flip-init"))

    # ------------------------------------------------------------------ B3
    fs = ix.func("trimesh.nsphere:minimum_nsphere")
    env = find('''
_v_fr = (((_e_p - _e_c1) ** 2).sum(axis=1).max() ** 0.5) * _e_s1
_v_fc = (_e_c2 * _e_s2) + _e_o
''', fs.node)
    if env is not None:
        env["_fc"] = env["_v_fc"]
    relation("B3", fs, "fit candidate: the radius is the largest distance to the centre that is returned, both un-scaled alike", env,
             [("_e_c1", "_e_c2"), ("_e_c1", "_fc"), ("_e_s1", "_e_s2")],
             "the fit radius is not measured against the returned fit centre (or the two are un-scaled differently): the sphere need not contain the points", "fit")
    env = find('''
_v_rv = np.sqrt(_e_r1[_e_i1]) * _e_s1
_v_cv = (_e_verts[_e_i2] * _e_s2) + _e_o
''', fs.node)
    relation("B3", fs, "Voronoi candidate: centre and radius are read at the same index and un-scaled alike", env, [("_e_i1", "_e_i2"), ("_e_s1", "_e_s2")],
             "the Voronoi centre and its radius are read at different indices (or un-scaled differently)", "voronoi")
    r2a = find("_v_r2 = spatial.distance.cdist(_e_c.vertices, _e_p, metric='sqeuclidean').max(axis=1)", fs.node)
    r2b = find("_v_r2 = np.array([((_e_p - v) ** 2).sum(axis=1).max() for v in _e_c.vertices])", fs.node)
    ok = r2a is not None and r2b is not None and r2a["_e_p"] == r2b["_e_p"] and r2a["_e_c"] == r2b["_e_c"]
    if r2a is None or r2b is None:
        run.instance("B3", fs.where, "candidate radii: statements not in a recognised form - NOT decided", True, nontrivial=False)
        run.assume("minimum_nsphere: the per-candidate radius statements are not in a recognised form")
    else:
        run.instance("B3", fs.where, f"per-candidate radius^2 = max over `{r2a['_e_p']}` of the squared distance to each vertex of `{r2a['_e_c']}` (both code paths)", ok)
        if not ok:
            run.violation("B3", fs.where, "the fast and the fallback computation of the candidate radii measure different things", key=key_of("C16-B3", "radii-paths"))
    ps = Prov(ix, fs)
    rets = [(r, [ast.unparse(e) for e in r.value.elts]) for r in ast.walk(fs.node) if isinstance(r, ast.Return) and isinstance(r.value, ast.Tuple) and len(r.value.elts) == 2]
    fit = find("_v_fr = (((_e_p - _e_c1) ** 2).sum(axis=1).max() ** 0.5) * _e_s1", fs.node)
    vor = find("_v_rv = np.sqrt(_e_r1[_e_i1]) * _e_s1\n_v_cv = (_e_verts[_e_i2] * _e_s2) + _e_o", fs.node)
    fcn = find("_v_fc = (_e_c2 * _e_s2) + _e_o", fs.node)
    if fit and vor and fcn and rets:
        pairs = {(fcn["_v_fc"], fit["_v_fr"]), (vor["_v_cv"], vor["_v_rv"])}
        bad = [e for _, e in rets if tuple(e) not in pairs]
        ok = not bad
        run.instance("B3", fs.where, f"returns are matching (centre, radius) pairs: {[e for _, e in rets]}", ok)
        if not ok:
            run.violation("B3", fs.where, f"minimum_nsphere returns {bad[0]}: a centre paired with the other candidate's radius does not bound the points", key=key_of("C16-B3", "pairs"))

    # ------------------------------------------------------------------ B4
    fb = ix.func("trimesh.parent:Geometry3D.bounding_box")
    pb = Prov(ix, fb)
    tr = [c_ for _, c_ in _canon_defs(pb, fb, "transform[:3, 3]")]
    rets = [pb.canon(r.value, r) for r in ast.walk(fb.node) if isinstance(r, ast.Return) and r.value is not None]
    ok = tr == ["P_self.bounds.mean(axis=0)"] and len(rets) == 1 and "extents=P_self.extents" in rets[0]
    run.instance("B4", fb.where, f"AABB: centre {tr}, box {rets}", ok)
    if not ok:
        run.violation("B4", fb.where, f"bounding_box is not centred on the mean of the bounds with the extents of the geometry ({tr}, {rets})", key=key_of("C16-B4", "aabb"))
    for spec, wanted in (("trimesh.base:Trimesh.extents", ("numpy.ptp(P_self.bounds, axis=0)",)),):
        try:
            fe = ix.func(spec)
        except Exception:
            continue
        pe = Prov(ix, fe)
        rr = [pe.canon(r.value, r) for r in ast.walk(fe.node) if isinstance(r, ast.Return) and r.value is not None]
        ok = any(w in rr for w in wanted)
        run.instance("B4", fe.where, f"extents := {rr}", ok)
        if not ok:
            run.violation("B4", fe.where, f"Trimesh.extents is {rr}, not the spread of the bounds", key=key_of("C16-B4", "extents"))
    fo = ix.func("trimesh.parent:Geometry3D.bounding_box_oriented")
    po = Prov(ix, fo)
    rets = [po.canon(r.value, r) for r in ast.walk(fo.node) if isinstance(r, ast.Return) and r.value is not None]
    ok = len(rets) == 1 and "transform=numpy.linalg.inv(trimesh.bounds.oriented_bounds(P_self)[0])" in rets[0] and "extents=trimesh.bounds.oriented_bounds(P_self)[1]" in rets[0]
    run.instance("B4", fo.where, f"oriented box := {rets}", ok)
    if not ok:
        run.violation("B4", fo.where, f"bounding_box_oriented does not place a box of the reported extents with the inverse of the to-origin transform ({rets})", key=key_of("C16-B4", "obb"))
    fh = ix.func("trimesh.convex:convex_hull")
    ph = Prov(ix, fh)
    vs = [c_ for _, c_ in _canon_defs(ph, fh, "vertices", stop=("hull", "vid"))]
    ok = vs == ["L_hull.points[L_vid].copy()"]
    run.instance("B4", fh.where, f"hull vertices := {vs} (rows of the points handed to qhull)", ok)
    if not ok:
        run.violation("B4", fh.where, f"convex_hull builds its vertices as {vs}: not a selection of rows of the input points", key=key_of("C16-B4", "hull-vertices"))
    run.assume("the direction / centre searches (qhull, Voronoi, least squares, optimiser), convexity and watertightness of qhull output, minimality and bounding_cylinder are not decided")
    return {
        "explanation": "Canonical-form structural rules plus one polynomial identity and one finite enumeration: whatever candidate the numerical search picks, the reported "
        "rectangle / box / sphere is measured on the points with that same candidate and centred on their min / max, so containment holds by construction; the axis "
        "re-ordering of the oriented box is a det +1 signed permutation for all six orders. Decides only that.",
    }
