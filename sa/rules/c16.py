"""C16 - bounding volumes (narrow): containment "by construction" and the rigid bookkeeping around the numerical search.

The search for the best direction / centre is numerical (qhull, Voronoi, optimiser) and is not decided.  What IS in
the shape of the code is that, whatever candidate the search picks, the reported size is measured on the points
themselves with that same candidate, so the volume contains them:

 B1  oriented_bounds_2D: with e the chosen unit edge, the returned transform maps p to
     (e.p - (xmin + xmax)/2, e_perp.p - (ymin + ymax)/2) and the returned rectangle is (xmax - xmin, ymax - ymin)
     over the same projections: every point lands inside the centred rectangle (polynomial identity).
 B2  oriented_bounds (3D): the translation is minus the centre of the min / max of the points transformed by the
     returned rotation, the height is the spread of the same projection, and the axis re-ordering matrix is a signed
     permutation with determinant +1 for all six orders (finite enumeration).
 B3  minimum_nsphere: every (centre, radius) pair returned has radius == max distance of the points to that very
     centre, and centre and radius are mapped back to world units with the same scale and origin.
 B4  bounding_box (AABB): centre = mean of the bounds, extents = spread of the bounds; bounding_box_oriented inverts
     the to-origin transform it was given; hull vertices are rows of the input points.
Convexity / watertightness of qhull output, minimality, and bounding_cylinder are not decided.

The rules are relations over the hash-consed value graph of each function (sa/dag.py): "the rectangle, the offset and the
angle are read at the same candidate" is "three metavariables bind the same node".  Names of locals, the number of
intermediate steps and repeated subexpressions do not matter.  A value that is not of the expected shape is reported as
NOT decided; only a recognised shape with a broken relation is a violation.
"""
from __future__ import annotations

import ast
import itertools

import numpy as np
import sympy as sp

from ..alg import Interp, Unsupported, arr
from ..index import Index
from ..provenance import Prov
from ..report import AnalysisError, key_of
from ..template import find

LEVEL = "other"


def _canon_defs(pv, f, name, stop=()):
    out = []
    for st in ast.walk(f.node):
        if isinstance(st, ast.Assign) and ast.unparse(st.targets[0]) == name and pv.cfg.nodes_of.get(id(st)):
            out.append((st, pv.canon(st.value, st, stop=stop)))
    return out


class _Rel:
    """relations over the value graph of one function (sa/dag.py).  `piece` matches a loose template (None: the value is
    not of that shape -> the relation is NOT decided, never a violation); `same` demands that two bindings are the same
    node of the graph - a positive finding: the shape is there and the relation is broken."""

    def __init__(self, run, rule, f, V):
        self.run, self.rule, self.f, self.V = run, rule, f, V

    def piece(self, what, templates, node, env=None):
        for t in ([templates] if isinstance(templates, str) else templates):
            e = self.V.match(t, node, env)
            if e is not None:
                return e
        self.run.instance(self.rule, self.f.where, f"{what}: `{self.V.text(node, 2, 120)}` is not in a recognised form - NOT decided", True, nontrivial=False)
        self.run.assume(f"{self.f.qualname}: {what} not decided (value not in a recognised form)")
        return None

    def same(self, what, env, pairs, broken, key):
        if env is None:
            return False
        bad = [(a, b) for a, b in pairs if env.get(a) != env.get(b)]
        ok = not bad
        self.run.instance(self.rule, self.f.where, what, ok)
        if not ok:
            a, b = bad[0]
            self.run.violation(self.rule, self.f.where, f"{self.f.qualname}: {broken} (`{self.V.text(env.get(a) or '?', 2, 70)}` vs `{self.V.text(env.get(b) or '?', 2, 70)}`)",
                               key=key_of(f"C16-{self.rule}", key))
        return ok

    def demand(self, what, ok, broken, key):
        self.run.instance(self.rule, self.f.where, what, ok)
        if not ok:
            self.run.violation(self.rule, self.f.where, f"{self.f.qualname}: {broken}", key=key_of(f"C16-{self.rule}", key))
        return ok


def _unphi(V, node, *templates):
    """the alternatives of a PHI node (or the node itself)"""
    n = V.dag.node(node) if isinstance(node, (ast.Name, str)) else node
    if isinstance(n, ast.Call) and isinstance(n.func, ast.Name) and n.func.id == "PHI":
        return list(n.args)
    return [node]


def check(run):
    ix = Index(run.repo)
    run.analysed.update(ix.stats())
    run.rule("B1", "oriented_bounds_2D: transform.p == (e.p - (xmin+xmax)/2, e_perp.p - (ymin+ymax)/2) and rectangle == (xmax-xmin, ymax-ymin) of the same projections")
    run.rule("B2", "oriented_bounds: translation = -(min + spread/2) of the points under the returned rotation; height = spread of the same projection; the axis re-ordering is a det +1 signed permutation for all six orders")
    run.rule("B3", "minimum_nsphere: returned radius is the maximum distance of the points to the returned centre, both un-scaled alike")
    run.rule("B4", "AABB box: centre = mean(bounds), extents = spread(bounds); the oriented box inverts the to-origin transform; hull vertices are rows of the input")
    from ..dag import Values

    # ------------------------------------------------------------------ B1
    f2 = ix.func("trimesh.bounds:oriented_bounds_2D")
    V = Values(ix, f2)
    R = _Rel(run, "B1", f2, V)
    rets = [r for r in V.returns() if isinstance(r.value, ast.Tuple) and len(r.value.elts) == 2]
    if not rets:
        raise AnalysisError("anchor vanished: `return transform, rectangle` in oriented_bounds_2D")
    r = rets[-1]
    tr_alts = _unphi(V, V.value(r.value.elts[0], r))
    re_alts = _unphi(V, V.value(r.value.elts[1], r))
    # the rectangle: extents of ONE candidate (possibly with its two sides swapped)
    rect = None
    for a in re_alts:
        e = V.match("_e_EXT[_e_AM]", a)
        if e is not None and V.match("_e_X[::-1]", a) is None:
            rect = e
            rect["R"] = V.dag._ident(a)
    if rect is None:
        R.piece("the returned rectangle", "_e_EXT[_e_AM]", re_alts[0])
    else:
        swapped = [a for a in re_alts if V.dag._ident(a) != rect["R"]]
        R.demand("the rectangle is the extents row of one candidate (or that row reversed)",
                 all(V.match("_e_R[::-1]", a, {"_e_R": rect["R"]}) is not None for a in swapped),
                 "the alternatives of the returned rectangle are not one candidate's extents and its reverse", "rectangle-alternatives")
        e = R.piece("the candidate extents", ["numpy.diff(_e_B.reshape((-1, 2, 2)), axis=1).reshape((-1, 2))",
                                             "numpy.column_stack((_e_x2.max(axis=1) - _e_x1.min(axis=1), _e_y2.max(axis=1) - _e_y1.min(axis=1)))"], rect["_e_EXT"])
        B = None
        if e is not None and "_e_B" in e:
            B = e["_e_B"]
            e = R.piece("the candidate bounds", "numpy.column_stack((_e_x1.min(axis=1), _e_y1.min(axis=1), _e_x2.max(axis=1), _e_y2.max(axis=1)))", B)
        if e is not None:
            R.same("the rectangle bounds take min and max of the same two projections", e, [("_e_x1", "_e_x2"), ("_e_y1", "_e_y2")],
                   "the lower and upper bounds of the rectangle are taken over different projections, so the rectangle need not contain the points", "bounds-pairs")
            ex = R.piece("the projection on the edge direction", "numpy.dot(_e_E, _e_H1.T)", e["_e_x1"])
            ey = ex and R.piece("the projection on the perpendicular", "numpy.dot(_e_PV, _e_H2.T)", e["_e_y1"], ex)
            if ey:
                R.same("both projections are taken of the same hull points", ey, [("_e_H1", "_e_H2")], "the two projections are measured on different point sets", "hull-points")
                pvn = V.match("numpy.fliplr(_e_E2) * [-1.0, 1.0]", ey["_e_PV"]) or V.match("numpy.fliplr(_e_E2) * [1.0, -1.0]", ey["_e_PV"]) \
                    or V.match("numpy.column_stack((-_e_E2[:, 1], _e_E2[:, 0]))", ey["_e_PV"])
                if pvn is None:
                    loose = V.match("numpy.fliplr(_e_E2) * _e_sg", ey["_e_PV"])
                    if loose is not None:
                        R.demand("the second direction is the first rotated by a quarter turn", False,
                                 f"the second projection direction `{V.text(ey['_e_PV'], 2, 80)}` is not perpendicular to the edge direction: the rectangle is not a rectangle", "perpendicular")
                    else:
                        R.piece("the perpendicular direction", "numpy.fliplr(_e_E2) * [-1.0, 1.0]", ey["_e_PV"])
                else:
                    pvn["_e_E"] = ey["_e_E"]
                    R.same("the second direction is the first rotated by a quarter turn", pvn, [("_e_E", "_e_E2")],
                           "the perpendicular is not derived from the edge directions that are projected on", "perpendicular-source")
                # the transform belongs to the same candidate
                pm = None
                for a in tr_alts:
                    pm = pm or V.match("trimesh.transformations.planar_matrix(offset=_e_OFF, theta=_e_TH)", a) or V.match("trimesh.transformations.planar_matrix(offset=_e_OFF, theta=_e_TH)", a)
                if pm is None:
                    R.piece("the returned transform", "trimesh.transformations.planar_matrix(offset=_e_OFF, theta=_e_TH)", tr_alts[0])
                else:
                    others = [a for a in tr_alts if V.match("trimesh.transformations.planar_matrix(offset=_e_OFF, theta=_e_TH)", a, pm) is None
                              and V.match("trimesh.transformations.planar_matrix(offset=_e_OFF, theta=_e_TH)", a, pm) is None]
                    R.demand("the alternatives of the transform are the planar matrix and the axis swap applied to it",
                             all(V.match("numpy.dot(_e_F, trimesh.transformations.planar_matrix(offset=_e_OFF, theta=_e_TH))", a, pm) is not None for a in others),
                             "the returned transform is not (an axis swap of) the planar matrix of the chosen candidate", "transform-alternatives")
                    off = None
                    for t_ in ("-_e_B2[_e_i2][_e_sl] - _e_R2 * 0.5", "-(_e_B2[_e_i2][_e_sl] + _e_R2 * 0.5)", "-_e_B2[_e_i2][_e_sl] - _e_R2 / 2", "-_e_B2[_e_i2][_e_sl] - 0.5 * _e_R2"):
                        off = off or V.match(t_, pm["_e_OFF"])
                    if off is None:
                        R.piece("the offset of the planar matrix", "-_e_B2[_e_i2][_e_sl] - _e_R2 * 0.5", pm["_e_OFF"])
                    else:
                        off.update({"B": B, "AM": rect["_e_AM"], "R": rect["R"], "lo": ":2"})
                        R.same("rectangle, offset and angle are read at the same candidate index; the offset is minus the lower corner minus half the rectangle", off,
                               [("_e_B2", "B"), ("_e_i2", "AM"), ("_e_R2", "R"), ("_e_sl", "lo")],
                               "the offset is not `-(lower corner of the chosen candidate) - rectangle / 2`: the transform no longer centres the reported rectangle on the points", "same-index")
                    th = V.match("numpy.arctan2(*_e_E3[_e_i3][::-1])", pm["_e_TH"]) or V.match("numpy.arctan2(_e_E3[_e_i3][1], _e_E3[_e_i3][0])", pm["_e_TH"])
                    if th is None:
                        R.piece("the angle of the planar matrix", "numpy.arctan2(*_e_E3[_e_i3][::-1])", pm["_e_TH"])
                    else:
                        th.update({"E": ey["_e_E"], "AM": rect["_e_AM"]})
                        R.same("the angle is that of the chosen candidate's edge direction", th, [("_e_E3", "E"), ("_e_i3", "AM")],
                               "the rotation angle is read from a different edge than the rectangle", "angle-index")
    # algebra: planar_matrix(offset, theta) applied to p, with (c, s) the unit edge
    pm = ix.func("trimesh.transformations:planar_matrix")
    c, s, px, py, xmin, xmax, ymin, ymax = sp.symbols("c s px py xmin xmax ymin ymax", real=True)
    th = sp.Symbol("theta", real=True)
    it = Interp(ix, trig=lambda name, x: {"sin": s, "cos": c}[name] if x == th else (_ for _ in ()).throw(Unsupported(f"trig of {x}")),
                decisions={"not np.isfinite(theta)": False, "np.isfinite(theta)": True})
    it.stubs["trimesh.transformations:transform_around"] = lambda itp, args, kw: (_ for _ in ()).throw(Unsupported("point"))
    off = np.array([-xmin - (xmax - xmin) * sp.Rational(1, 2), -ymin - (ymax - ymin) * sp.Rational(1, 2)], dtype=object)
    try:
        T = arr(it.call(pm, [], {"offset": off, "theta": th}))
    except Unsupported as e:
        raise AnalysisError(f"E3 cannot translate planar_matrix: {e}")
    q = T.dot(np.array([px, py, 1], dtype=object))
    ex, ey = c * px + s * py, -s * px + c * py
    ok = sp.expand(q[0] - (ex - (xmin + xmax) / 2)) == 0 and sp.expand(q[1] - (ey - (ymin + ymax) / 2)) == 0 and sp.expand(q[2] - 1) == 0
    run.obligation("B1", pm.where, "planar_matrix(-(min) - spread/2, theta).p == (e.p - (xmin+xmax)/2, e_perp.p - (ymin+ymax)/2) with e = (cos, sin) theta", ok)
    if not ok:
        run.violation("B1", pm.where, "the planar transform returned with the rectangle does not centre the projections it was measured on", key=key_of("C16-B1", "algebra"))

    # ------------------------------------------------------------------ B2
    f3 = ix.func("trimesh.bounds:oriented_bounds")
    V3 = Values(ix, f3)
    R = _Rel(run, "B2", f3, V3)
    rets = [r for r in V3.returns() if isinstance(r.value, ast.Tuple) and len(r.value.elts) == 2]
    if not rets:
        raise AnalysisError("anchor vanished: `return to_origin, extents` in oriented_bounds")
    # the return that comes out of the search (the others delegate to the 2D / coplanar routines)
    main = max(rets, key=lambda r_: r_.lineno)
    to_alts = _unphi(V3, V3.value(main.value.elts[0], main))
    ex_alts = _unphi(V3, V3.value(main.value.elts[1], main))
    base = None
    for a in to_alts:
        base = base or V3.match("STORE(_e_M, _[:3, 3], -_e_C)", a)
    if base is None:
        R.piece("the returned matrix", "STORE(_e_M, _[:3, 3], -_e_C)", to_alts[0])
    else:
        cen = None
        for t_ in ("_e_T1.min(axis=0) + numpy.ptp(_e_T2, axis=0) * 0.5", "_e_T1.min(axis=0) + (_e_T2.max(axis=0) - _e_T3.min(axis=0)) * 0.5",
                   "(_e_T1.min(axis=0) + _e_T2.max(axis=0)) * 0.5", "(_e_T1.min(axis=0) + _e_T2.max(axis=0)) / 2"):
            cen = cen or V3.match(t_, base["_e_C"])
        if cen is None:
            loose = V3.match("_e_T1.mean(axis=0)", base["_e_C"])
            if loose is not None:
                R.demand("the box is centred on the middle of the min / max of the transformed points", False,
                         "the translation centres the box on the MEAN of the points, not on the middle of their min / max: points on the sparse side stick out of the box", "centre")
            else:
                R.piece("the box centre", "_e_T1.min(axis=0) + numpy.ptp(_e_T2, axis=0) * 0.5", base["_e_C"])
        else:
            cen.setdefault("_e_T3", cen["_e_T1"])
            tp = V3.match("trimesh.transformations.transform_points(points=_e_V, matrix=_e_M2)", cen["_e_T1"])
            env = dict(cen)
            env.update(tp or {})
            env["M"] = base["_e_M"]
            pairs = [("_e_T1", "_e_T2"), ("_e_T1", "_e_T3")] + ([("_e_M2", "M")] if tp else [])
            R.same("the box is centred on the min / max of the points under the matrix that is returned", env, pairs,
                   "the translation is not minus the centre of the points transformed by the returned matrix: the box is not centred on them", "centre")
    plain = None
    for a in ex_alts:
        plain = plain or V3.match("numpy.append(trimesh.bounds.oriented_bounds_2D(points=_e_PA[:, :2])[1], numpy.ptp(_e_PB[:, 2]))", a)
    if plain is None:
        R.piece("the returned extents", "numpy.append(trimesh.bounds.oriented_bounds_2D(points=_e_PA[:, :2])[1], numpy.ptp(_e_PB[:, 2]))", ex_alts[0])
    else:
        R.same("height and base rectangle are measured on the same projection", plain, [("_e_PA", "_e_PB")],
               "the height and the base rectangle are measured on different projections of the points", "same-projection")
        if base is not None:
            rot = V3.match("numpy.dot(trimesh.transformations.planar_matrix_to_3D(matrix_2D=STORE(trimesh.bounds.oriented_bounds_2D(points=_e_PC[:, :2])[0], _[:2, 2], 0.0)), _e_M2D)", base["_e_M"])
            if rot is not None:
                rot["PA"] = plain["_e_PA"]
                R.same("the in-plane rotation comes from the same 2D call as the base rectangle", rot, [("_e_PC", "PA")],
                       "the rotation about the normal and the base rectangle come from different 2D projections", "rotation-source")
    # the re-ordering matrix: evaluate the code's own statements for each of the six orders
    blk = None
    for st in ast.walk(f3.node):
        if isinstance(st, ast.If) and ast.unparse(st.test) in ("ordered", "ordered is True", "ordered == True"):
            blk = st
    if blk is None:
        raise AnalysisError("anchor vanished: `if ordered:` in oriented_bounds")
    cond = [st for st in blk.body if isinstance(st, ast.If) and "det" in ast.unparse(st.test)]
    if len(cond) != 1:
        raise AnalysisError("anchor vanished: the determinant correction of the axis re-ordering in oriented_bounds")
    ctext = ast.unparse(cond[0].test).replace(" ", "")
    # which determinants get the extra negation
    forms = {
        "notnp.isclose(np.linalg.det(flip[:3,:3]),1.0)": lambda d: d != 1, "np.isclose(np.linalg.det(flip[:3,:3]),-1.0)": lambda d: d == -1,
        "np.linalg.det(flip[:3,:3])<0": lambda d: d < 0, "np.linalg.det(flip[:3,:3])<0.0": lambda d: d < 0,
        "np.isclose(np.linalg.det(flip[:3,:3]),1.0)": lambda d: d == 1, "notnp.isclose(np.linalg.det(flip[:3,:3]),-1.0)": lambda d: d != -1,
        "np.linalg.det(flip[:3,:3])>0": lambda d: d > 0, "np.linalg.det(flip[:3,:3])>0.0": lambda d: d > 0,
    }
    negates = ast.unparse(cond[0].body[0]).replace(" ", "") in ("flip[:3,:3]=np.dot(flip[:3,:3],-np.eye(3))", "flip[:3,:3]=-flip[:3,:3]", "flip[:3,:3]*=-1", "flip[:3,:3]*=-1.0")
    if ctext not in forms or not negates or len(cond[0].body) != 1 or cond[0].orelse:
        run.instance("B2", f3.where, f"determinant correction `{ast.unparse(cond[0])[:70]}` not in a recognised form - NOT decided", True, nontrivial=False)
        run.assume("oriented_bounds: the determinant correction of the axis re-ordering is not in a recognised form")
    else:
        for order in itertools.permutations(range(3)):
            flip = np.eye(4)
            flip[:3, :3] = -np.eye(3)[list(order)]
            det = round(float(np.linalg.det(flip[:3, :3])))
            if forms[ctext](det):
                flip[:3, :3] = -flip[:3, :3]
            m3 = flip[:3, :3]
            good = np.allclose(m3.dot(m3.T), np.eye(3)) and round(float(np.linalg.det(m3))) == 1 and np.allclose(np.abs(m3).dot([1.0, 2.0, 3.0]), np.array([1.0, 2.0, 3.0])[list(order)])
            run.obligation("B2", f3.where, f"order {order}: re-ordering matrix is orthonormal, det +1 and permutes the extents like `min_extents[order]`", bool(good))
            if not good:
                run.violation("B2", f3.where, f"oriented_bounds: for extents order {order} the axis re-ordering matrix is not a det +1 signed permutation matching `min_extents[order]`",
                              key=key_of("C16-B2", "flip", order))
    fl = None
    for a in to_alts:
        fl = fl or V3.match("numpy.dot(_e_FLIP, _e_TO)", a)
    if fl is not None and plain is not None:
        inits = [V3.match("STORE(numpy.eye(4), _[:3, :3], -numpy.eye(3)[_e_ORD])", x) or V3.match("STORE(STORE(numpy.eye(4), _[:3, :3], -numpy.eye(3)[_e_ORD]), _[:3, :3], _e_neg)", x)
                 for x in _unphi(V3, fl["_e_FLIP"])]
        okf = all(i is not None for i in inits) and len({i["_e_ORD"] for i in inits if i}) == 1
        ordered_ext = [a for a in ex_alts if V3.match("_e_X[_e_ORD2]", a) is not None and V3.match("numpy.append(_e_a, _e_b)", a) is None]
        if okf and ordered_ext:
            oe = V3.match("_e_X[_e_ORD2]", ordered_ext[0])
            oe["ORD"] = inits[0]["_e_ORD"]
            R.same("the re-ordering matrix starts as -I[order] with the order that re-orders the extents", oe, [("_e_ORD2", "ORD")],
                   "the axis re-ordering matrix and the re-ordered extents use different orders", "flip-init")
        else:
            run.instance("B2", f3.where, f"re-ordering matrix starts as -I[order]: {okf}", okf)
            if not okf:
                run.violation("B2", f3.where, "the axis re-ordering matrix of oriented_bounds is not built as -I[order]", key=key_of("C16-B2", "flip-init"))

    # ------------------------------------------------------------------ B3
    fs = ix.func("trimesh.nsphere:minimum_nsphere")
    Vs = Values(ix, fs)
    R = _Rel(run, "B3", fs, Vs)
    rets = [r for r in Vs.returns() if isinstance(r.value, ast.Tuple) and len(r.value.elts) == 2]
    if not rets:
        raise AnalysisError("anchor vanished: `return centre, radius` in minimum_nsphere")
    seen = set()
    for r in rets:
        cn, rn = Vs.value(r.value.elts[0], r), Vs.value(r.value.elts[1], r)
        sig = (Vs.dag._ident(cn), Vs.dag._ident(rn))
        if sig in seen:
            continue
        seen.add(sig)
        c_ = Vs.match("_e_C * _e_S1 + _e_O", cn)
        if c_ is None:
            bare = Vs.match("_e_C + _e_O", cn)
            scaled_r = Vs.match("_e_X * _e_S2", rn)
            if bare is not None and scaled_r is not None and Vs.dag.contains(bare["_e_O"], "P_obj") \
                    and scaled_r["_e_S2"] not in [Vs.dag._ident(x) for x in Vs.dag._flat_c(ast.Name(id=bare["_e_C"], ctx=ast.Load()), ast.Mult)]:
                R.demand("centre and radius are mapped back to world units with the same scale", False,
                         f"the returned radius is multiplied by `{Vs.text(scaled_r['_e_S2'], 2, 60)}` but the centre `{Vs.text(cn, 2, 80)}` is not: centre and radius are in different units", "scale")
            else:
                R.piece("a returned centre", "_e_C * _e_S1 + _e_O", cn)
            continue
        # radius: sqrt(max squared distance to that centre) in unit coordinates, times the same scale
        rr = None
        for t_ in ("((_e_P - _e_C2) ** 2).sum(axis=1).max() ** 0.5 * _e_S2", "numpy.sqrt(((_e_P - _e_C2) ** 2).sum(axis=1).max()) * _e_S2"):
            rr = rr or Vs.match(t_, rn)
        if rr is not None:
            env = dict(c_)
            env.update(rr)
            R.same("fit candidate: the radius is the largest distance to the centre that is returned, both un-scaled alike", env, [("_e_C", "_e_C2"), ("_e_S1", "_e_S2")],
                   "the fit radius is not measured against the returned fit centre (or the two are un-scaled differently): the sphere need not contain the points", "fit")
            continue
        vv = Vs.match("numpy.sqrt(_e_R2[_e_I2]) * _e_S2", rn) or Vs.match("_e_R2[_e_I2] ** 0.5 * _e_S2", rn)
        cv = Vs.match("_e_VERTS[_e_I1]", c_["_e_C"])
        if vv is None or cv is None:
            R.piece("a returned radius", "numpy.sqrt(_e_R2[_e_I2]) * _e_S2", rn)
            continue
        env = dict(c_)
        env.update(vv)
        env.update(cv)
        R.same("Voronoi candidate: centre and radius are read at the same index and un-scaled alike", env, [("_e_I1", "_e_I2"), ("_e_S1", "_e_S2")],
               "the Voronoi centre and its radius are read at different indices (or un-scaled differently): a centre paired with another candidate's radius does not bound the points", "voronoi")
        # the per-candidate radii: max over the points of the squared distance to each candidate (both code paths)
        for alt in _unphi(Vs, vv["_e_R2"]):
            a1 = Vs.match("scipy.spatial.distance.cdist(_e_CV, _e_PTS, metric='sqeuclidean').max(axis=1)", alt)
            a2 = Vs.match("[((_e_PTS - v) ** 2).sum(axis=1).max() for v in _e_CV]", alt)
            a = a1 or a2
            if a is None:
                loose = Vs.match("scipy.spatial.distance.cdist(_e_CV, _e_PTS, metric='sqeuclidean')._e_red(axis=1)", alt)
                red = Vs.dag.node(alt)
                if isinstance(red, ast.Call) and isinstance(Vs.dag.node(red.func), ast.Attribute) and Vs.dag.node(red.func).attr in ("mean", "min", "median", "sum"):
                    R.demand("candidate radius^2 is the MAX squared distance over the points", False,
                             f"the radius of a candidate centre is the `{Vs.dag.node(red.func).attr}` of the distances to the points, not their maximum: the sphere does not contain them", "radii-max")
                else:
                    R.piece("the candidate radii", "scipy.spatial.distance.cdist(_e_CV, _e_PTS, metric='sqeuclidean').max(axis=1)", alt)
                continue
            a["VERTS"] = cv["_e_VERTS"]
            R.same("candidate radius^2 = max over the points of the squared distance to the candidates that the centre is taken from", a, [("_e_CV", "VERTS")],
                   "the candidate radii are measured from other centres than the one that is returned", "radii-centres")

    # ------------------------------------------------------------------ B4
    fb = ix.func("trimesh.parent:Geometry3D.bounding_box")
    pb = Prov(ix, fb)
    tr = [c_ for _, c_ in _canon_defs(pb, fb, "transform[:3, 3]")]
    rets = [pb.canon(r.value, r) for r in ast.walk(fb.node) if isinstance(r, ast.Return) and r.value is not None]
    ok = tr == ["P_self.bounds.mean(axis=0)"] and len(rets) == 1 and "extents=P_self.extents" in rets[0]
    run.instance("B4", fb.where, f"AABB: centre {tr}, box {rets}", ok)
    if not ok:
        run.violation("B4", fb.where, f"bounding_box is not centred on the mean of the bounds with the extents of the geometry ({tr}, {rets})", key=key_of("C16-B4", "aabb"))
    for spec, wanted in (("trimesh.base:Trimesh.extents", ("numpy.ptp(P_self.bounds, axis=0)",)),):
        try:
            fe = ix.func(spec)
        except Exception:
            continue
        pe = Prov(ix, fe)
        rr = [pe.canon(r.value, r) for r in ast.walk(fe.node) if isinstance(r, ast.Return) and r.value is not None]
        ok = any(w in rr for w in wanted)
        run.instance("B4", fe.where, f"extents := {rr}", ok)
        if not ok:
            run.violation("B4", fe.where, f"Trimesh.extents is {rr}, not the spread of the bounds", key=key_of("C16-B4", "extents"))
    fo = ix.func("trimesh.parent:Geometry3D.bounding_box_oriented")
    po = Prov(ix, fo)
    rets = [po.canon(r.value, r) for r in ast.walk(fo.node) if isinstance(r, ast.Return) and r.value is not None]
    ok = len(rets) == 1 and "transform=numpy.linalg.inv(trimesh.bounds.oriented_bounds(P_self)[0])" in rets[0] and "extents=trimesh.bounds.oriented_bounds(P_self)[1]" in rets[0]
    run.instance("B4", fo.where, f"oriented box := {rets}", ok)
    if not ok:
        run.violation("B4", fo.where, f"bounding_box_oriented does not place a box of the reported extents with the inverse of the to-origin transform ({rets})", key=key_of("C16-B4", "obb"))
    fh = ix.func("trimesh.convex:convex_hull")
    Vh = Values(ix, fh)
    R = _Rel(run, "B4", fh, Vh)
    ctor = [c_ for c_ in ast.walk(fh.node) if isinstance(c_, ast.Call) and Vh.pv.callee(c_.func) == "trimesh.base.Trimesh"]
    if not ctor:
        raise AnalysisError("anchor vanished: the Trimesh(...) construction of convex_hull")
    for c_ in ctor:
        st_ = Vh.pv.stmt_of(c_)
        kw = {k.arg: k.value for k in c_.keywords if k.arg}
        for i_, a_ in enumerate(c_.args[:2]):
            kw.setdefault(("vertices", "faces")[i_], a_)
        if "vertices" not in kw or "faces" not in kw:
            continue
        vn, fn_ = Vh.value(kw["vertices"], st_), Vh.value(kw["faces"], st_)
        e = R.piece("the hull's vertices", ["_e_H.points[_e_VID].copy()", "_e_H.points[_e_VID]"], vn)
        if e is None:
            continue
        R.demand("hull vertices are rows of the points handed to qhull", Vh.dag.contains(e["_e_H"], "P_points") or Vh.dag.contains(e["_e_H"], "P_obj"),
                 "the vertices of the hull are not rows of the input points", "hull-vertices")
        hits = Vh.dag.find("STORE(numpy.zeros(len(_e_H2.points), dtype=numpy.int64), _[_e_VID2], numpy.arange(len(_e_VID3)))[_e_H3.simplices]", fn_)
        if not hits:
            run.instance("B4", fh.where, "re-indexing of the hull faces: not in a recognised form - NOT decided", True, nontrivial=False)
            run.assume("convex_hull: the re-indexing of qhull's simplices is not in a recognised form")
        else:
            env = dict(hits[0][0])
            env.update({"H": e["_e_H"], "VID": e["_e_VID"]})
            R.same("faces are qhull's simplices re-indexed by the position of each kept vertex in the vertex selection", env,
                   [("_e_H2", "H"), ("_e_H3", "H"), ("_e_VID2", "VID"), ("_e_VID3", "VID")],
                   "the hull faces are re-indexed with a different vertex selection than the one that builds the vertex array: faces point at the wrong vertices", "hull-reindex")
    run.assume("the direction / centre searches (qhull, Voronoi, least squares, optimiser), convexity and watertightness of qhull output, minimality and bounding_cylinder are not decided")
    return {
        "explanation": "Canonical-form structural rules plus one polynomial identity and one finite enumeration: whatever candidate the numerical search picks, the reported "
        "rectangle / box / sphere is measured on the points with that same candidate and centred on their min / max, so containment holds by construction; the axis "
        "re-ordering of the oriented box is a det +1 signed permutation for all six orders. Decides only that.",
    }
