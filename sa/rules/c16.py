"""C16 - bounding volumes (narrow): containment "by construction" and the rigid bookkeeping around the numerical search.

The search for the best direction / centre is numerical (qhull, Voronoi, optimiser) and is not decided.  What IS in
the shape of the code is that, whatever candidate the search picks, the reported size is measured on the points
themselves with that same candidate, so the volume contains them:

 B1  oriented_bounds_2D: with e the chosen unit edge, the returned transform maps p to
     (e.p - (xmin + xmax)/2, e_perp.p - (ymin + ymax)/2) and the returned rectangle is (xmax - xmin, ymax - ymin)
     over the same projections: every point lands inside the centred rectangle (polynomial identity).
 B2  oriented_bounds (3D): the translation is minus the centre of the min / max of the points transformed by the
     returned rotation, the height is the spread of the same projection, and the axis re-ordering matrix is a signed
     permutation with determinant +1 for all six orders (finite enumeration).
 B3  minimum_nsphere: every (centre, radius) pair returned has radius == max distance of the points to that very
     centre, and centre and radius are mapped back to world units with the same scale and origin.
 B4  bounding_box (AABB): centre = mean of the bounds, extents = spread of the bounds; bounding_box_oriented inverts
     the to-origin transform it was given; hull vertices are rows of the input points.
Convexity / watertightness of qhull output, minimality, and bounding_cylinder are not decided.

The rules are relations over the hash-consed value graph of each function (sa/dag.py): "the rectangle, the offset and the
angle are read at the same candidate" is "three metavariables bind the same node".  Names of locals, the number of
intermediate steps and repeated subexpressions do not matter.  A value that is not of the expected shape is reported as
NOT decided; only a recognised shape with a broken relation is a violation.
"""
from __future__ import annotations

import ast
import itertools

import numpy as np
import sympy as sp

from ..alg import Interp, Unsupported, arr
from ..index import Index
from ..provenance import Prov
from ..report import AnalysisError, key_of
from ..template import find

LEVEL = "other"


def _canon_defs(pv, f, name, stop=()):
    out = []
    for st in ast.walk(f.node):
        if isinstance(st, ast.Assign) and ast.unparse(st.targets[0]) == name and pv.cfg.nodes_of.get(id(st)):
            out.append((st, pv.canon(st.value, st, stop=stop)))
    return out


class _Rel:
    """relations over the value graph of one function (sa/dag.py).  `piece` matches a loose template (None: the value is
    not of that shape -> the relation is NOT decided, never a violation); `same` demands that two bindings are the same
    node of the graph - a positive finding: the shape is there and the relation is broken."""

    def __init__(self, run, rule, f, V):
        self.run, self.rule, self.f, self.V = run, rule, f, V

    def piece(self, what, templates, node, env=None):
        for t in ([templates] if isinstance(templates, str) else templates):
            e = self.V.match(t, node, env)
            if e is not None:
                return e
        self.run.instance(self.rule, self.f.where, f"{what}: `{self.V.text(node, 2, 120)}` is not in a recognised form - NOT decided", True, nontrivial=False)
        self.run.assume(f"{self.f.qualname}: {what} not decided (value not in a recognised form)")
        return None

    def same(self, what, env, pairs, broken, key):
        if env is None:
            return False
        bad = [(a, b) for a, b in pairs if env.get(a) != env.get(b)]
        ok = not bad
        self.run.instance(self.rule, self.f.where, what, ok)
        if not ok:
            a, b = bad[0]
            self.run.violation(self.rule, self.f.where, f"{self.f.qualname}: {broken} (`{self.V.text(env.get(a) or '?', 2, 70)}` vs `{self.V.text(env.get(b) or '?', 2, 70)}`)",
                               key=key_of(f"C16-{self.rule}", key))
        return ok

    def demand(self, what, ok, broken, key):
        self.run.instance(self.rule, self.f.where, what, ok)
        if not ok:
            self.run.violation(self.rule, self.f.where, f"{self.f.qualname}: {broken}", key=key_of(f"C16-{self.rule}", key))
        return ok


def _unphi(V, node, *templates):
    """the alternatives of a PHI node (or the node itself)"""
    n = V.dag.node(node) if isinstance(node, (ast.Name, str)) else node
    if isinstance(n, ast.Call) and isinstance(n.func, ast.Name) and n.func.id == "PHI":
        return list(n.args)
    return [node]


class _Und(Exception):
    pass


def _parity(perm):
    p, n = 1, len(perm)
    for i in range(n):
        for j in range(i + 1, n):
            if perm[i] > perm[j]:
                p = -p
    return p


class _SP:
    """abstract value: sign * P_perm, optionally as the upper-left block of a 4x4 identity"""

    def __init__(self, sign, perm, embed=False):
        self.sign, self.perm, self.embed = sign, tuple(perm), embed

    def det(self):
        return self.sign ** len(self.perm) * _parity(self.perm)


class _SPInterp:
    def __init__(self, ix, module, env):
        self.ix, self.m, self.env = ix, module, dict(env)

    def ev(self, e):
        if isinstance(e, ast.Constant):
            return e.value
        if isinstance(e, ast.Name):
            if e.id in self.env:
                return self.env[e.id]
            raise _Und(f"name {e.id}")
        if isinstance(e, ast.UnaryOp) and isinstance(e.op, ast.USub):
            v = self.ev(e.operand)
            if isinstance(v, _SP):
                return _SP(-v.sign, v.perm, v.embed)
            if isinstance(v, (int, float)):
                return -v
            raise _Und("negation")
        if isinstance(e, ast.UnaryOp) and isinstance(e.op, ast.Not):
            return not self.truth(self.ev(e.operand))
        if isinstance(e, ast.BoolOp):
            vals = [self.truth(self.ev(v)) for v in e.values]
            return all(vals) if isinstance(e.op, ast.And) else any(vals)
        if isinstance(e, ast.Compare) and len(e.ops) == 1:
            import operator as o
            a, b = self.ev(e.left), self.ev(e.comparators[0])
            fn = {ast.Eq: o.eq, ast.NotEq: o.ne, ast.Lt: o.lt, ast.LtE: o.le, ast.Gt: o.gt, ast.GtE: o.ge}.get(type(e.ops[0]))
            if fn is None:
                raise _Und("comparison")
            if isinstance(a, tuple) and isinstance(b, tuple):
                return tuple(fn(x, y) for x, y in zip(a, b))
            if isinstance(a, (int, float)) and isinstance(b, (int, float)):
                return fn(a, b)
            raise _Und("comparison of non-numbers")
        if isinstance(e, ast.Subscript):
            v = self.ev(e.value)
            sl = ast.unparse(e.slice).replace(" ", "").strip("()")
            if isinstance(v, _SP) and v.embed and sl == ":3,:3":
                return _SP(v.sign, v.perm)
            if isinstance(v, _SP) and not v.embed and v.sign == 1 and v.perm == (0, 1, 2):
                idx = self.ev(e.slice)
                if isinstance(idx, tuple) and sorted(idx) == [0, 1, 2]:
                    return _SP(1, idx)  # eye(3)[order]: row i is e_order[i]
            if isinstance(v, tuple):
                idx = self.ev(e.slice)
                if isinstance(idx, int):
                    return v[idx]
                if isinstance(idx, tuple):
                    return tuple(v[i] for i in idx)
            raise _Und(f"subscript {ast.unparse(e)[:40]}")
        if isinstance(e, ast.Call):
            fn = ast.unparse(e.func)
            args = [self.ev(a) for a in e.args]
            if fn in ("np.eye", "np.identity") and args and args[0] in (3, 4):
                return _SP(1, (0, 1, 2), embed=args[0] == 4)
            if fn in ("np.dot", "np.matmul") and len(args) == 2 and all(isinstance(a, _SP) for a in args):
                A, B = args
                return _SP(A.sign * B.sign, tuple(B.perm[A.perm[i]] for i in range(3)), A.embed or B.embed)
            if fn == "np.linalg.det" and isinstance(args[0], _SP):
                return args[0].det()
            if fn == "np.isclose" and len(args) >= 2 and all(isinstance(a, (int, float)) for a in args[:2]):
                return abs(args[0] - args[1]) < 1e-8
            if fn in ("np.arange",) and args and isinstance(args[0], int):
                return tuple(range(args[0]))
            if fn in ("np.sign",) and isinstance(args[0], (int, float)):
                return (args[0] > 0) - (args[0] < 0)
            if isinstance(e.func, ast.Attribute) and e.func.attr in ("any", "all") and not args:
                v = self.ev(e.func.value)
                if isinstance(v, tuple):
                    return any(v) if e.func.attr == "any" else all(v)
                if isinstance(v, bool):
                    return v
            if isinstance(e.func, ast.Attribute) and e.func.attr == "copy" and not args:
                return self.ev(e.func.value)
            r = self.ix.resolve_expr(self.m, e.func)
            from ..index import FuncInfo
            if isinstance(r, FuncInfo) and r.cls is None:
                sub = _SPInterp(self.ix, r.module, dict(zip(r.params, args)))
                for k in e.keywords:
                    sub.env[k.arg] = self.ev(k.value)
                return sub.run(r.node.body)
            raise _Und(f"call {fn}")
        raise _Und(f"expression {ast.unparse(e)[:40]}")

    def truth(self, v):
        if isinstance(v, (bool, int, float)):
            return bool(v)
        raise _Und("truth value")

    def run(self, body):
        for st in body:
            if isinstance(st, ast.Expr):
                continue
            if isinstance(st, ast.Assign) and len(st.targets) == 1:
                t, v = st.targets[0], self.ev(st.value)
                if isinstance(t, ast.Name):
                    self.env[t.id] = v
                elif isinstance(t, ast.Subscript) and isinstance(t.value, ast.Name) and ast.unparse(t.slice).replace(" ", "").strip("()") == ":3,:3" and isinstance(v, _SP):
                    cur = self.env.get(t.value.id)
                    if not (isinstance(cur, _SP) and cur.embed):
                        raise _Und("block store into a non 4x4")
                    self.env[t.value.id] = _SP(v.sign, v.perm, embed=True)
                else:
                    raise _Und(f"store {ast.unparse(t)[:30]}")
            elif isinstance(st, ast.AugAssign) and isinstance(st.op, ast.Mult):
                c = self.ev(st.value)
                if not isinstance(c, (int, float)) or abs(c) != 1:
                    raise _Und("scaling by something other than +-1")
                t = st.target
                name = t.id if isinstance(t, ast.Name) else (t.value.id if isinstance(t, ast.Subscript) and isinstance(t.value, ast.Name)
                                                              and ast.unparse(t.slice).replace(" ", "").strip("()") == ":3,:3" else None)
                cur = self.env.get(name)
                if not isinstance(cur, _SP):
                    raise _Und("scaling a non-matrix")
                if c < 0:
                    self.env[name] = _SP(-cur.sign, cur.perm, cur.embed)
            elif isinstance(st, ast.If):
                r = self.run(st.body if self.truth(self.ev(st.test)) else st.orelse)
                if r is not None:
                    return r
            elif isinstance(st, ast.Return):
                return self.ev(st.value) if st.value is not None else None
            else:
                raise _Und(f"statement {type(st).__name__}")
        return None


def _reorder_enumeration(run, ix, f3):
    """for each order of the extents: the matrix that multiplies the returned transform when `ordered` is a det +1 signed
    permutation whose rows pick the axes in that order"""
    # the multiplication `to_origin = np.dot(<re-ordering>, to_origin)` and the block it sits in
    site = None
    for blk in ast.walk(f3.node):
        body = getattr(blk, "body", None)
        if not isinstance(body, list):
            continue
        for i, st in enumerate(body):
            if isinstance(st, ast.Assign) and len(st.targets) == 1 and isinstance(st.targets[0], ast.Name) and isinstance(st.value, ast.Call) \
                    and ast.unparse(st.value.func) in ("np.dot", "np.matmul") and len(st.value.args) == 2 and ast.unparse(st.value.args[1]) == st.targets[0].id \
                    and any(isinstance(r, ast.Return) and isinstance(r.value, ast.Tuple) and r.value.elts and ast.unparse(r.value.elts[0]) == st.targets[0].id for r in ast.walk(f3.node)):
                site = (body, i, st)
    if site is None:
        run.instance("B2", f3.where, "the multiplication by the axis re-ordering matrix is not in a recognised form - NOT decided", True, nontrivial=False)
        run.assume("oriented_bounds: the axis re-ordering of the ordered result is not in a recognised form; that it is a det +1 signed permutation is not decided")
        return
    body, idx, st = site
    # the name the order is bound to: `<order> = <extents>.argsort()` somewhere in the function
    onames = [s_.targets[0].id for s_ in ast.walk(f3.node) if isinstance(s_, ast.Assign) and isinstance(s_.targets[0], ast.Name) and isinstance(s_.value, ast.Call)
              and isinstance(s_.value.func, ast.Attribute) and s_.value.func.attr == "argsort"]
    onames += [s_.targets[0].id for s_ in ast.walk(f3.node) if isinstance(s_, ast.Assign) and isinstance(s_.targets[0], ast.Name) and isinstance(s_.value, ast.Call)
               and ast.unparse(s_.value.func) == "np.argsort"]
    if len(set(onames)) != 1:
        run.instance("B2", f3.where, "the order of the extents is not bound by one argsort - NOT decided", True, nontrivial=False)
        run.assume("oriented_bounds: the order of the extents is not bound by one argsort")
        return
    oname = onames[0]
    prelude = [s_ for s_ in body[:idx] if not (isinstance(s_, ast.Assign) and isinstance(s_.targets[0], ast.Name) and s_.targets[0].id == oname)]
    # the tests that enclose the multiplication (evaluated per order; the `ordered` flag is on)
    enclosing = []

    def _find(blk_body, acc):
        for s_ in blk_body:
            if s_ is st:
                enclosing.extend(acc)
                return True
            if isinstance(s_, ast.If):
                if _find(s_.body, acc + [(s_.test, True)]) or _find(s_.orelse, acc + [(s_.test, False)]):
                    return True
        return False

    _find(f3.node.body, [])
    flags = {a_.arg: True for a_ in f3.node.args.args if a_.arg == "ordered"}
    for order in itertools.permutations(range(3)):
        it_ = _SPInterp(ix, f3.module, {oname: tuple(order), **flags})
        try:
            taken = True
            for t_, pos in enclosing:
                try:
                    taken = taken and (it_.truth(it_.ev(t_)) == pos)
                except _Und:
                    pass  # a test about something else: assume the branch can be taken
            if not taken:
                good = tuple(order) == (0, 1, 2)
                run.obligation("B2", f3.where, f"order {order}: the re-ordering is skipped (the extents are left as they are): already ascending: {good}", good)
                if not good:
                    run.violation("B2", f3.where, f"oriented_bounds: for extents order {order} the axis re-ordering is skipped although the extents are not ascending",
                                  key=key_of("C16-B2", "flip", order))
                continue
            # statements of the block that build the matrix (anything else in the block is irrelevant to it and skipped)
            for s_ in prelude:
                try:
                    it_.run([s_])
                except _Und:
                    pass
            M = it_.ev(st.value.args[0])
            if not isinstance(M, _SP):
                raise _Und("the factor is not a signed permutation")
        except _Und as e:
            run.instance("B2", f3.where, f"order {order}: re-ordering matrix not evaluated ({e}) - NOT decided", True, nontrivial=False)
            run.assume(f"oriented_bounds: axis re-ordering not evaluated in the signed-permutation domain ({e})")
            return
        good = M.det() == 1 and M.perm == tuple(order)
        run.obligation("B2", f3.where, f"order {order}: re-ordering matrix is {'+' if M.sign > 0 else '-'}P{M.perm}, det {M.det()}: orthonormal, det +1 and permutes the extents like `min_extents[order]`", bool(good))
        if not good:
            run.violation("B2", f3.where, f"oriented_bounds: for extents order {order} the axis re-ordering matrix is {'+' if M.sign > 0 else '-'}P{M.perm} with determinant {M.det()}: "
                                          f"not a det +1 signed permutation matching `min_extents[order]` (the returned transform is a mirror, not rigid)",
                          key=key_of("C16-B2", "flip", order))


def check(run):
    ix = Index(run.repo)
    run.analysed.update(ix.stats())
    run.rule("B1", "oriented_bounds_2D: transform.p == (e.p - (xmin+xmax)/2, e_perp.p - (ymin+ymax)/2) and rectangle == (xmax-xmin, ymax-ymin) of the same projections")
    run.rule("B2", "oriented_bounds: translation = -(min + spread/2) of the points under the returned rotation; height = spread of the same projection; the axis re-ordering is a det +1 signed permutation for all six orders")
    run.rule("B3", "minimum_nsphere: returned radius is the maximum distance of the points to the returned centre, both un-scaled alike")
    run.rule("B4", "AABB box: centre = mean(bounds), extents = spread(bounds); the oriented box inverts the to-origin transform; hull vertices are rows of the input")
    from ..dag import Values

    # ------------------------------------------------------------------ B1
    f2 = ix.func("trimesh.bounds:oriented_bounds_2D")
    V = Values(ix, f2)
    R = _Rel(run, "B1", f2, V)
    rets = [r for r in V.returns() if isinstance(r.value, ast.Tuple) and len(r.value.elts) == 2]
    if not rets:
        raise AnalysisError("anchor vanished: `return transform, rectangle` in oriented_bounds_2D")
    r = rets[-1]
    tr_alts = _unphi(V, V.value(r.value.elts[0], r))
    re_alts = _unphi(V, V.value(r.value.elts[1], r))
    # the rectangle: extents of ONE candidate (possibly with its two sides swapped)
    rect = None
    for a in re_alts:
        e = V.match("_e_EXT[_e_AM]", a)
        if e is not None and V.match("_e_X[::-1]", a) is None:
            rect = e
            rect["R"] = V.dag._ident(a)
    if rect is None:
        R.piece("the returned rectangle", "_e_EXT[_e_AM]", re_alts[0])
    else:
        swapped = [a for a in re_alts if V.dag._ident(a) != rect["R"]]
        R.demand("the rectangle is the extents row of one candidate (or that row reversed)",
                 all(V.match("_e_R[::-1]", a, {"_e_R": rect["R"]}) is not None for a in swapped),
                 "the alternatives of the returned rectangle are not one candidate's extents and its reverse", "rectangle-alternatives")
        e = R.piece("the candidate extents", ["numpy.diff(_e_B.reshape((-1, 2, 2)), axis=1).reshape((-1, 2))",
                                             "numpy.column_stack((_e_x2.max(axis=1) - _e_x1.min(axis=1), _e_y2.max(axis=1) - _e_y1.min(axis=1)))"], rect["_e_EXT"])
        B = None
        if e is not None and "_e_B" in e:
            B = e["_e_B"]
            e = R.piece("the candidate bounds", "numpy.column_stack((_e_x1.min(axis=1), _e_y1.min(axis=1), _e_x2.max(axis=1), _e_y2.max(axis=1)))", B)
        if e is not None:
            R.same("the rectangle bounds take min and max of the same two projections", e, [("_e_x1", "_e_x2"), ("_e_y1", "_e_y2")],
                   "the lower and upper bounds of the rectangle are taken over different projections, so the rectangle need not contain the points", "bounds-pairs")
            ex = R.piece("the projection on the edge direction", "numpy.dot(_e_E, _e_H1.T)", e["_e_x1"])
            ey = ex and R.piece("the projection on the perpendicular", "numpy.dot(_e_PV, _e_H2.T)", e["_e_y1"], ex)
            if ey:
                R.same("both projections are taken of the same hull points", ey, [("_e_H1", "_e_H2")], "the two projections are measured on different point sets", "hull-points")
                pvn = V.match("numpy.fliplr(_e_E2) * [-1.0, 1.0]", ey["_e_PV"]) or V.match("numpy.fliplr(_e_E2) * [1.0, -1.0]", ey["_e_PV"]) \
                    or V.match("numpy.column_stack((-_e_E2[:, 1], _e_E2[:, 0]))", ey["_e_PV"])
                if pvn is None:
                    loose = V.match("numpy.fliplr(_e_E2) * _e_sg", ey["_e_PV"])
                    if loose is not None:
                        R.demand("the second direction is the first rotated by a quarter turn", False,
                                 f"the second projection direction `{V.text(ey['_e_PV'], 2, 80)}` is not perpendicular to the edge direction: the rectangle is not a rectangle", "perpendicular")
                    else:
                        R.piece("the perpendicular direction", "numpy.fliplr(_e_E2) * [-1.0, 1.0]", ey["_e_PV"])
                else:
                    pvn["_e_E"] = ey["_e_E"]
                    R.same("the second direction is the first rotated by a quarter turn", pvn, [("_e_E", "_e_E2")],
                           "the perpendicular is not derived from the edge directions that are projected on", "perpendicular-source")
                # the transform belongs to the same candidate
                pm = None
                for a in tr_alts:
                    pm = pm or V.match("trimesh.transformations.planar_matrix(offset=_e_OFF, theta=_e_TH)", a) or V.match("trimesh.transformations.planar_matrix(offset=_e_OFF, theta=_e_TH)", a)
                if pm is None:
                    R.piece("the returned transform", "trimesh.transformations.planar_matrix(offset=_e_OFF, theta=_e_TH)", tr_alts[0])
                else:
                    others = [a for a in tr_alts if V.match("trimesh.transformations.planar_matrix(offset=_e_OFF, theta=_e_TH)", a, pm) is None
                              and V.match("trimesh.transformations.planar_matrix(offset=_e_OFF, theta=_e_TH)", a, pm) is None]
                    R.demand("the alternatives of the transform are the planar matrix and the axis swap applied to it",
                             all(V.match("numpy.dot(_e_F, trimesh.transformations.planar_matrix(offset=_e_OFF, theta=_e_TH))", a, pm) is not None for a in others),
                             "the returned transform is not (an axis swap of) the planar matrix of the chosen candidate", "transform-alternatives")
                    off = None
                    for t_ in ("-_e_B2[_e_i2][_e_sl] - _e_R2 * 0.5", "-(_e_B2[_e_i2][_e_sl] + _e_R2 * 0.5)", "-_e_B2[_e_i2][_e_sl] - _e_R2 / 2", "-_e_B2[_e_i2][_e_sl] - 0.5 * _e_R2"):
                        off = off or V.match(t_, pm["_e_OFF"])
                    if off is None:
                        R.piece("the offset of the planar matrix", "-_e_B2[_e_i2][_e_sl] - _e_R2 * 0.5", pm["_e_OFF"])
                    else:
                        off.update({"B": B, "AM": rect["_e_AM"], "R": rect["R"], "lo": ":2"})
                        R.same("rectangle, offset and angle are read at the same candidate index; the offset is minus the lower corner minus half the rectangle", off,
                               [("_e_B2", "B"), ("_e_i2", "AM"), ("_e_R2", "R"), ("_e_sl", "lo")],
                               "the offset is not `-(lower corner of the chosen candidate) - rectangle / 2`: the transform no longer centres the reported rectangle on the points", "same-index")
                    th = V.match("numpy.arctan2(*_e_E3[_e_i3][::-1])", pm["_e_TH"]) or V.match("numpy.arctan2(_e_E3[_e_i3][1], _e_E3[_e_i3][0])", pm["_e_TH"])
                    if th is None:
                        R.piece("the angle of the planar matrix", "numpy.arctan2(*_e_E3[_e_i3][::-1])", pm["_e_TH"])
                    else:
                        th.update({"E": ey["_e_E"], "AM": rect["_e_AM"]})
                        R.same("the angle is that of the chosen candidate's edge direction", th, [("_e_E3", "E"), ("_e_i3", "AM")],
                               "the rotation angle is read from a different edge than the rectangle", "angle-index")
    # algebra: planar_matrix(offset, theta) applied to p, with (c, s) the unit edge
    pm = ix.func("trimesh.transformations:planar_matrix")
    c, s, px, py, xmin, xmax, ymin, ymax = sp.symbols("c s px py xmin xmax ymin ymax", real=True)
    th = sp.Symbol("theta", real=True)
    it = Interp(ix, trig=lambda name, x: {"sin": s, "cos": c}[name] if x == th else (_ for _ in ()).throw(Unsupported(f"trig of {x}")),
                decisions={"not np.isfinite(theta)": False, "np.isfinite(theta)": True})
    it.stubs["trimesh.transformations:transform_around"] = lambda itp, args, kw: (_ for _ in ()).throw(Unsupported("point"))
    off = np.array([-xmin - (xmax - xmin) * sp.Rational(1, 2), -ymin - (ymax - ymin) * sp.Rational(1, 2)], dtype=object)
    try:
        T = arr(it.call(pm, [], {"offset": off, "theta": th}))
    except Unsupported as e:
        raise AnalysisError(f"E3 cannot translate planar_matrix: {e}")
    q = T.dot(np.array([px, py, 1], dtype=object))
    ex, ey = c * px + s * py, -s * px + c * py
    ok = sp.expand(q[0] - (ex - (xmin + xmax) / 2)) == 0 and sp.expand(q[1] - (ey - (ymin + ymax) / 2)) == 0 and sp.expand(q[2] - 1) == 0
    run.obligation("B1", pm.where, "planar_matrix(-(min) - spread/2, theta).p == (e.p - (xmin+xmax)/2, e_perp.p - (ymin+ymax)/2) with e = (cos, sin) theta", ok)
    if not ok:
        run.violation("B1", pm.where, "the planar transform returned with the rectangle does not centre the projections it was measured on", key=key_of("C16-B1", "algebra"))

    # ------------------------------------------------------------------ B2
    f3 = ix.func("trimesh.bounds:oriented_bounds")
    V3 = Values(ix, f3)
    R = _Rel(run, "B2", f3, V3)
    rets = [r for r in V3.returns() if isinstance(r.value, ast.Tuple) and len(r.value.elts) == 2]
    if not rets:
        raise AnalysisError("anchor vanished: `return to_origin, extents` in oriented_bounds")
    # the return that comes out of the search (the others delegate to the 2D / coplanar routines)
    main = max(rets, key=lambda r_: r_.lineno)
    to_alts = _unphi(V3, V3.value(main.value.elts[0], main))
    ex_alts = _unphi(V3, V3.value(main.value.elts[1], main))
    base = None
    for a in to_alts:
        base = base or V3.match("STORE(_e_M, _[:3, 3], -_e_C)", a)
    if base is None:
        R.piece("the returned matrix", "STORE(_e_M, _[:3, 3], -_e_C)", to_alts[0])
    else:
        cen = None
        for t_ in ("_e_T1.min(axis=0) + numpy.ptp(_e_T2, axis=0) * 0.5", "_e_T1.min(axis=0) + (_e_T2.max(axis=0) - _e_T3.min(axis=0)) * 0.5",
                   "(_e_T1.min(axis=0) + _e_T2.max(axis=0)) * 0.5", "(_e_T1.min(axis=0) + _e_T2.max(axis=0)) / 2"):
            cen = cen or V3.match(t_, base["_e_C"])
        if cen is None:
            loose = V3.match("_e_T1.mean(axis=0)", base["_e_C"])
            if loose is not None:
                R.demand("the box is centred on the middle of the min / max of the transformed points", False,
                         "the translation centres the box on the MEAN of the points, not on the middle of their min / max: points on the sparse side stick out of the box", "centre")
            else:
                R.piece("the box centre", "_e_T1.min(axis=0) + numpy.ptp(_e_T2, axis=0) * 0.5", base["_e_C"])
        else:
            cen.setdefault("_e_T3", cen["_e_T1"])
            tp = V3.match("trimesh.transformations.transform_points(points=_e_V, matrix=_e_M2)", cen["_e_T1"])
            env = dict(cen)
            env.update(tp or {})
            env["M"] = base["_e_M"]
            pairs = [("_e_T1", "_e_T2"), ("_e_T1", "_e_T3")] + ([("_e_M2", "M")] if tp else [])
            R.same("the box is centred on the min / max of the points under the matrix that is returned", env, pairs,
                   "the translation is not minus the centre of the points transformed by the returned matrix: the box is not centred on them", "centre")
    plain = None
    for a in ex_alts:
        plain = plain or V3.match("numpy.append(trimesh.bounds.oriented_bounds_2D(points=_e_PA[:, :2])[1], numpy.ptp(_e_PB[:, 2]))", a)
    if plain is None:
        R.piece("the returned extents", "numpy.append(trimesh.bounds.oriented_bounds_2D(points=_e_PA[:, :2])[1], numpy.ptp(_e_PB[:, 2]))", ex_alts[0])
    else:
        R.same("height and base rectangle are measured on the same projection", plain, [("_e_PA", "_e_PB")],
               "the height and the base rectangle are measured on different projections of the points", "same-projection")
        if base is not None:
            rot = V3.match("numpy.dot(trimesh.transformations.planar_matrix_to_3D(matrix_2D=STORE(trimesh.bounds.oriented_bounds_2D(points=_e_PC[:, :2])[0], _[:2, 2], 0.0)), _e_M2D)", base["_e_M"])
            if rot is not None:
                rot["PA"] = plain["_e_PA"]
                R.same("the in-plane rotation comes from the same 2D call as the base rectangle", rot, [("_e_PC", "PA")],
                       "the rotation about the normal and the base rectangle come from different 2D projections", "rotation-source")
    # the re-ordering matrix: abstract interpretation in the domain of SIGNED PERMUTATION matrices (sign, permutation), for each
    # of the six orders the extents can come in.  det(s * P_sigma) = s^3 * parity(sigma); `-M`, `M *= -1`, `dot(M, -I)` flip s;
    # `eye(3)[order]` is (+1, order); tests on the determinant or on entries of `order` are evaluated exactly.
    _reorder_enumeration(run, ix, f3)
    fl = None
    for a in to_alts:
        fl = fl or V3.match("numpy.dot(_e_FLIP, _e_TO)", a)
    if fl is not None and plain is not None:
        inits = [V3.match("STORE(numpy.eye(4), _[:3, :3], -numpy.eye(3)[_e_ORD])", x) or V3.match("STORE(STORE(numpy.eye(4), _[:3, :3], -numpy.eye(3)[_e_ORD]), _[:3, :3], _e_neg)", x)
                 for x in _unphi(V3, fl["_e_FLIP"])]
        okf = all(i is not None for i in inits) and len({i["_e_ORD"] for i in inits if i}) == 1
        ordered_ext = [a for a in ex_alts if V3.match("_e_X[_e_ORD2]", a) is not None and V3.match("numpy.append(_e_a, _e_b)", a) is None]
        if okf and ordered_ext:
            oe = V3.match("_e_X[_e_ORD2]", ordered_ext[0])
            oe["ORD"] = inits[0]["_e_ORD"]
            R.same("the re-ordering matrix starts as -I[order] with the order that re-orders the extents", oe, [("_e_ORD2", "ORD")],
                   "the axis re-ordering matrix and the re-ordered extents use different orders", "flip-init")
        elif not all(i is not None for i in inits) or not ordered_ext:
            run.instance("B2", f3.where, "construction of the axis re-ordering matrix not in a recognised form - NOT decided", True, nontrivial=False)
            run.assume("oriented_bounds: the construction of the axis re-ordering matrix is not in a recognised form")
        else:
            run.instance("B2", f3.where, f"re-ordering matrix starts as -I[order] with one order: {okf}", okf)
            if not okf:
                run.violation("B2", f3.where, "the alternatives of the axis re-ordering matrix of oriented_bounds start from different orders", key=key_of("C16-B2", "flip-init"))

    # ------------------------------------------------------------------ B3
    fs = ix.func("trimesh.nsphere:minimum_nsphere")
    Vs = Values(ix, fs)
    R = _Rel(run, "B3", fs, Vs)
    rets = [r for r in Vs.returns() if isinstance(r.value, ast.Tuple) and len(r.value.elts) == 2]
    if not rets:
        raise AnalysisError("anchor vanished: `return centre, radius` in minimum_nsphere")
    seen = set()
    for r in rets:
        cn, rn = Vs.value(r.value.elts[0], r), Vs.value(r.value.elts[1], r)
        sig = (Vs.dag._ident(cn), Vs.dag._ident(rn))
        if sig in seen:
            continue
        seen.add(sig)
        c_ = Vs.match("_e_C * _e_S1 + _e_O", cn)
        if c_ is None:
            bare = Vs.match("_e_C + _e_O", cn)
            scaled_r = Vs.match("_e_X * _e_S2", rn)
            if bare is not None and scaled_r is not None and Vs.dag.contains(bare["_e_O"], "P_obj") \
                    and scaled_r["_e_S2"] not in [Vs.dag._ident(x) for x in Vs.dag._flat_c(ast.Name(id=bare["_e_C"], ctx=ast.Load()), ast.Mult)]:
                R.demand("centre and radius are mapped back to world units with the same scale", False,
                         f"the returned radius is multiplied by `{Vs.text(scaled_r['_e_S2'], 2, 60)}` but the centre `{Vs.text(cn, 2, 80)}` is not: centre and radius are in different units", "scale")
            else:
                R.piece("a returned centre", "_e_C * _e_S1 + _e_O", cn)
            continue
        # radius: sqrt(max squared distance to that centre) in unit coordinates, times the same scale
        rr = None
        for t_ in ("((_e_P - _e_C2) ** 2).sum(axis=1).max() ** 0.5 * _e_S2", "numpy.sqrt(((_e_P - _e_C2) ** 2).sum(axis=1).max()) * _e_S2"):
            rr = rr or Vs.match(t_, rn)
        if rr is not None:
            env = dict(c_)
            env.update(rr)
            R.same("fit candidate: the radius is the largest distance to the centre that is returned, both un-scaled alike", env, [("_e_C", "_e_C2"), ("_e_S1", "_e_S2")],
                   "the fit radius is not measured against the returned fit centre (or the two are un-scaled differently): the sphere need not contain the points", "fit")
            continue
        vv = Vs.match("numpy.sqrt(_e_R2[_e_I2]) * _e_S2", rn) or Vs.match("_e_R2[_e_I2] ** 0.5 * _e_S2", rn)
        cv = Vs.match("_e_VERTS[_e_I1]", c_["_e_C"])
        if vv is None or cv is None:
            R.piece("a returned radius", "numpy.sqrt(_e_R2[_e_I2]) * _e_S2", rn)
            continue
        env = dict(c_)
        env.update(vv)
        env.update(cv)
        R.same("Voronoi candidate: centre and radius are read at the same index and un-scaled alike", env, [("_e_I1", "_e_I2"), ("_e_S1", "_e_S2")],
               "the Voronoi centre and its radius are read at different indices (or un-scaled differently): a centre paired with another candidate's radius does not bound the points", "voronoi")
        # the per-candidate radii: max over the points of the squared distance to each candidate (both code paths)
        for alt in _unphi(Vs, vv["_e_R2"]):
            a1 = Vs.match("scipy.spatial.distance.cdist(_e_CV, _e_PTS, metric='sqeuclidean').max(axis=1)", alt)
            a2 = Vs.match("[((_e_PTS - v) ** 2).sum(axis=1).max() for v in _e_CV]", alt)
            a = a1 or a2
            if a is None:
                loose = Vs.match("scipy.spatial.distance.cdist(_e_CV, _e_PTS, metric='sqeuclidean')._e_red(axis=1)", alt)
                red = Vs.dag.node(alt)
                if isinstance(red, ast.Call) and isinstance(Vs.dag.node(red.func), ast.Attribute) and Vs.dag.node(red.func).attr in ("mean", "min", "median", "sum"):
                    R.demand("candidate radius^2 is the MAX squared distance over the points", False,
                             f"the radius of a candidate centre is the `{Vs.dag.node(red.func).attr}` of the distances to the points, not their maximum: the sphere does not contain them", "radii-max")
                else:
                    R.piece("the candidate radii", "scipy.spatial.distance.cdist(_e_CV, _e_PTS, metric='sqeuclidean').max(axis=1)", alt)
                continue
            a["VERTS"] = cv["_e_VERTS"]
            R.same("candidate radius^2 = max over the points of the squared distance to the candidates that the centre is taken from", a, [("_e_CV", "VERTS")],
                   "the candidate radii are measured from other centres than the one that is returned", "radii-centres")

    # ------------------------------------------------------------------ B4
    fb = ix.func("trimesh.parent:Geometry3D.bounding_box")
    pb = Prov(ix, fb)
    tr = [c_ for _, c_ in _canon_defs(pb, fb, "transform[:3, 3]")]
    rets = [pb.canon(r.value, r) for r in ast.walk(fb.node) if isinstance(r, ast.Return) and r.value is not None]
    ok = tr == ["P_self.bounds.mean(axis=0)"] and len(rets) == 1 and "extents=P_self.extents" in rets[0]
    run.instance("B4", fb.where, f"AABB: centre {tr}, box {rets}", ok)
    if not ok:
        run.violation("B4", fb.where, f"bounding_box is not centred on the mean of the bounds with the extents of the geometry ({tr}, {rets})", key=key_of("C16-B4", "aabb"))
    for spec, wanted in (("trimesh.base:Trimesh.extents", ("numpy.ptp(P_self.bounds, axis=0)",)),):
        try:
            fe = ix.func(spec)
        except Exception:
            continue
        pe = Prov(ix, fe)
        rr = [pe.canon(r.value, r) for r in ast.walk(fe.node) if isinstance(r, ast.Return) and r.value is not None]
        ok = any(w in rr for w in wanted)
        run.instance("B4", fe.where, f"extents := {rr}", ok)
        if not ok:
            run.violation("B4", fe.where, f"Trimesh.extents is {rr}, not the spread of the bounds", key=key_of("C16-B4", "extents"))
    fo = ix.func("trimesh.parent:Geometry3D.bounding_box_oriented")
    po = Prov(ix, fo)
    rets = [po.canon(r.value, r) for r in ast.walk(fo.node) if isinstance(r, ast.Return) and r.value is not None]
    ok = len(rets) == 1 and "transform=numpy.linalg.inv(trimesh.bounds.oriented_bounds(P_self)[0])" in rets[0] and "extents=trimesh.bounds.oriented_bounds(P_self)[1]" in rets[0]
    run.instance("B4", fo.where, f"oriented box := {rets}", ok)
    if not ok:
        run.violation("B4", fo.where, f"bounding_box_oriented does not place a box of the reported extents with the inverse of the to-origin transform ({rets})", key=key_of("C16-B4", "obb"))
    fh = ix.func("trimesh.convex:convex_hull")
    Vh = Values(ix, fh)
    R = _Rel(run, "B4", fh, Vh)
    ctor = [c_ for c_ in ast.walk(fh.node) if isinstance(c_, ast.Call) and Vh.pv.callee(c_.func) == "trimesh.base.Trimesh"]
    if not ctor:
        raise AnalysisError("anchor vanished: the Trimesh(...) construction of convex_hull")
    for c_ in ctor:
        st_ = Vh.pv.stmt_of(c_)
        kw = {k.arg: k.value for k in c_.keywords if k.arg}
        for i_, a_ in enumerate(c_.args[:2]):
            kw.setdefault(("vertices", "faces")[i_], a_)
        if "vertices" not in kw or "faces" not in kw:
            continue
        vn, fn_ = Vh.value(kw["vertices"], st_), Vh.value(kw["faces"], st_)
        e = R.piece("the hull's vertices", ["_e_H.points[_e_VID].copy()", "_e_H.points[_e_VID]"], vn)
        if e is None:
            continue
        R.demand("hull vertices are rows of the points handed to qhull", Vh.dag.contains(e["_e_H"], "P_points") or Vh.dag.contains(e["_e_H"], "P_obj"),
                 "the vertices of the hull are not rows of the input points", "hull-vertices")
        hits = Vh.dag.find("STORE(numpy.zeros(len(_e_H2.points), dtype=numpy.int64), _[_e_VID2], numpy.arange(len(_e_VID3)))[_e_H3.simplices]", fn_)
        if not hits:
            run.instance("B4", fh.where, "re-indexing of the hull faces: not in a recognised form - NOT decided", True, nontrivial=False)
            run.assume("convex_hull: the re-indexing of qhull's simplices is not in a recognised form")
        else:
            env = dict(hits[0][0])
            env.update({"H": e["_e_H"], "VID": e["_e_VID"]})
            R.same("faces are qhull's simplices re-indexed by the position of each kept vertex in the vertex selection", env,
                   [("_e_H2", "H"), ("_e_H3", "H"), ("_e_VID2", "VID"), ("_e_VID3", "VID")],
                   "the hull faces are re-indexed with a different vertex selection than the one that builds the vertex array: faces point at the wrong vertices", "hull-reindex")
    # ------------------------------------------------------------------ B5 absolute constants only on rescaled quantities
    run.rule("B5", "minimum_nsphere rescales its points to a unit cube so that its fixed thresholds mean the same for a model in millimetres and in kilometres: "
                   "every comparison against a non-zero numeric constant is made on a quantity of length exponent 0 (dimension analysis, sa/units.py); "
                   "what is returned is back in model units (exponent 1)")
    from fractions import Fraction

    from ..units import Units
    fn = ix.func("trimesh.nsphere:minimum_nsphere")
    un = Units(ix)
    ret = un.analyse(fn, {fn.params[0]: Fraction(1)})
    n5 = 0
    for f_, c_, a_, b_, la_, lb_ in un.compares:
        lit, other = (lb_, a_) if lb_ is not None else ((la_, b_) if la_ is not None else (None, None))
        if lit is None or lit == 0:
            continue
        n5 += 1
        where_ = f"{f_.module.rel}:{c_.lineno} {f_.qualname}"
        if isinstance(other, Fraction) and other != 0:
            run.instance("B5", where_, f"`{ast.unparse(c_)[:70]}`: quantity of length exponent {other} against the constant {lit}", False)
            run.violation("B5", where_, f"`{ast.unparse(c_)[:80]}` compares a quantity that scales with the size of the model (length exponent {other}) with the absolute "
                                        f"constant {lit}: after the rescaling to a unit cube was undone (or before it was applied) the threshold means something else for "
                                        f"every unit of length - small models always pass the on-a-sphere shortcut, large ones never do",
                          key=key_of("C16-B5", f_.qualname, ast.unparse(c_)[:60]))
        elif isinstance(other, Fraction):
            run.instance("B5", where_, f"`{ast.unparse(c_)[:70]}`: dimensionless quantity against the constant {lit}", True)
        else:
            run.instance("B5", where_, f"`{ast.unparse(c_)[:70]}`: exponent not determined - NOT decided", True, nontrivial=False)
    # two quantities compared with each other have the same exponent
    for f_, c_, a_, b_, la_, lb_ in un.compares:
        if f_ is fn and la_ is None and lb_ is None and isinstance(a_, Fraction) and isinstance(b_, Fraction):
            ok = a_ == b_
            run.instance("B5", f"{f_.module.rel}:{c_.lineno} {f_.qualname}", f"`{ast.unparse(c_)[:70]}`: exponents {a_} and {b_}", ok)
            if not ok:
                run.violation("B5", f"{f_.module.rel}:{c_.lineno} {f_.qualname}", f"`{ast.unparse(c_)[:80]}` compares a quantity of length exponent {a_} with one of exponent "
                                                                                  f"{b_}: one side is in unit-cube units, the other in model units",
                              key=key_of("C16-B5", f_.qualname, "mixed", ast.unparse(c_)[:60]))
    # every return gives centre and radius back in model units
    n_ret = 0
    for f_, r_, d_ in un.returns:
        if f_ is not fn or not (isinstance(d_, tuple) and len(d_) == 2):
            continue
        known = [x for x in d_ if isinstance(x, Fraction)]
        if not known:
            continue
        n_ret += 1
        ok = all(x == 1 for x in known)
        run.instance("B5", f"{fn.module.rel}:{r_.lineno} {fn.qualname}", f"`{ast.unparse(r_)[:60]}`: length exponents {tuple(str(x) for x in d_)}", ok)
        if not ok:
            run.violation("B5", f"{fn.module.rel}:{r_.lineno} {fn.qualname}", f"`{ast.unparse(r_)[:60]}` returns centre / radius with length exponents "
                                                                             f"{tuple(str(x) for x in d_)}: the rescaling to a unit cube is not undone on what is returned",
                          key=key_of("C16-B5", "returns", ast.unparse(r_)[:40]))
    if n_ret == 0:
        run.instance("B5", fn.where, "exponents of the returned centre / radius not determined - NOT decided", True, nontrivial=False)
        run.assume("minimum_nsphere: length exponents of the returned values not determined")
    run.assume("the direction / centre searches (qhull, Voronoi, least squares, optimiser), convexity and watertightness of qhull output, minimality and bounding_cylinder are not decided")
    # ------------------------------------------------------------------ B6 bounding routines never write through what they are given
    run.rule("B6", "the bounding / hull routines (nsphere.py, bounds.py, convex.py) are read-only on their arguments: no in-place write reaches an array of the "
                   "object they measure - in particular not the vertices of its memoised convex hull, which hull_points hands out without a copy")
    from ..effects import Effects
    ef6 = Effects(ix)
    n6 = 0
    for f_ in ix.all_functions:
        if f_.module.name not in ("trimesh.nsphere", "trimesh.bounds", "trimesh.convex") or f_.parent is not None or f_.cls is not None or not f_.params:
            continue
        if f_.name.startswith("_"):
            # a private helper works on its caller's locals; what it does to an argument of the PUBLIC routine is in that routine's
            # summary (the effect analysis is interprocedural)
            continue
        s_ = ef6.summary(f_, None)
        n6 += 1
        bad = []
        for (r_, p_, k_) in sorted(s_.writes):
            if r_ not in f_.params or k_ == "memo" or "_cache" in p_:
                continue
            bad.append((r_, ".".join(p_), k_, s_.sites.get((r_, p_, k_), (0, ""))[1]))
        ok = not bad
        run.instance("B6", f_.where, f"{f_.qualname}({', '.join(f_.params[:3])}): " + ("no write through an argument" if ok else f"writes {bad[:2]}"), ok)
        for r_, path_, kind_, site_ in bad[:3]:
            run.violation("B6", f_.where, f"`{f_.qualname}` changes what it was asked to measure: {kind_} write of `{r_}{'.' + path_ if path_ else ''}` (at `{site_}`) - when that is the "
                                          f"vertex array of the object's cached convex hull, every bounding volume computed afterwards is built on the shifted / rescaled points",
                          key=key_of("C16-B6", f_.qualname, r_, path_))
    run.floor("bounding routines analysed for write effects", n6, 10)
    return {
        "explanation": "Canonical-form structural rules plus one polynomial identity and one finite enumeration: whatever candidate the numerical search picks, the reported "
        "rectangle / box / sphere is measured on the points with that same candidate and centred on their min / max, so containment holds by construction; the axis "
        "re-ordering of the oriented box is a det +1 signed permutation for all six orders. Decides only that.",
    }
