"""C18 - repair and subdivision (narrow).

Decides: (R1) the winding / normal repair functions have no write path to vertex positions,
visuals or attributes ("without moving a vertex or changing the triangle set"); (R2) fill_holes
and subdivide build vertices and faces as (original, new) stacks with the original first;
(R3) the 4-child table of subdivide, read with the producer's edge layout, yields children whose
cross products are each a quarter of the parent's and sum to it (polynomial identity: area and
orientation preserved by construction); (R4) the faces to subdivide are selected by an idempotent
mask and the untouched faces are its complement; (R5) the per-body inversion repair is reached
for every watertight mesh and flips exactly the bodies with negative volume.
"""
from __future__ import annotations

import ast

import sympy as sp

from ..effects import Effects
from ..index import Index
from ..layout import child_table, edge_columns
from ..report import AnalysisError, key_of

LEVEL = "other"

REPAIR = [("trimesh.repair:fix_winding", None), ("trimesh.repair:fix_inversion", None), ("trimesh.repair:fix_normals", None),
          ("trimesh.base:Trimesh.invert", "Trimesh"), ("trimesh.base:Trimesh.fix_normals", "Trimesh")]


def check(run):
    ix = Index(run.repo)
    ef = Effects(ix)
    run.analysed.update(ix.stats())
    run.rule("R1", "repair functions write faces (and memo entries) only: never vertices, visuals, attributes or metadata")
    run.rule("R2", "fill_holes / subdivide append: original vertices (and untouched faces) come first in every stack")
    run.rule("R3", "child table: each of the four children has cross product parent/4 with the parent's orientation, and they sum to the parent (polynomial identity)")
    run.rule("R4", "subdivide selects faces through a boolean mask (repeated indices are idempotent); untouched faces are the complement of the same mask")
    run.rule("R5", "fix_inversion: only early exit is non-watertight input; every body with negative volume is flipped, decided per body")

    T = ix.cls("trimesh.base.Trimesh")
    # ------------------------------------------------------------------ R1
    for spec, c in REPAIR:
        f = ix.func(spec)
        s = ef.summary(f, T if c else None)
        root = f.params[0]
        bad = []
        for (r, p, k) in sorted(s.writes):
            if r != root or k == "memo" or "_cache" in p:
                continue
            if p[:2] == ("_data", "[faces]"):
                continue
            bad.append((".".join(p), k, s.sites.get((r, p, k), (0, ""))[1]))
        ok = not bad
        run.instance("R1", f.where, f"{f.qualname}: writes faces only" if ok else f"{f.qualname}: also writes {bad[:3]}", ok)
        for path, kind, site in bad[:4]:
            run.violation("R1", f.where, f"`{f.qualname}` writes `{root}.{path}` ({kind}, at `{site}`): normal repair must not move vertices or touch "
                                         f"attached data", key=key_of("C18-R1", spec, path))
        # and it must actually be able to write faces (otherwise it repairs nothing)
        wf = any(r == root and p[:2] == ("_data", "[faces]") for (r, p, k) in s.writes)
        run.instance("R1", f.where, f"{f.qualname}: can re-wind faces: {wf}", wf)
        if not wf:
            run.violation("R1", f.where, f"`{f.qualname}` has no write path to faces any more: it cannot re-wind anything", key=key_of("C18-R1", spec, "no-face-write"))

    # ------------------------------------------------------------------ R2
    fh = ix.func("trimesh.repair:fill_holes")
    sd = ix.func("trimesh.remesh:subdivide")
    # by role, on canonical forms: what subdivide RETURNS and what fill_holes STORES INTO THE MESH is a row-wise stack whose
    # first part is the original array (any spelling of the stacking: sa/idioms.py; any local names: sa/provenance.py)
    import re

    from ..idioms import stack_rows
    from ..provenance import Prov
    from ..template import match_expr

    def first_part(text):
        try:
            node = ast.parse(text, mode="eval").body
        except SyntaxError:
            return None, None
        parts = stack_rows(node)
        if parts is None:
            return text, []
        return ast.unparse(parts[0]), [ast.unparse(x) for x in parts[1:]]

    psd = Prov(ix, sd, depth=12)
    n_ret = 0
    mids = []
    from ..idioms import returned_tuples
    for r, elts_ in returned_tuples(sd.node):
        if (psd.stmt_of_return(r) if isinstance(r, ast.Return) else psd.stmt_of(r.value)) is None:
            continue
        n_ret += 1
        where = f"{sd.module.rel}:{r.lineno} {sd.qualname}"
        v1, vrest = first_part(psd.canon(elts_[0], r))
        f1, frest = first_part(psd.canon(elts_[1], r))
        ok = v1 == "P_vertices"
        run.instance("R2", where, f"returned vertices = stack(({v1}, ...)): original first", ok)
        if not ok:
            run.violation("R2", where, f"subdivide does not put the original vertices first in what it returns (`{str(v1)[:60]}`): indices of existing "
                                       f"vertices / order of untouched faces change", key=key_of("C18-R2", sd.qualname, "new_vertices"))
        ok = f1 is not None and re.fullmatch(r"P_faces\[~\w+\]", f1) is not None
        run.instance("R2", where, f"returned faces = stack(({f1}, ...)): untouched faces first", ok)
        if not ok:
            run.violation("R2", where, f"subdivide does not put the untouched faces first in what it returns (`{str(f1)[:60]}`): indices of existing "
                                       f"vertices / order of untouched faces change", key=key_of("C18-R2", sd.qualname, "new_faces"))
        mids.append((vrest, frest))
    if n_ret == 0:
        raise AnalysisError("anchor vanished: `return new_vertices, new_faces` in subdivide")
    pfh = Prov(ix, fh, depth=12)
    mname = fh.params[0]
    n_st = 0
    for st in ast.walk(fh.node):
        if not (isinstance(st, ast.Assign) and ast.unparse(st.targets[0]) in (f"{mname}.faces", f"{mname}.vertices")):
            continue
        n_st += 1
        attr = ast.unparse(st.targets[0]).split(".")[-1]
        texts = pfh.alternatives(st.value.id, st) if isinstance(st.value, ast.Name) else {pfh.canon(st.value, st)}
        firsts = sorted({first_part(t)[0] or "?" for t in (texts or {"?"})})
        allowed = (f"P_{mname}.{attr}", f"P_{mname}._data['{attr}']")
        ok = all(x in allowed for x in firsts)
        where = f"{fh.module.rel}:{st.lineno} {fh.qualname}"
        run.instance("R2", where, f"`{mname}.{attr}` = stack(({firsts}, ...)): original first", ok)
        if not ok:
            run.violation("R2", where, f"`{ast.unparse(st)[:80]}` does not put the original {attr} first: indices of existing "
                                       f"vertices / order of untouched faces change", key=key_of("C18-R2", fh.qualname, "new_vertices" if attr == "vertices" else "mesh.faces"))
    if n_st < 2:
        raise AnalysisError("anchor vanished: the stores into mesh.faces / mesh.vertices of fill_holes")
    # midpoints are appended after len(vertices): mid_idx offset
    ok = bool(mids)
    for vrest, frest in mids:
        e_ = match_expr("P_vertices[_e_E[trimesh.grouping.unique_rows(_e_E)[0]]].mean(axis=1)", vrest[0]) if len(vrest) == 1 else None
        off = False
        if e_ and len(frest) == 1:
            for n_ in ast.walk(ast.parse(frest[0], mode="eval")):
                if isinstance(n_, ast.BinOp) and match_expr("trimesh.grouping.unique_rows(_e_E)[1].reshape((-1, 3)) + len(P_vertices)", n_, e_) is not None:
                    off = True
        if e_ is None:
            # the midpoints are computed in a way this rule does not recognise: not decided (never a violation)
            run.instance("R2", sd.where, f"midpoints `{(vrest[0] if vrest else '')[:60]}` not in a recognised form - NOT decided", True, nontrivial=False)
            run.assume("subdivide: the construction of the edge midpoints is not in a recognised form; offset and position of the midpoints are not decided")
            continue
        ok = ok and off
    run.instance("R2", sd.where, "midpoint indices start at len(vertices) and midpoints are means of the unique edges' end points", ok)
    if not ok:
        run.violation("R2", sd.where, "subdivide: midpoint index offset or midpoint position changed", key=key_of("C18-R2", "midpoints"))

    # ------------------------------------------------------------------ R3 polynomial identity
    _, pairs, _ = edge_columns(ix)
    V = [sp.Matrix(sp.symbols(f"v{i}x v{i}y v{i}z", real=True)) for i in range(3)]
    parent = (V[1] - V[0]).cross(V[2] - V[0])
    tables = {}
    for spec in ("trimesh.remesh:subdivide", "trimesh.remesh:subdivide_loop._subdivide"):
        f = ix.func(spec)
        try:
            tris, fv, mv, w = child_table(f.node, spec)
        except AnalysisError as e_:
            run.instance("R3", f.where, f"child table of {spec.split(':')[1]} not in a recognised form ({str(e_)[:80]}) - NOT decided", True, nontrivial=False)
            run.assume(f"{spec}: the 4-child table is not in a recognised form; area / orientation preservation of its children is not decided")
            continue
        tables[spec] = tris
        if spec.endswith("_subdivide"):
            continue
        if len(tris) != 4:
            run.obligation("R3", f.where, f"{len(tris)} children", False)
            run.violation("R3", f.where, f"subdivide emits {len(tris)} children per face instead of 4", key=key_of("C18-R3", "count"))
            continue

        def pos(entry):
            kind, k = entry
            if kind == "v":
                return V[k]
            a, b = pairs[k]
            return (V[a] + V[b]) / 2

        total = sp.zeros(3, 1)
        for i, tri in enumerate(tris):
            a, b, c = [pos(e) for e in tri]
            cr = (b - a).cross(c - a)
            total += cr
            ok = all(sp.expand(cr[j] - parent[j] / 4) == 0 for j in range(3))
            run.obligation("R3", f.where, f"child {i} {tri}: cross == parent / 4", ok)
            if not ok:
                run.violation("R3", f.where, f"child triangle {i} {tri} of subdivide is not a quarter of its parent with the parent's orientation "
                                             f"(area / winding not preserved)", key=key_of("C18-R3", "child", i))
        ok = all(sp.expand(total[j] - parent[j]) == 0 for j in range(3))
        run.obligation("R3", f.where, "children's cross products sum to the parent's", ok)
        if not ok:
            run.violation("R3", f.where, "the four children do not tile the parent triangle", key=key_of("C18-R3", "sum"))
        # every corner and every midpoint is used, the centre child is made of the three midpoints
        used_v = sorted(k for tri in tris for kind, k in tri if kind == "v")
        ok = used_v == [0, 1, 2] and sum(1 for tri in tris if all(kind == "m" for kind, _ in tri)) == 1
        run.obligation("R3", f.where, "each corner used exactly once; exactly one all-midpoint child", ok)
        if not ok:
            run.violation("R3", f.where, "child table does not use each parent corner exactly once", key=key_of("C18-R3", "corners"))
    ok = len(tables) < 2 or tables["trimesh.remesh:subdivide"] == tables["trimesh.remesh:subdivide_loop._subdivide"]
    run.obligation("R3", "trimesh/remesh.py", "subdivide and subdivide_loop use the same child table", ok)
    if not ok:
        run.violation("R3", "trimesh/remesh.py subdivide_loop", "Loop subdivision connects children differently from midpoint subdivision",
                      key=key_of("C18-R3", "sibling-table"))

    # ------------------------------------------------------------------ R4
    # by role: the mask M is whatever complements the untouched faces in the returned stack (`P_faces[~M]`); every version of
    # M that reaches that use is all-True, or all-False with True stored at the requested indices (a repeated index cannot
    # select a face twice); the subdivided faces are `P_faces[M]` with the same M
    from ..idioms import nonzero_rows
    pss = Prov(ix, sd, depth=14, ssa=True)
    inv_uses = [n for n in ast.walk(sd.node) if isinstance(n, ast.UnaryOp) and isinstance(n.op, ast.Invert) and isinstance(n.operand, ast.Name)
                and isinstance(pss._stmt_of.get(id(n)), ast.stmt)]
    masks = {n.operand.id for n in inv_uses}
    ok = len(masks) == 1
    vers = None
    if ok:
        mname_ = next(iter(masks))
        vers = pss.versions(mname_, pss.stmt_of(inv_uses[0])) or set()
        ALL = {"numpy.ones(len(P_faces), dtype=bool)", "numpy.ones(len(P_faces), bool)", "numpy.ones(P_faces.shape[0], dtype=bool)",
               "numpy.full(len(P_faces), True)"}
        SEL = {"STORE(numpy.zeros(len(P_faces), dtype=bool), _[P_face_index], True)", "STORE(numpy.zeros(len(P_faces), bool), _[P_face_index], True)",
               "STORE(numpy.zeros(P_faces.shape[0], dtype=bool), _[P_face_index], True)"}
        ok = bool(vers) and vers <= (ALL | SEL) and bool(vers & SEL)
        # the rows that are subdivided are selected by the same mask
        subset = [n for n in ast.walk(sd.node) if isinstance(n, ast.Subscript) and isinstance(n.ctx, ast.Load) and ast.unparse(n) == f"faces[{mname_}]"]
        ok = ok and bool(subset)
    run.instance("R4", sd.where, f"faces selected by a boolean mask built from face_index; remainder is ~mask (versions of the mask: {sorted(vers or [])})", ok)
    if not ok:
        run.violation("R4", sd.where, "subdivide no longer selects faces through one boolean mask: a repeated index would be split twice while its parent "
                                      "is removed once, or split and untouched sets overlap", key=key_of("C18-R4", "mask"))
    # the index of children: dict(zip(<indices of the selected faces in mask order>, <rows of 4 consecutive new face ids>))
    ok = False
    seen_index = False
    for r, elts_ in returned_tuples(sd.node, 3):
        if len(elts_) == 3 and (pss.stmt_of_return(r) if isinstance(r, ast.Return) else pss.stmt_of(r.value)) is not None:
            term = pss.term(elts_[2], r)
            tn = ast.parse(ast.unparse(term), mode="eval").body
            if isinstance(tn, ast.Call) and ast.unparse(tn.func) == "dict":
                seen_index = True
            if isinstance(tn, ast.Call) and ast.unparse(tn.func) == "dict" and len(tn.args) == 1 and isinstance(tn.args[0], ast.Call) \
                    and ast.unparse(tn.args[0].func) == "zip" and len(tn.args[0].args) == 2:
                keys, vals = tn.args[0].args
                km = nonzero_rows(keys)
                four = match_expr("numpy.arange(_e_start, _e_start + len(_e_f) * 4).reshape((-1, 4))", vals)
                ok = km is not None and ast.unparse(km).startswith("PHI_") and four is not None
    if not ok and not seen_index:
        run.instance("R4", sd.where, "the index of children returned by subdivide is not a `dict(zip(...))` in a recognised place - NOT decided", True, nontrivial=False)
        run.assume("subdivide: returned index of children not in a recognised form")
        ok = True
    else:
        run.instance("R4", sd.where, "return_index maps each selected face (in mask order) to its four children", ok)
    if not ok:
        run.violation("R4", sd.where, "subdivide's index of children no longer follows the mask order", key=key_of("C18-R4", "index"))

    # ------------------------------------------------------------------ R5
    fi = ix.func("trimesh.repair:fix_inversion")
    from ..pathsum import summaries
    from ..provenance import Prov
    from ..template import match_expr
    pfi = Prov(ix, fi, depth=10)
    mp_, mb_ = fi.params[0], fi.params[1]

    def cfi(e, origin=None):
        st_ = pfi.stmt_of(origin if origin is not None else e)
        return pfi.canon(e, st_) if st_ is not None else ast.unparse(e)

    GROUPS = f"trimesh.graph.connected_components(P_{mp_}.face_adjacency)"
    from ..dag import Values
    Vfi = Values(ix, fi)
    GV = f"trimesh.graph.connected_components(edges=P_{mp_}.face_adjacency)"
    VOLT = [f"trimesh.triangles.mass_properties(crosses=P_{mp_}.triangles_cross[_F_], skip_inertia=True, triangles=P_{mp_}.triangles[_F_])['volume']",
            f"trimesh.triangles.mass_properties(crosses=P_{mp_}.triangles_cross[_F_], skip_inertia=True, triangles=P_{mp_}.triangles[_F_]).volume",
            f"trimesh.triangles.mass_properties(skip_inertia=True, triangles=P_{mp_}.triangles[_F_])['volume']",
            f"trimesh.triangles.mass_properties(triangles=P_{mp_}.triangles[_F_])['volume']"]
    # the per-body loop: over the connected components, possibly zipped with the per-component volumes
    body_loops = []
    for n_ in ast.walk(fi.node):
        if isinstance(n_, ast.For):
            itn = Vfi.value(n_.iter, n_)
            if Vfi.match(GV, itn) is not None or Vfi.match(f"zip({GV}, _e_VOLS)", itn) is not None:
                body_loops.append(n_)
    VOLNEG = (f"P_{mp_}.volume < 0.0", f"P_{mp_}.volume < 0")

    def _inverts(st):
        return isinstance(st, ast.Expr) and isinstance(st.value, ast.Call) and ast.unparse(st.value.func) == f"{mp_}.invert"

    # ---- every way out of fix_inversion: not watertight / whole-mesh repair (single body) / after the per-body loop
    shortcuts, whole_bad = [], []
    n_paths = 0
    for ps in summaries(fi.node, canon=cfi):
        if ps.exit == "raise":
            continue
        n_paths += 1
        if ps.holds(f"P_{mp_}.is_watertight") is False:
            continue
        looped = any(st in body_loops for st in ps.stmts)
        if looped:
            continue
        single = ps.holds(f"P_{mb_}") is False or ps.holds(f"len({GROUPS}) == 1") is True or ps.holds(f"1 == len({GROUPS})") is True \
            or ps.holds(f"len({GROUPS}) > 1") is False or ps.holds(f"len({GROUPS}) < 2") is True
        if not single:
            shortcuts.append(sorted(("" if p_ else "not ") + t for t, p_ in ps.conds))
            continue
        neg = [ps.holds(t) for t in VOLNEG if ps.holds(t) is not None]
        if not neg or (neg[0] and not ps.has_stmt(_inverts)) or (not neg[0] and ps.has_stmt(_inverts)):
            whole_bad.append(sorted(("" if p_ else "not ") + t for t, p_ in ps.conds))
    ok = not shortcuts and bool(body_loops) and n_paths >= 4
    run.instance("R5", fi.where, f"{n_paths} ways out: not watertight, whole-mesh repair of a single body, or after the per-body loop", ok)
    if not ok:
        run.violation("R5", fi.where, f"fix_inversion returns early on {shortcuts[:2] or 'no per-body loop over the connected components'}: a whole-mesh shortcut skips the body-by-body repair for meshes it still has "
                                      f"to fix (e.g. a small inverted body inside a large correct one)", key=key_of("C18-R5", "early-exit"))
    ok = not whole_bad
    run.instance("R5", fi.where, "single body: inverted exactly when the signed volume is negative", ok)
    if not ok:
        run.violation("R5", fi.where, f"fix_inversion single-body branch changed ({whole_bad[:1]})", key=key_of("C18-R5", "single"))
    # ---- per body: the flag is raised under `signed volume of the body's own triangles < 0`, and the raised rows are reversed
    ok = False
    detail = "no per-body loop"
    for lp in body_loops:
        marks = [st for st in ast.walk(lp) if isinstance(st, ast.Assign) and isinstance(st.targets[0], ast.Subscript) and isinstance(st.targets[0].value, ast.Name)
                 and ast.unparse(st.value) == "True"]
        if len(marks) != 1:
            detail = f"{len(marks)} flag stores in the loop"
            continue
        mk = marks[0]
        idx = Vfi.value(mk.targets[0].slice, mk)
        each = Vfi.match(f"EACH({GV})", idx) is not None or Vfi.match(f"EACH(zip({GV}, _e_VOLS))[0]", idx) is not None
        tests = [(Vfi.value(i.test, i), pos) for i, pos in Vfi.pv.enclosing_tests(mk) if any(i is x for x in ast.walk(lp))]
        gok = False
        for g_, pos in tests:
            lt = Vfi.match("_e_VOL < 0.0", g_) or Vfi.match("_e_VOL < 0", g_)
            if not (lt and pos):
                continue
            F = Vfi.dag._ident(idx)
            if any(Vfi.match(t_.replace("_F_", F), lt["_e_VOL"]) is not None for t_ in VOLT):
                gok = True  # the volume of exactly the faces that get flagged
            zv = Vfi.match(f"EACH(zip({GV}, _e_VOLS))[1]", lt["_e_VOL"])
            if zv is not None and any(Vfi.match(f"[{t_.replace('_F_', '_v_f')} for _v_f in {GV}]", zv["_e_VOLS"]) is not None for t_ in VOLT):
                gok = True  # zipped: the i-th volume belongs to the i-th component
        mask = mk.targets[0].value.id
        flips = [st for st in ast.walk(fi.node) if isinstance(st, ast.Assign) and ast.unparse(st.targets[0]) == f"{mp_}.faces[{mask}]"
                 and ast.unparse(st.value) in (f"np.fliplr({mp_}.faces[{mask}])", f"{mp_}.faces[{mask}][:, ::-1]", f"numpy.fliplr({mp_}.faces[{mask}])")]
        ok = gok and each and len(flips) == 1
        detail = f"flag raised for the component whose own signed volume is negative: {gok and each}; rows of the flag reversed column-wise: {len(flips) == 1}"
    run.instance("R5", fi.where, f"per body: signed volume of the body's own triangles; negative bodies are flipped column-wise ({detail})", ok)
    if not ok:
        run.violation("R5", fi.where, "fix_inversion's per-body volume test or flip changed", key=key_of("C18-R5", "per-body"))
    from ..cfg import CFG
    fn = ix.func("trimesh.repair:fix_normals")
    pfn = Prov(ix, fn)
    cfgn = CFG(fn.node, exceptions=False)
    calls = {}
    for n_ in ast.walk(fn.node):
        if isinstance(n_, ast.Call) and pfn.callee(n_.func) in ("trimesh.repair.fix_winding", "trimesh.repair.fix_inversion"):
            calls.setdefault(pfn.callee(n_.func).split(".")[-1], []).append(n_)
    ok = len(calls.get("fix_winding", [])) == 1 and len(calls.get("fix_inversion", [])) == 1
    if ok:
        cw, ci = calls["fix_winding"][0], calls["fix_inversion"][0]
        nw, ni = cfgn.nodes_of.get(id(pfn.stmt_of(cw))), cfgn.nodes_of.get(id(pfn.stmt_of(ci)))
        _, pos, kw = pfn.canon_call(ci, pfn.stmt_of(ci))
        mb = kw.get("multibody", pos[1] if len(pos) > 1 else None)
        ok = bool(nw) and bool(ni) and cfgn.dominates(nw[0], ni[0]) and mb == f"P_{fn.params[1]}" \
            and pfn.canon(cw.args[0], pfn.stmt_of(cw)) == f"P_{fn.params[0]}" and (pos[:1] == [f"P_{fn.params[0]}"] or kw.get("mesh") == f"P_{fn.params[0]}")
    run.instance("R5", fn.where, "fix_normals: winding first, then inversion with multibody forwarded", ok)
    if not ok:
        run.violation("R5", fn.where, "fix_normals no longer runs fix_winding then fix_inversion(multibody=multibody)", key=key_of("C18-R5", "order"))
    tf = ix.func("trimesh.base:Trimesh.fix_normals")
    ptf = Prov(ix, tf)
    ok = False
    for n_ in ast.walk(tf.node):
        if isinstance(n_, ast.Call) and ptf.callee(n_.func) == "trimesh.repair.fix_normals":
            st_ = ptf.stmt_of(n_)
            _, pos, kw = ptf.canon_call(n_, st_)
            mbv = kw.get("multibody", pos[1] if len(pos) > 1 else None)
            alts = None
            mexp = next((k.value for k in n_.keywords if k.arg == "multibody"), n_.args[1] if len(n_.args) > 1 else None)
            if isinstance(mexp, ast.Name):
                alts = ptf.alternatives(mexp.id, st_)
            ok = (pos[:1] == ["P_self"] or kw.get("mesh") == "P_self") and (
                mbv in ("P_self.body_count > 1", "1 < P_self.body_count") or (alts is not None and alts <= {"P_multibody", "P_self.body_count > 1", "1 < P_self.body_count"}
                                                                             and bool(alts & {"P_self.body_count > 1", "1 < P_self.body_count"})))
    run.instance("R5", tf.where, "Trimesh.fix_normals picks multibody from body_count and forwards it", ok)
    if not ok:
        run.violation("R5", tf.where, "Trimesh.fix_normals no longer enables per-body repair for multi-body meshes", key=key_of("C18-R5", "wrapper"))
    inv = ix.func("trimesh.base:Trimesh.invert")
    pinv = Prov(ix, inv)
    stores = [st for st in ast.walk(inv.node) if isinstance(st, ast.Assign) and ast.unparse(st.targets[0]) == "self.faces"]
    ok = len(stores) == 1 and pinv.canon(stores[0].value, stores[0]) in ("numpy.fliplr(P_self.faces)", "numpy.flip(P_self.faces, axis=1)", "numpy.flip(P_self.faces, 1)")
    run.instance("R5", inv.where, "invert reverses every face column-wise", ok)
    if not ok:
        run.violation("R5", inv.where, "Trimesh.invert no longer reverses the winding of every face", key=key_of("C18-R5", "invert"))
    fw = ix.func("trimesh.repair:fix_winding")
    from ..windingrule import fix_winding_facts
    wf = fix_winding_facts(ix)
    ok = wf["n_flips"] == 1 and wf["guard_ok"] and wf["target_ok"] and wf["stored"]
    run.instance("R5", fw.where, "fix_winding reverses a face whose shared edge runs the same way as its neighbour's, and stores the faces", ok)
    if not ok:
        run.violation("R5", fw.where, "fix_winding's reversal test or store changed", key=key_of("C18-R5", "fix_winding"))
    # ------------------------------------------------------------------ R6 smallest fillable mesh
    run.rule("R6", "fill_holes gives up early only below three faces (a tetrahedron minus one face has three and can be closed); submesh(repair=True) keeps what fill_holes closed")
    fh = ix.func("trimesh.repair:fill_holes")
    thr = []
    for st in fh.node.body:
        if isinstance(st, ast.If) and isinstance(st.test, ast.Compare) and ast.unparse(st.test.left) == "len(mesh.faces)" and isinstance(st.test.ops[0], (ast.Lt, ast.LtE)) \
                and isinstance(st.test.comparators[0], ast.Constant) and any(isinstance(x, ast.Return) for x in st.body):
            n_ = st.test.comparators[0].value + (1 if isinstance(st.test.ops[0], ast.LtE) else 0)
            thr.append(n_)
    ok = all(n_ <= 3 for n_ in thr)
    run.instance("R6", fh.where, f"fill_holes returns early for len(faces) < {thr or 'never'}", ok)
    if not ok:
        run.violation("R6", fh.where, f"fill_holes refuses meshes with fewer than {max(thr)} faces: a tetrahedron missing one face (three faces, one triangular hole) is no longer closed",
                      key=key_of("C18-R6", "min-faces"))
    # ------------------------------------------------------------------ R8 edge identity is not packed by hand
    run.rule("R8", "remesh.py / repair.py: edges (rows of two vertex indices) are identified through grouping.unique_rows / group_rows, never through a key "
                   "packed by hand in the caller's index dtype (`e[:, 1] * n + e[:, 0]` wraps for 32-bit faces: two edges share a midpoint)")
    from ..idioms import hand_packed_keys
    n8 = 0
    for f_ in ix.all_functions:
        if f_.module.name not in ("trimesh.remesh", "trimesh.repair") or f_.parent is not None:
            continue
        src_ = ast.unparse(f_.node)
        if not any(k_ in src_ for k_ in ("unique", "argsort", "bincount", "searchsorted", "isin", "in1d", "lexsort", "group")):
            continue
        n8 += 1
        hits = hand_packed_keys(ix, f_)
        run.instance("R8", f_.where, f"{f_.qualname}: row identity established on hand-packed integer keys: {len(hits)}", not hits)
        for c_, key_, why_ in hits:
            run.violation("R8", f"{f_.module.rel}:{c_.lineno} {f_.qualname}", f"{why_}: for int32 / uint32 faces the product wraps once the vertex count "
                                f"passes ~46k / ~65k, distinct edges then share one key (and one midpoint); use grouping.unique_rows",
                          key=key_of("C18-R8", f_.qualname, "hand-packed"))
    run.floor("remesh / repair functions that de-duplicate", n8, 3)
    run.assume("real arithmetic; that BFS re-winding reaches consistency for every flip subset, hole detection, Euler number, edge-length bound and Loop "
               "masks are not decided")
    from ..passthrough import pass_through_rule
    for spec_ in ("trimesh.base:Trimesh.subdivide_to_size", "trimesh.base:Trimesh.subdivide", "trimesh.base:Trimesh.subdivide_loop"):
        core_ = {"subdivide_to_size": "subdivide_to_size", "subdivide": "subdivide", "subdivide_loop": "subdivide_loop"}[spec_.split(".")[-1]]
        pass_through_rule(run, ix, "R9", "C18", spec_, core_,
                          "Trimesh.subdivide / subdivide_to_size / subdivide_loop: every result comes out of the remesh routine of the same name; only an empty mesh may return before it",
                          "a bound on the bounding box (or any other proxy) says nothing about individual edges - a unit box has 1.41-long diagonals - so a shortcut returns edges longer "
                          "than the requested bound, and the method disagrees with the function it wraps")
    return {
        "explanation": "Write-effect analysis of the repair functions (faces only), prefix-append structure of fill_holes / subdivide, a polynomial "
        "identity for the 4-child table evaluated against the producer's edge layout (each child is parent/4 with the same orientation, children "
        "sum to the parent, hence area, orientation and signed volume contributions are preserved), idempotent mask selection, and the control "
        "structure of the per-body inversion repair.",
    }
