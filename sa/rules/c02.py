"""C02 - content hash of tracked arrays reflects their bytes.

Decides (structural clause): every entry point of numpy.ndarray that can change
the bytes of the *receiving* object is overridden by TrackedArray and the
override raises the dirty flag before it delegates; __array_finalize__ marks
both ends of a view; __hash__ clears the flag only after storing a hash of the
full C-order bytes; container hashes fold in every member.  Routes that never
enter a method of the object (ufunc out=, copyto, ufunc.at, buffer protocol,
held views) are one recorded known finding.
"""
from __future__ import annotations

import ast
import re

from ..cfg import CFG
from ..index import Index
from ..report import AnalysisError, key_of

LEVEL = "other"

# ----------------------------------------------------------------------------
# Frozen table of measured facts about numpy.ndarray entry points (numpy 2.x; the
# measurements are in DESIGN.md C02).  `direct`: changes the receiver's bytes
# and reaches the object only through this method -> an override is required.
# `indirect`: numpy first takes a view of the receiver, which fires
# __array_finalize__ on it -> already covered, no override required.
# `descriptor`: a writable data descriptor that rewrites bytes/strides.
DIRECT_METHODS = ["__setitem__", "fill", "put", "sort", "partition", "byteswap", "itemset"]
INDIRECT = {"setfield": "numpy writes through a freshly taken view of the receiver (measured)",
            "resize": "raises ValueError on the non-owning arrays tracked_array() creates (measured)"}
DESCRIPTORS = ["flat", "real", "imag", "strides"]
STATE = ["__setstate__"]
# names that do not change bytes although they look like it (reasoned)
HARMLESS = {"setflags": "changes flags only", "__delitem__": "always raises for ndarray",
            "shape": "reinterprets, C-order bytes unchanged (measured)",
            "dtype": "reinterprets, bytes unchanged (measured)"}


def numpy_inplace_operators():
    import numpy as np  # only the method table is read

    names = []
    for n in dir(np.ndarray):
        if re.fullmatch(r"__i[a-z]+__", n) and hasattr(np.ndarray, "__" + n[3:]):
            names.append(n)
    return names, set(dir(np.ndarray)), np.__version__


def _is_flag_store(st, value):
    """self._dirty_hash = <value>"""
    return (
        isinstance(st, ast.Assign)
        and len(st.targets) == 1
        and isinstance(st.targets[0], ast.Attribute)
        and st.targets[0].attr == "_dirty_hash"
        and isinstance(st.targets[0].value, ast.Name)
        and isinstance(st.value, ast.Constant)
        and st.value.value is value
    )


def _delegations(fn):
    """calls that hand control to ndarray's implementation: super(...).m(...) or
    np.ndarray.m(self, ...)"""
    out = []
    for c in ast.walk(fn):
        if isinstance(c, ast.Call) and isinstance(c.func, ast.Attribute):
            v = c.func.value
            if isinstance(v, ast.Call) and isinstance(v.func, ast.Name) and v.func.id == "super":
                out.append(c)
            elif isinstance(v, ast.Attribute) and v.attr == "ndarray":
                out.append(c)
    return out


def _generated_overrides(ix, mod, cls_name):
    """overrides installed after the class body from a table of names:
           for n in NAMES: setattr(Cls, n, factory(n))        /        setattr(Cls, "m", factory("m"))        /    Cls.m = factory("m")
       -> {name: (FuncInfo of the function the factory returns, factory parameter that carries the method name)}"""
    from ..index import const_eval

    out = {}

    def table(expr):
        if isinstance(expr, ast.Name) and expr.id in mod.constants and len(mod.constants[expr.id]) == 1:
            expr = mod.constants[expr.id][0].value
        try:
            v = const_eval(expr)
        except (ValueError, TypeError):
            return None
        return [x for x in v if isinstance(x, str)] if isinstance(v, (list, tuple, set, frozenset)) else None

    def made_by(call):
        """(inner FuncInfo, name parameter) when `call` is factory(<the name>) of a module function returning a nested def"""
        if not (isinstance(call, ast.Call) and isinstance(call.func, ast.Name) and call.func.id in mod.functions and len(call.args) == 1):
            return None
        fac = mod.functions[call.func.id]
        inner_nodes = {id(x) for nd in fac.nested.values() for x in ast.walk(nd.node)}
        rets = [r.value for r in ast.walk(fac.node) if isinstance(r, ast.Return) and r.value is not None and id(r) not in inner_nodes]
        if len(rets) != 1 or not isinstance(rets[0], ast.Name) or rets[0].id not in fac.nested or not fac.params:
            return None
        return fac.nested[rets[0].id], fac.params[0]

    for st in mod.tree.body:
        if isinstance(st, ast.For) and isinstance(st.target, ast.Name):
            names = table(st.iter)
            if names is None:
                continue
            for c in ast.walk(st):
                if isinstance(c, ast.Call) and isinstance(c.func, ast.Name) and c.func.id == "setattr" and len(c.args) == 3 \
                        and ast.unparse(c.args[0]) == cls_name and ast.unparse(c.args[1]) == st.target.id:
                    mb = made_by(c.args[2])
                    if mb is not None and c.args[2].args and ast.unparse(c.args[2].args[0]) == st.target.id:
                        for n in names:
                            out[n] = mb
        elif isinstance(st, ast.Expr) and isinstance(st.value, ast.Call) and isinstance(st.value.func, ast.Name) and st.value.func.id == "setattr" \
                and len(st.value.args) == 3 and ast.unparse(st.value.args[0]) == cls_name and isinstance(st.value.args[1], ast.Constant):
            mb = made_by(st.value.args[2])
            if mb is not None and isinstance(st.value.args[2].args[0], ast.Constant) and st.value.args[2].args[0].value == st.value.args[1].value:
                out[st.value.args[1].value] = mb
        elif isinstance(st, ast.Assign) and len(st.targets) == 1 and isinstance(st.targets[0], ast.Attribute) and ast.unparse(st.targets[0].value) == cls_name:
            mb = made_by(st.value)
            if mb is not None and isinstance(st.value.args[0], ast.Constant) and st.value.args[0].value == st.targets[0].attr:
                out[st.targets[0].attr] = mb
    return out


def _generated_delegations(fn, name_param):
    """in a generated override: calls of `getattr(super(...) | np.ndarray, <name_param>)`, directly or through a local"""
    def is_lookup(e):
        return isinstance(e, ast.Call) and isinstance(e.func, ast.Name) and e.func.id == "getattr" and len(e.args) >= 2 \
            and ast.unparse(e.args[1]) == name_param and (
                (isinstance(e.args[0], ast.Call) and isinstance(e.args[0].func, ast.Name) and e.args[0].func.id == "super")
                or ast.unparse(e.args[0]).endswith("ndarray"))

    bound = {st.targets[0].id for st in ast.walk(fn) if isinstance(st, ast.Assign) and len(st.targets) == 1 and isinstance(st.targets[0], ast.Name) and is_lookup(st.value)}
    out = []
    for c in ast.walk(fn):
        if isinstance(c, ast.Call) and (is_lookup(c.func) or (isinstance(c.func, ast.Name) and c.func.id in bound)):
            out.append(c)
    return out


def check(run):
    ix = Index(run.repo)
    run.analysed.update(ix.stats())
    mod = ix.modules.get("trimesh.caching")
    if mod is None or "TrackedArray" not in mod.classes:
        raise AnalysisError("anchor vanished: trimesh.caching.TrackedArray")
    ta = mod.classes["TrackedArray"]
    if not any("ndarray" in str(b) for b in ta.ext_bases):
        raise AnalysisError(f"TrackedArray no longer derives from numpy.ndarray: {ta.ext_bases}")

    run.rule("R1", "every ndarray entry point that rewrites the receiver's own bytes is overridden in TrackedArray")
    run.rule("R2", "in every override `self._dirty_hash = True` dominates the delegation to ndarray and every exit")
    run.rule("R3", "__array_finalize__ marks self on every path and the source when it is tracked; "
                   "__hash__ stores a hash of the full C-order bytes before clearing the flag, and returns the memo only when clean")
    run.rule("R4", "container hashes fold in every member (DataStore, Geometry, visuals, Path, Scene, SceneGraph)")
    run.rule("R5", "routes that bypass the object's methods (needs __array_ufunc__/__array_function__)")

    inplace, np_names, np_version = numpy_inplace_operators()
    run.assume(f"ndarray method table read from the installed numpy {np_version} (the numpy trimesh runs on)")
    run.floor("numpy in-place operators", len(inplace), 13)
    defined = dict(ta.methods)
    generated = _generated_overrides(ix, mod, "TrackedArray")
    for n_, (fi_, _) in generated.items():
        defined.setdefault(n_, fi_)
    if generated:
        run.assume(f"{len(generated)} TrackedArray overrides are installed from a table of names after the class body ({sorted(generated)[:4]}...): "
                   f"each is analysed as the function its factory returns, with the method name bound")
    run.floor("TrackedArray overrides", len(defined), 20)

    # ---- R1 coverage
    required = list(inplace) + [m for m in DIRECT_METHODS if m in np_names or m == "__setitem__"]
    for name in required:
        ok = name in defined
        run.instance("R1", ta.where, f"ndarray.{name} rewrites receiver bytes -> override present: {ok}", ok)
        if not ok:
            run.violation(
                "R1", ta.where,
                f"numpy.ndarray.{name} changes the array's bytes in place but TrackedArray does not override it: "
                f"the hash memo survives the write",
                key=key_of("C02-R1", "missing-override", name),
            )
    for name in DESCRIPTORS + STATE:
        if name not in np_names:
            continue
        ok = name in defined or name in ta.getters or name in ta.setters or name in ta.attrs
        run.instance("R1", ta.where, f"ndarray.{name} (descriptor/state) rewrites receiver bytes -> covered: {ok}", ok)
        if not ok:
            run.violation(
                "R1", ta.where,
                f"numpy.ndarray.{name} can rewrite the receiver's bytes without passing any TrackedArray override",
                key=key_of("C02-R1", "missing-override", name),
            )
    # a descriptor covered by a property: the setter (and, where the getter hands out a writable iterator, the getter)
    # must raise the flag before it reaches ndarray's descriptor of the same name
    GETTER_WRITABLE = {"flat": "ndarray.flat returns an iterator that can be assigned through"}
    for name in DESCRIPTORS:
        if name not in np_names or not (name in ta.getters or name in ta.setters):
            continue
        roles = [("setter", ta.setters.get(name))] + ([("getter", ta.getters.get(name))] if name in GETTER_WRITABLE else [])
        for role, fi in roles:
            if fi is None:
                run.instance("R2", ta.where, f"property {name}: {role} missing", False)
                run.violation("R2", ta.where, f"TrackedArray.{name} is a property without a {role} that raises the dirty flag: assignment through ndarray.{name} "
                                              f"is either impossible (read-only property) or unseen", key=key_of("C02-R2", name, role, "missing"))
                continue
            cfg = CFG(fi.node, exceptions=False)
            flag_nodes = [n for n, st in cfg.stmt.items() if st is not None and cfg.kind[n] == "stmt" and _is_flag_store(st, True)]
            dele = [c for c in ast.walk(fi.node) if isinstance(c, ast.Call) and isinstance(c.func, ast.Attribute) and c.func.attr in ("__set__", "__get__")
                    and ast.unparse(c.func.value).endswith(f"ndarray.{name}")]
            dele_nodes = [n for n, st in cfg.stmt.items() if st is not None and any(d in list(ast.walk(st)) for d in dele)]
            ok = bool(flag_nodes) and bool(dele_nodes) and all(any(cfg.dominates(f, d) and f != d for f in flag_nodes) for d in dele_nodes)
            run.instance("R2", fi.where, f"property {name} {role}: flag store dominates ndarray.{name}.{'__set__' if role == 'setter' else '__get__'}", ok)
            if not ok:
                run.violation("R2", fi.where, f"TrackedArray.{name} ({role}) reaches ndarray's `{name}` descriptor without having set _dirty_hash = True",
                              key=key_of("C02-R2", name, role, "flag-not-dominating"))
    for name, why in INDIRECT.items():
        run.instance("R1", ta.where, f"ndarray.{name}: covered indirectly - {why}", True, nontrivial=False)
    unknown_mutators = [n for n in defined if n not in np_names and n not in ("mutable",)
                        and not n.startswith("__array")]
    for n in unknown_mutators:
        run.instance("R1", defined[n].where, f"override of {n}: name absent from this numpy (informational)", True,
                     nontrivial=False)

    # ---- R2 flag before delegate in every override that delegates
    n_r2 = 0
    for name, fi in sorted(defined.items()):
        if name in ("__array_finalize__", "__array_wrap__", "__hash__"):
            continue
        gen = generated.get(name) if name not in ta.methods else None
        dele = _generated_delegations(fi.node, gen[1]) if gen else _delegations(fi.node)
        if not dele:
            continue
        n_r2 += 1
        cfg = CFG(fi.node, exceptions=False)
        flag_nodes = [n for n, st in cfg.stmt.items() if st is not None and cfg.kind[n] == "stmt" and _is_flag_store(st, True)]
        dele_nodes = []
        for n, st in cfg.stmt.items():
            if st is None or cfg.kind[n] not in ("stmt", "test", "with", "for"):
                continue
            if any(d in list(ast.walk(st)) for d in dele):
                dele_nodes.append(n)
        ok = bool(flag_nodes) and all(
            any(cfg.dominates(f, d) and f != d for f in flag_nodes) for d in dele_nodes
        ) and any(cfg.dominates(f, cfg.exit) for f in flag_nodes)
        # the delegated method must be the overridden one
        same = True if gen else all(d.func.attr == name for d in dele)  # a generated override looks the method up by its own name
        run.instance("R2", fi.where, f"override {name}: flag store dominates delegation={ok}, delegates to same name={same}", ok and same)
        if not ok:
            run.violation("R2", fi.where,
                          f"TrackedArray.{name} reaches ndarray's implementation on a path that has not set _dirty_hash = True",
                          key=key_of("C02-R2", name, "flag-not-dominating"))
        if not same:
            run.violation("R2", fi.where,
                          f"TrackedArray.{name} delegates to a different ndarray method ({[d.func.attr for d in dele]})",
                          key=key_of("C02-R2", name, "wrong-delegate"))
    run.floor("overrides that delegate", n_r2, 20)

    # ---- R3 finalize + hash protocol
    fin = defined.get("__array_finalize__")
    if fin is None:
        run.instance("R3", ta.where, "__array_finalize__ defined", False)
        run.violation("R3", ta.where, "TrackedArray has no __array_finalize__: views and copies start with no dirty flag",
                      key=key_of("C02-R3", "finalize-missing"))
    else:
        cfg = CFG(fin.node, exceptions=False)
        params = fin.params
        self_name, obj_name = params[0], (params[1] if len(params) > 1 else None)
        self_flag = [n for n, st in cfg.stmt.items() if st is not None and cfg.kind[n] == "stmt"
                     and _is_flag_store(st, True) and st.targets[0].value.id == self_name]
        ok_self = any(cfg.dominates(n, cfg.exit) for n in self_flag)
        run.instance("R3", fin.where, f"self flag set on every path: {ok_self}", ok_self)
        if not ok_self:
            run.violation("R3", fin.where, "__array_finalize__ does not set self._dirty_hash = True on every path",
                          key=key_of("C02-R3", "finalize-self"))
        obj_flag = [st for st in ast.walk(fin.node) if _is_flag_store(st, True) and st.targets[0].value.id == obj_name]
        ok_obj = False
        for st in obj_flag:
            # must be guarded only by an isinstance(obj, <class of self>) test
            for parent in ast.walk(fin.node):
                if isinstance(parent, ast.If) and st in parent.body:
                    t = parent.test
                    if (isinstance(t, ast.Call) and isinstance(t.func, ast.Name) and t.func.id == "isinstance"
                            and isinstance(t.args[0], ast.Name) and t.args[0].id == obj_name):
                        cls_txt = ast.unparse(t.args[1])
                        if cls_txt in ("type(self)", "TrackedArray", "self.__class__"):
                            ok_obj = True
        run.instance("R3", fin.where, f"source array marked dirty when it is tracked: {ok_obj}", ok_obj)
        if not ok_obj:
            run.violation("R3", fin.where,
                          "__array_finalize__ does not mark the source TrackedArray dirty: a write through a new view is missed",
                          key=key_of("C02-R3", "finalize-obj"))

    h = defined.get("__hash__")
    if h is None:
        raise AnalysisError("anchor vanished: TrackedArray.__hash__")
    cfg = CFG(h.node, exceptions=False)
    clear_nodes = [n for n, st in cfg.stmt.items() if st is not None and cfg.kind[n] == "stmt" and _is_flag_store(st, False)]
    store_nodes = []
    hash_src_ok = False
    for n, st in cfg.stmt.items():
        if (st is not None and cfg.kind[n] == "stmt" and isinstance(st, ast.Assign)
                and isinstance(st.targets[0], ast.Attribute) and st.targets[0].attr == "_hashed"):
            store_nodes.append(n)
    # the value hashed: follow local names back to hash_fast(self.tobytes(...))
    defs = {}
    for st in ast.walk(h.node):
        if isinstance(st, ast.Assign) and isinstance(st.targets[0], ast.Name):
            defs.setdefault(st.targets[0].id, []).append(st.value)

    def full_bytes(e, depth=0):
        if depth > 4:
            return False
        if isinstance(e, ast.Name):
            return e.id in defs and all(full_bytes(v, depth + 1) for v in defs[e.id])
        if isinstance(e, ast.Call):
            f = e.func
            fname = f.attr if isinstance(f, ast.Attribute) else getattr(f, "id", "")
            if fname in ("hash_fast", "hash_fallback", "sha256", "int", "hash"):
                return bool(e.args) and full_bytes(e.args[0], depth + 1)
            if fname in ("tobytes", "tostring") and isinstance(f, ast.Attribute):
                r = f.value
                return isinstance(r, ast.Name) and r.id == h.params[0]
        return False

    for n in store_nodes:
        if full_bytes(cfg.stmt[n].value):
            hash_src_ok = True
    ok_order = bool(clear_nodes) and bool(store_nodes) and all(
        any(cfg.dominates(s, c) for s in store_nodes) for c in clear_nodes)
    run.instance("R3", h.where, f"_hashed stored from hash of self.tobytes(): {hash_src_ok}", hash_src_ok)
    run.instance("R3", h.where, f"flag cleared only after the store: {ok_order}", ok_order)
    if not hash_src_ok:
        run.violation("R3", h.where, "__hash__ does not memoise a hash of the receiver's complete bytes (self.tobytes())",
                      key=key_of("C02-R3", "hash-source"))
    if not ok_order:
        run.violation("R3", h.where, "__hash__ clears _dirty_hash on a path that has not stored a fresh hash",
                      key=key_of("C02-R3", "hash-order"))
    # a path that returns the memo either saw the flag clear or stored a fresh hash on the way (whatever the nesting
    # or polarity of the tests: path summaries, sa/pathsum.py)
    from ..pathsum import summaries
    early_ok = True
    n_memo_paths = 0
    rcv = h.params[0]
    for ps in summaries(h.node):
        r = ps.exit_node
        if not (isinstance(r, ast.Return) and isinstance(r.value, ast.Attribute) and r.value.attr == "_hashed"):
            continue
        n_memo_paths += 1
        clean = ps.holds(f"{rcv}._dirty_hash") is False
        fresh = ps.has_stmt(lambda s_: isinstance(s_, ast.Assign) and any(isinstance(t, ast.Attribute) and t.attr == "_hashed" for t in s_.targets))
        if not (clean or fresh):
            early_ok = False
    run.instance("R3", h.where, f"memo returned only under `not self._dirty_hash`: {early_ok}", early_ok)
    if not early_ok:
        run.violation("R3", h.where, "__hash__ can return the memoised value while the dirty flag is set",
                      key=key_of("C02-R3", "hash-early-return"))

    # ---- R4 container hashes
    _containers(run, ix)

    # ---- R6 what is handed to a DataStore keeps a caller's TrackedArray (or copies it)
    run.rule("R6", "a value stored into a DataStore is never an untracked alias of a caller's array: conversions on the way in preserve the subclass (asanyarray) or copy; "
                   "np.asarray / .view(np.ndarray) of a tracked array would put a second dirty flag on the same memory")
    import re as _re
    from ..provenance import Prov
    STRIPS = _re.compile(r"numpy\.asarray\((?:P_|PHI_)\w+|(?:P_|PHI_)\w+\.view\(numpy\.ndarray\)|numpy\.ndarray\.view\((?:P_|PHI_)")
    n6 = 0
    for f in ix.all_functions:
        stores = [st for st in ast.walk(f.node) if isinstance(st, ast.Assign) and isinstance(st.targets[0], ast.Subscript)
                  and ast.unparse(st.targets[0].value).endswith("._data")]
        if not stores:
            continue
        pv = Prov(ix, f)
        for st in stores:
            if not pv.cfg.nodes_of.get(id(st)):
                continue
            n6 += 1
            texts = {pv.canon(st.value, st, strip=False)}
            # follow merge points one level
            for nm in {n.id for n in ast.walk(st.value) if isinstance(n, ast.Name)}:
                alts = pv.alternatives(nm, st, strip=False)
                if alts:
                    texts |= alts
            bad = sorted(t for t in texts if STRIPS.search(t))
            ok = not bad
            run.instance("R6", f.where, f"{f.qualname}: `{ast.unparse(st.targets[0])[:40]}` <- {sorted(texts)[0][:70]}", ok)
            if not ok:
                run.violation("R6", f.where, f"`{f.qualname}` stores `{bad[0][:90]}` into its DataStore: np.asarray / view(np.ndarray) of a caller's TrackedArray is a plain window "
                                             f"on the same memory, the store wraps it in a second TrackedArray, and writes through the caller's array no longer dirty the stored one",
                              key=key_of("C02-R6", f.qualname, ast.unparse(st.targets[0])[:30]))
    run.floor("DataStore stores examined", n6, 20)

    # ---- R5 bypass routes: honest statement of what no override can see
    has_ufunc = "__array_ufunc__" in defined or "__array_function__" in defined
    run.instance("R5", ta.where, f"__array_ufunc__/__array_function__ defined: {has_ufunc}", True, nontrivial=True)
    if not has_ufunc:
        run.violation("R5", ta.where,
                      "TrackedArray defines neither __array_ufunc__ nor __array_function__: writes by ufunc out=, "
                      "method out=, np.copyto, ufunc.at, np.fill_diagonal, the buffer protocol, and through a view "
                      "taken before the last hash read leave the hash memo stale",
                      key=key_of("C02-R5", "bypass-routes"))

    run.analysed["ndarray_names"] = len(np_names)
    run.analysed["inplace_operators"] = inplace
    run.analysed["overrides"] = sorted(defined)
    from ..setterrule import setter_rebinds
    setter_rebinds(run, ix, "R7", "C02")
    return {
        "explanation": "Coverage of numpy.ndarray's byte-changing entry points by TrackedArray overrides (set "
        "comparison between numpy's method table and the class body), dominance of the dirty-flag store over "
        "each delegation (CFG dominators), finalize/hash protocol ordering, and member coverage of container "
        "hashes. Decides the structural clause only; equality of the hash with hash_fast(tobytes()) as a value "
        "and routes outside the object's methods are not decided (the latter is a listed known finding).",
    }


# ----------------------------------------------------------------------------
def _admits_present_members(text, polarity, v):
    """True when the filter `text` (required to evaluate to `polarity`) is passed by every member that is not None and
    not a sized empty container; False when some such member is dropped or the filter tests anything else."""
    import itertools
    try:
        e = ast.parse(text, mode="eval").body
    except SyntaxError:
        return False

    def ev(n, env):
        if isinstance(n, ast.BoolOp):
            vals = [ev(x, env) for x in n.values]
            if any(x is None for x in vals):
                return None
            return all(vals) if isinstance(n.op, ast.And) else any(vals)
        if isinstance(n, ast.UnaryOp) and isinstance(n.op, ast.Not):
            x = ev(n.operand, env)
            return None if x is None else not x
        t = ast.unparse(n)
        if t == f"{v} is None":
            return env["N"]
        if t == f"{v} is not None":
            return not env["N"]
        if t == f"hasattr({v}, '__len__')":
            return env["H"]
        if t in (f"len({v}) > 0", f"len({v}) != 0", f"len({v}) >= 1", f"len({v})", f"0 < len({v})"):
            return env["L"]
        if t in (f"len({v}) == 0", f"len({v}) < 1", f"len({v}) <= 0", f"0 == len({v})"):
            return not env["L"]
        return None

    for N, H, L in itertools.product((False, True), repeat=3):
        if N or (H and not L):
            continue  # members that may be skipped
        got = ev(e, {"N": N, "H": H, "L": L})
        if got is None or got != polarity:
            return False
    return True


def _containers(run, ix):
    # DataStore.__hash__: every value of self.data contributes hash(v); only None / empty are skipped
    f = ix.func("trimesh.caching:DataStore.__hash__")
    from ..accum import contributions, flows_to_return
    ok = False
    what = "no per-member contribution over self.data.values()"
    for c in contributions(f.node):
        if c.iter not in ("self.data.values()", "self.data.items()"):
            continue
        v = "_1" if c.iter.endswith("values()") else "_2"
        contributes = c.elt in (f"hash({v})", f"{v}.__hash__()", f"[hash({v})]", f"({v}.__hash__(),)") and \
            (c.acc is None or (c.how in ("append", "add", "extend", "Add=", "BitXor=") and flows_to_return(f.node, c.acc)))
        # a member may be skipped only when it is None or sized-and-empty: over the atoms N (is None), H (has __len__),
        # L (len > 0) every filter must let through whatever satisfies `not N and (not H or L)` (truth table)
        extra = [t for t in c.filters if not _admits_present_members(t[0], t[1], v)]
        if extra:
            what = f"filter `{extra[0][0]}` ({'taken' if extra[0][1] else 'not taken'}) drops members from the hash"
        elif not contributes:
            what = f"element `{c.elt}` is not the member's own hash folded into the result"
        else:
            ok = True
    run.instance("R4", f.where, f"DataStore hash folds in hash(v) for every stored v (skipping only None/empty): {ok}", ok)
    if not ok:
        run.violation("R4", f.where, f"DataStore.__hash__ does not cover every stored member: {what}",
                      key=key_of("C02-R4", "DataStore"))

    # memo-freedom: apart from the two classes that own an explicit dirty protocol (checked by
    # R2/R3 here and by C09 for the forest) no __hash__ may keep state on the object: a memoised
    # container hash cannot know that a member changed (the member's own flag is cleared by
    # whoever reads the member's hash first)
    MEMO_OWNERS = {"TrackedArray": "dirty flag raised by every override (R1-R3)",
                   "EnforcedForest": "explicit _hash reset by every mutator (C09-R1)"}
    n_hash = 0
    for m in ix.modules.values():
        for c in m.classes.values():
            hf = c.methods.get("__hash__")
            if hf is None or c.name in MEMO_OWNERS:
                continue
            n_hash += 1
            selfname = hf.params[0] if hf.params else "self"
            stores = []
            for n in ast.walk(hf.node):
                tgts = []
                if isinstance(n, ast.Assign):
                    tgts = n.targets
                elif isinstance(n, (ast.AugAssign, ast.AnnAssign)):
                    tgts = [n.target]
                for t in tgts:
                    if isinstance(t, ast.Attribute) and isinstance(t.value, ast.Name) and t.value.id == selfname:
                        stores.append(t.attr)
                if isinstance(n, ast.Call) and getattr(n.func, "id", "") == "setattr" and n.args and \
                        isinstance(n.args[0], ast.Name) and n.args[0].id == selfname:
                    stores.append(ast.unparse(n.args[1]))
            ok = not stores
            run.instance("R4", hf.where, f"{c.name}.__hash__ keeps no memo on the object (stores: {stores})", ok)
            if not ok:
                run.violation("R4", hf.where,
                              f"{c.name}.__hash__ memoises its result on the object ({', '.join(stores)}): a later change of a member "
                              f"whose own dirty flag was already consumed by another reader leaves the container hash stale",
                              key=key_of("C02-R4", "memo", c.name))
    run.floor("container __hash__ methods examined", n_hash, 10)

    # thin delegations: the hash of X is the hash of its DataStore
    for spec, expect in [
        ("trimesh.parent:Geometry.__hash__", "self._data.__hash__()"),
        ("trimesh.visual.color:ColorVisuals.__hash__", "self._data.__hash__()"),
        ("trimesh.visual.texture:TextureVisuals.__hash__", "self.vertex_attributes.__hash__()"),
        ("trimesh.scene.transforms:SceneGraph.__hash__", "self.transforms.__hash__()"),
    ]:
        f = ix.func(spec)
        rets = [ast.unparse(r.value) for r in ast.walk(f.node) if isinstance(r, ast.Return) and r.value is not None]
        ok = rets == [expect] or rets == [f"hash({expect[:-len('.__hash__()')]})"]
        run.instance("R4", f.where, f"returns {rets}", ok)
        if not ok:
            run.violation("R4", f.where, f"{spec.split(':')[1]} no longer returns the hash of its backing store ({expect}): {rets}",
                          key=key_of("C02-R4", spec))

    # Path.__hash__: vertices hash + every entity's _bytes
    f = ix.func("trimesh.path.path:Path.__hash__")
    txt = ast.unparse(f.node)
    ok_v = re.search(r"self\.vertices\.__hash__\(\)|hash\(self\.vertices\)", txt) is not None
    from ..accum import contributions as _contrib
    ok_e = any(c_.iter == "self.entities" and re.fullmatch(r"\[?_1\.\w+\(\)\]?", c_.elt) and not c_.filters for c_ in _contrib(f.node))
    run.instance("R4", f.where, f"Path hash covers vertices={ok_v} and every entity={ok_e}", ok_v and ok_e)
    if not (ok_v and ok_e):
        run.violation("R4", f.where, "Path.__hash__ does not cover the vertex array and the bytes of every entity",
                      key=key_of("C02-R4", "Path"))
    # Scene.__hash__: forest hash + every geometry
    f = ix.func("trimesh.scene.scene:Scene.__hash__")
    txt = ast.unparse(f.node)
    ok_g = "self.graph.transforms.__hash__()" in txt or "hash(self.graph" in txt or "self.graph.__hash__()" in txt
    ok_m = re.search(r"for (\w+) in (geometry|self\.geometry)(\.keys\(\)|\.values\(\)|\.items\(\))?\)?(?! *if)", txt) is not None
    run.instance("R4", f.where, f"Scene hash covers graph={ok_g} and every geometry={ok_m}", ok_g and ok_m)
    if not (ok_g and ok_m):
        run.violation("R4", f.where, "Scene.__hash__ does not cover the transform forest and every geometry",
                      key=key_of("C02-R4", "Scene"))
    # Entity._bytes covers points and closed flag / class name
    for cls_name in ("Entity",):
        from ..accum import entity_bytes_name
        f = ix.func("trimesh.path.entities:Entity." + entity_bytes_name(ix))
        rets = [ast.unparse(r.value) for r in ast.walk(f.node) if isinstance(r, ast.Return) and r.value is not None]
        ok = bool(rets) and all("self.points" in r and "tobytes()" in r for r in rets)
        run.instance("R4", f.where, f"Entity bytes cover the point indices on every return: {ok}", ok)
        if not ok:
            run.violation("R4", f.where, "Entity._bytes has a return that does not include the point indices",
                          key=key_of("C02-R4", "Entity._bytes"))
