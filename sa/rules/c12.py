"""C12 - ray / proximity queries (narrow): the closed-form pieces and the conservativeness of the pruning boxes.

 G1  intersections.planes_lines: the returned point lies on the plane and on the line; distance is the line parameter.
 G2  triangles.points_to_barycentric (both methods, 3D; cramer in 2D): coordinates sum to one and rebuild the
     orthogonal projection of the point onto the triangle's plane (the point itself when it lies in the plane).
 G3  triangles.closest_point: in each of its seven regions the returned point is the vertex / the foot of the
     perpendicular on the edge's line / the foot of the perpendicular on the plane (orthogonality identities).
 S   ray_triangle.ray_triangle_id: hits are the candidates whose plane hit has all barycentric coordinates in
     [-tol, 1 + tol]; every result array is masked by the same sequence of masks; only forward hits are kept;
     the first hit is the argmin of the ray parameter per ray; the r-tree is built from the queried triangles.
 P   ray_bounds / nearby_faces: the box handed to the r-tree contains the two clip points of the ray (both are
     points of that ray) padded outward; the proximity box is the point +- (distance to the nearest referenced
     vertex + tol.merge), which contains the closest surface point.
Which region a point falls in, the general-position margins, rtree / embree themselves and floating-point error are
not decided.
"""
from __future__ import annotations

import ast

import numpy as np
import sympy as sp

from ..alg import Frame, Interp, Unsupported, _Return, arr, symbols_array, tolerant_block
from ..index import Index
from ..provenance import Prov
from ..report import AnalysisError, key_of

LEVEL = "other"


def _zero(e):
    return sp.cancel(sp.together(sp.sympify(e))) == 0


def check(run):
    ix = Index(run.repo)
    run.analysed.update(ix.stats())
    run.rule("G1", "planes_lines: (x - plane_origin).normal == 0, x == line_origin + t * direction with t the returned distance")
    run.rule("G2", "points_to_barycentric: coordinates sum to 1 and sum(b_i * corner_i) - p is orthogonal to both edge vectors (== 0 in 2D)")
    run.rule("G3", "closest_point: per region the result is the vertex, the foot of the perpendicular on the edge line, or on the plane")
    run.rule("S", "ray_triangle_id: hit test bounds, one mask sequence for all result arrays, forward filter, first hit = argmin of the ray parameter, tree from the same triangles")
    run.rule("P", "pruning boxes are conservative: ray box = outward-padded AABB of two points of the same ray; proximity box = point +- (nearest referenced vertex distance + tol.merge)")

    # ------------------------------------------------------------------ G1
    f = ix.func("trimesh.intersections:planes_lines")
    po, pn, lo, ld = (symbols_array(n, (1, 3)) for n in ("o", "n", "a", "d"))
    it = Interp(ix, overrides={("planes_lines", "valid"): np.array([True])})
    fr = Frame(it, f, {"plane_origins": po, "plane_normals": pn, "line_origins": lo, "line_directions": ld,
                       "return_distance": True, "return_denom": False})
    res = None
    skipped = []
    try:
        tolerant_block(fr, f.node.body, skipped)
    except _Return as r:
        res = r.v
    if res is None or len(res) < 3:
        raise AnalysisError(f"E3 cannot translate planes_lines ({skipped[:3]})")
    x = arr(res[0])[0]
    t = arr(res[2])[0]
    ok = _zero(sum((x[i] - po[0, i]) * pn[0, i] for i in range(3))) and all(_zero(x[i] - lo[0, i] - t * ld[0, i]) for i in range(3))
    run.obligation("G1", f.where, "hit point on the plane and on the line at parameter `distance` (symbolic plane and line)", ok)
    if not ok:
        run.violation("G1", f.where, "planes_lines does not return the intersection of the line with the plane", key=key_of("C12-G1", "formula"))

    # ------------------------------------------------------------------ G2
    f = ix.func("trimesh.triangles:points_to_barycentric")
    for dim, methods in ((3, ("cross", "cramer")), (2, ("cramer",))):
        for method in methods:
            T = symbols_array("t", (1, 3, dim))
            P = symbols_array("p", (1, dim))
            it = Interp(ix)
            it.stubs["trimesh.util:diagonal_dot"] = lambda itp, args, kw: np.array([sum(arr(args[0])[k] * arr(args[1])[k]) for k in range(len(arr(args[0])))], dtype=object)
            try:
                b = arr(it.call(f, [T, P], {"method": method}))[0]
            except Unsupported as e:
                raise AnalysisError(f"E3 cannot translate points_to_barycentric ({method}, {dim}D): {e}")
            a_, b_, c_ = T[0]
            rebuilt = [sum(b[k] * T[0, k, j] for k in range(3)) - P[0, j] for j in range(dim)]
            e1, e2 = b_ - a_, c_ - a_
            ok = _zero(sum(b) - 1)
            if dim == 2:
                ok = ok and all(_zero(r_) for r_ in rebuilt)
            else:
                ok = ok and _zero(sum(rebuilt[j] * e1[j] for j in range(3))) and _zero(sum(rebuilt[j] * e2[j] for j in range(3)))
            run.obligation("G2", f.where, f"method={method}, {dim}D: sum == 1 and the rebuilt point is the {'point' if dim == 2 else 'orthogonal projection'}", ok)
            if not ok:
                run.violation("G2", f.where, f"points_to_barycentric(method={method!r}) in {dim}D does not return the barycentric coordinates of the point's projection",
                              key=key_of("C12-G2", method, dim))

    # ------------------------------------------------------------------ G3
    f = ix.func("trimesh.triangles:closest_point")
    T = symbols_array("t", (1, 3, 3))
    P = symbols_array("p", (1, 3))
    masks = ["is_a", "is_b", "is_ab", "is_c", "is_ac", "is_bc"]
    a_, b_, c_ = T[0]
    p_ = P[0]
    n_ = np.array(sp.Matrix(list(b_ - a_)).cross(sp.Matrix(list(c_ - a_))).T.tolist()[0], dtype=object)
    for region in masks + ["face"]:
        ov = {("closest_point", m): np.array([m == region]) for m in masks}
        ov[("closest_point", "remain")] = np.array([True])
        it = Interp(ix, overrides=ov)
        fr = Frame(it, f, {"triangles": T, "points": P})
        skipped = []
        res = None
        try:
            tolerant_block(fr, f.node.body, skipped)
        except _Return as r:
            res = r.v
        if res is None or skipped:
            raise AnalysisError(f"E3 cannot translate closest_point for region {region}: {skipped[:3]}")
        q = arr(res)[0]
        d = p_ - q
        if region in ("is_a", "is_b", "is_c"):
            v = {"is_a": a_, "is_b": b_, "is_c": c_}[region]
            ok = all(_zero(q[j] - v[j]) for j in range(3))
            what = f"vertex region {region[-1].upper()}: result == that vertex"
        elif region in ("is_ab", "is_ac", "is_bc"):
            s0, s1 = {"is_ab": (a_, b_), "is_ac": (a_, c_), "is_bc": (b_, c_)}[region]
            e = s1 - s0
            on_line = np.array(sp.Matrix(list(q - s0)).cross(sp.Matrix(list(e))).T.tolist()[0], dtype=object)
            ok = _zero(sum(d[j] * e[j] for j in range(3))) and all(_zero(x_) for x_ in on_line)
            what = f"edge region {region[3:].upper()}: result on the edge's line and (p - result) orthogonal to the edge"
        else:
            ok = _zero(sum(d[j] * (b_ - a_)[j] for j in range(3))) and _zero(sum(d[j] * (c_ - a_)[j] for j in range(3))) \
                and _zero(sum((q - a_)[j] * n_[j] for j in range(3)))
            what = "face region: result in the plane and (p - result) orthogonal to both edges"
        run.obligation("G3", f.where, what, ok)
        if not ok:
            run.violation("G3", f.where, f"closest_point, {what.split(':')[0]}: the returned point is not the closest point of that feature", key=key_of("C12-G3", region))

    # ------------------------------------------------------------------ S ray_triangle_id
    # Every returned array is one canonical term over the function's parameters and three producer calls (SSA provenance:
    # names of locals, re-bindings like `location = location[hit]` and intermediate steps disappear).  The rule is about
    # ROW ALIGNMENT: triangle index, ray index, location and the distance used to pick the first hit must all have passed
    # the same masks in the same order.
    from ..template import match_expr
    f = ix.func("trimesh.ray.ray_triangle:ray_triangle_id")
    SYM = {"trimesh.ray.ray_triangle.ray_triangle_candidates": "CAND", "trimesh.intersections.planes_lines": "PL", "trimesh.triangles.points_to_barycentric": "BARY"}
    pv = Prov(ix, f, ssa=True, depth=18, abstract=SYM)
    # the arguments of the barycentric call, over the other two producers
    pb = Prov(ix, f, ssa=True, depth=18, abstract={k_: v_ for k_, v_ in SYM.items() if v_ != "BARY"})
    producers = {}
    for n in ast.walk(f.node):
        if isinstance(n, ast.Call) and pb.callee(n.func) in SYM:
            producers[SYM[pb.callee(n.func)]] = pb.canon(n, pb.stmt_of(n)) if SYM[pb.callee(n.func)] == "BARY" else "-"
    if set(producers) != {"CAND", "PL", "BARY"}:
        raise AnalysisError(f"anchor vanished: ray_triangle_id no longer calls ray_triangle_candidates / planes_lines / points_to_barycentric (found {sorted(producers)})")

    def abbr(t):
        return t

    rets = [r for r in ast.walk(f.node) if isinstance(r, ast.Return) and isinstance(r.value, ast.Tuple) and len(r.value.elts) == 3 and pv.stmt_of_return(r) is not None]
    full = []
    for r in rets:
        terms = [abbr(pv.canon(e_, r)) for e_ in r.value.elts]
        if all(t in ("[]", "numpy.zeros((0, 3))", "numpy.zeros(0)") or t.startswith("numpy.zeros(") or t.startswith("[]") for t in terms):
            continue  # the literal empty result
        full.append((r, terms))
    if not full:
        raise AnalysisError("anchor vanished: the (index_tri, index_ray, location) returns of ray_triangle_id")
    HITS = ["numpy.logical_and((BARY > -tol.zero).all(axis=1), (BARY < 1 + tol.zero).all(axis=1))",
            "numpy.logical_and((BARY < 1 + tol.zero).all(axis=1), (BARY > -tol.zero).all(axis=1))",
            "(BARY > -tol.zero).all(axis=1) & (BARY < 1 + tol.zero).all(axis=1)",
            "numpy.logical_and(BARY > -tol.zero, BARY < 1 + tol.zero).all(axis=1)"]
    ok_hit = ok_seq = ok_fwd = ok_first = True
    why = {}
    n_first = 0
    for r, (tri, ray, loc) in full:
        env = match_expr("_e_TRI1[_e_SEL]", tri)
        env = env and match_expr("_e_IR1[_e_SEL]", ray, env)
        env = env and match_expr("_e_LOC1[_e_SEL]", loc, env)
        if not env:
            ok_seq = False
            why["seq"] = f"line {r.lineno}: the three results are not selected by one common index"
            continue
        first = match_expr("[_v_g[_e_D1[_v_g].argmin()] for _v_g in trimesh.grouping.group(_e_IRG)]", env["_e_SEL"])
        if first:
            # the first-hit return: SEL picks, per group of equal ray index, the row of least distance
            n_first += 1
            if first["_e_IRG"] != env["_e_IR1"]:
                ok_first = False
                why["first"] = "the groups are not those of the returned ray index"
            base = {"_e_TRI0": None}
            e2 = match_expr("_e_TRI0[_e_FWD]", env["_e_TRI1"])
            e2 = e2 and match_expr("_e_IR0[_e_FWD]", env["_e_IR1"], e2)
            e2 = e2 and match_expr("_e_LOC0[_e_FWD]", env["_e_LOC1"], e2)
            d2 = e2 and match_expr("_e_D0[_e_FWD]", first["_e_D1"], e2)
            if not e2:
                ok_seq = False
                why["seq"] = f"line {r.lineno}: the arrays the first hit is picked from are not masked alike"
                continue
            if not d2:
                ok_first = False
                why["first"] = (f"the distances compared within a ray's group (`{first['_e_D1'][:60]}...`) have not passed the forward mask the grouped rows have passed: "
                                f"row i of the distances is not hit i")
                e2 = match_expr("_e_D0 > _e_eps", e2["_e_FWD"], e2) or e2
            else:
                e2 = d2
        else:
            e2 = match_expr("_e_TRI0[_e_FWD]", tri)
            e2 = e2 and match_expr("_e_IR0[_e_FWD]", ray, e2)
            e2 = e2 and match_expr("_e_LOC0[_e_FWD]", loc, e2)
            if not e2:
                ok_seq = False
                continue
        # forward filter: distance along the ray direction of the very rows it filters
        fwd = None
        for eps in ("-1e-06", "0", "0.0", "-tol.zero", "-tol.merge"):
            for op in (">", ">="):
                fwd = fwd or match_expr(f"_e_D0 {op} {eps}", e2["_e_FWD"], {k_: v_ for k_, v_ in e2.items() if k_ == "_e_D0"})
        dd = fwd and match_expr("trimesh.util.diagonal_dot(_e_LOC0 - P_ray_origins[_e_IR0], P_ray_directions[_e_IR0])", fwd["_e_D0"],
                                {k_: e2[k_] for k_ in ("_e_LOC0", "_e_IR0")})
        if not (fwd and dd):
            ok_fwd = False
            why["fwd"] = f"forward mask `{e2['_e_FWD'][:90]}`"
        # hit test and its row space: candidates restricted to valid plane hits, then to barycentric hits
        h = match_expr("CAND[0][PL[1]][_e_HIT]", e2["_e_TRI0"])
        h = h and match_expr("CAND[1][PL[1]][_e_HIT]", e2["_e_IR0"], h)
        h = h and match_expr("PL[0][_e_HIT]", e2["_e_LOC0"], h)
        if not h:
            ok_seq = False
            why["seq"] = f"line {r.lineno}: candidates / ray ids / plane hits are not restricted by [valid][hit] alike"
        elif not any(match_expr(t_, h["_e_HIT"]) is not None for t_ in HITS):
            ok_hit = False
            why["hit"] = h["_e_HIT"][:120]
    bary_ok = match_expr("trimesh.triangles.points_to_barycentric(P_triangles[CAND[0]][PL[1]], PL[0])", abbr(producers["BARY"])) is not None \
        or match_expr("trimesh.triangles.points_to_barycentric(triangles=P_triangles[CAND[0]][PL[1]], points=PL[0])", abbr(producers["BARY"])) is not None
    run.instance("S", f.where, "hit := all barycentric coordinates of the plane hit (w.r.t. its own candidate triangle) in [-tol.zero, 1 + tol.zero]", ok_hit and bary_ok)
    if not (ok_hit and bary_ok):
        run.violation("S", f.where, f"ray_triangle_id accepts a plane hit under `{why.get('hit', abbr(producers['BARY'])[:120])}`: not `all barycentric coordinates in [-tol.zero, 1 + tol.zero]`",
                      key=key_of("C12-S", "hit-test"))
    run.instance("S", f.where, f"index_tri / index_ray / location masked by [valid][hit] then [forward] on {len(full)} return(s)", ok_seq)
    if not ok_seq:
        run.violation("S", f.where, f"the result arrays of ray_triangle_id are not masked alike ({why.get('seq', '')}): triangle index, ray index and location no longer correspond row by row",
                      key=key_of("C12-S", "mask-sequence"))
    run.instance("S", f.where, "forward := distance along the ray direction of the same rows > -1e-6", ok_fwd)
    if not ok_fwd:
        run.violation("S", f.where, f"ray_triangle_id no longer keeps exactly the hits whose parameter along the ray direction is non-negative (to 1e-6) ({why.get('fwd', '')})",
                      key=key_of("C12-S", "forward"))
    ok_first = ok_first and n_first >= 1
    run.instance("S", f.where, "first hit := per group of equal ray index, the row with the least distance, distances row-aligned with the grouped arrays", ok_first)
    if not ok_first:
        run.violation("S", f.where, f"the first hit of a ray is no longer the one with the smallest ray parameter within that ray's group of hits ({why.get('first', 'no first-hit return recognised')})",
                      key=key_of("C12-S", "first-hit"))
    pt = Prov(ix, f)
    trees = [pt.canon(st.value, st) for st in ast.walk(f.node) if isinstance(st, ast.Assign) and isinstance(st.value, ast.Call) and pt.callee(st.value.func) == "trimesh.triangles.bounds_tree"]
    ok = bool(trees) and all(t in ("trimesh.triangles.bounds_tree(P_triangles)", "trimesh.triangles.bounds_tree(triangles=P_triangles)") for t in trees)
    run.instance("S", f.where, f"tree := {trees} when none is passed", ok)
    if not ok:
        run.violation("S", f.where, "the r-tree built by ray_triangle_id does not index the triangles that are tested", key=key_of("C12-S", "tree"))

    # ------------------------------------------------------------------ S2 inclusion tests look at all three barycentric coordinates
    run.rule("S2", "wherever barycentric coordinates decide `inside the triangle`, the range test covers all three of them (a column subset accepts the mirror image beyond one edge)")
    from ..dag import Values
    n_s2 = 0
    for fb in ix.all_functions:
        if fb.module.name not in ("trimesh.proximity", "trimesh.ray.ray_triangle", "trimesh.ray.ray_util", "trimesh.ray.ray_pyembree"):
            continue
        if not any(isinstance(c_, ast.Call) and ast.unparse(c_.func).split(".")[-1] == "points_to_barycentric" for c_ in ast.walk(fb.node)):
            continue
        Vb = Values(ix, fb, abstract={"trimesh.triangles.points_to_barycentric": "BARY"})
        roots = []
        for st_ in ast.walk(fb.node):
            if isinstance(st_, (ast.Assign, ast.AugAssign, ast.Return, ast.Expr)) and getattr(st_, "value", None) is not None and Vb.pv.cfg.nodes_of.get(id(st_)):
                roots.append(Vb.value(st_.value, st_))
            elif isinstance(st_, (ast.If, ast.While)) and Vb.pv.cfg.nodes_of.get(id(st_)):
                roots.append(Vb.value(st_.test, st_))
        tests = []
        for root in roots:
            for tpl in ("_e_X < _e_b", "_e_X > _e_b", "_e_X <= _e_b", "_e_X >= _e_b"):
                for env, _ in Vb.dag.find(tpl, root):
                    for side in ("_e_X", "_e_b"):
                        n_ = Vb.dag.node(env[side])
                        if isinstance(n_, ast.Name) and n_.id == "BARY":
                            tests.append((env[side], True))
                        elif isinstance(n_, ast.Subscript) and isinstance(Vb.dag.node(n_.value) if isinstance(n_.value, ast.Name) else n_.value, ast.Name) \
                                and (Vb.dag.node(n_.value) if isinstance(n_.value, ast.Name) else n_.value).id == "BARY":
                            sl = n_.slice
                            sl = Vb.dag.node(sl) if isinstance(sl, ast.Name) else sl
                            cols = isinstance(sl, ast.Tuple) and len(sl.elts) == 2 and not (isinstance(sl.elts[1], ast.Slice) and sl.elts[1].lower is None and sl.elts[1].upper is None and sl.elts[1].step is None)
                            tests.append((ast.unparse(n_), not cols))
        seen_ = set()
        for txt_, whole in tests:
            if txt_ in seen_:
                continue
            seen_.add(txt_)
            n_s2 += 1
            run.instance("S2", fb.where, f"{fb.qualname}: range test on `{Vb.text(txt_, 1, 60)}` covers all coordinates: {whole}", whole)
            if not whole:
                run.violation("S2", fb.where, f"`{fb.qualname}` decides `inside the triangle` from `{Vb.text(txt_, 1, 60)}`, a subset of the barycentric coordinates: the remaining "
                                              f"coordinate (1 - the others) is never bounded, so points beyond the opposite edge count as inside", key=key_of("C12-S2", fb.qualname))
    run.floor("barycentric range tests", n_s2, 2)

    # ------------------------------------------------------------------ S3 duplicate hits are merged per ray, never across rays
    run.rule("S3", "where hits are de-duplicated (on-edge hits reported once per triangle), the uniqueness key contains the ray index: two rays of one batch that meet the surface "
                   "at the same point each keep their hit")
    n_s3 = 0
    for fb in ix.all_functions:
        if not fb.module.name.startswith("trimesh.ray."):
            continue
        uq = [c_ for c_ in ast.walk(fb.node) if isinstance(c_, ast.Call) and ast.unparse(c_.func).split(".")[-1] in ("unique_rows", "unique")]
        if not uq:
            continue
        Vu = Values(ix, fb)
        for r_ in Vu.returns():
            if not (isinstance(r_.value, ast.Tuple) and len(r_.value.elts) >= 2):
                continue
            elts = [Vu.value(e_, r_) for e_ in r_.value.elts]

            def _sel(node_):
                """the `A[U]` alternative of a returned value (the value may also come back unselected on other paths)"""
                n_ = Vu.dag.node(node_) if isinstance(node_, ast.Name) else node_
                alts_ = list(n_.args) if isinstance(n_, ast.Call) and isinstance(n_.func, ast.Name) and n_.func.id == "PHI" else [node_]
                for a_ in alts_:
                    m_ = Vu.match("_e_A[_e_U]", a_)
                    if m_ is not None and (Vu.match("trimesh.grouping.unique_rows(data=_e_KEY)[0]", m_["_e_U"]) is not None
                                           or Vu.match("trimesh.grouping.unique_rows(data=_e_KEY, digits=_e_d)[0]", m_["_e_U"]) is not None):
                        return m_
                return None

            sel = [_sel(e_) for e_ in elts]
            if not all(sel) or len({x["_e_U"] for x in sel}) != 1:
                continue
            U = sel[0]["_e_U"]
            um = Vu.match("trimesh.grouping.unique_rows(data=_e_KEY)[0]", U) or Vu.match("trimesh.grouping.unique_rows(data=_e_KEY, digits=_e_d)[0]", U)
            if um is None:
                continue
            n_s3 += 1
            ray = sel[1]["_e_A"]  # (index_tri, index_ray, locations): the second array is the ray index
            ok = Vu.dag.contains(um["_e_KEY"], ray) or um["_e_KEY"] == ray
            run.instance("S3", fb.where, f"{fb.qualname}: hits de-duplicated on `{Vu.text(um['_e_KEY'], 2, 70)}`; contains the ray index: {ok}", ok)
            if not ok:
                run.violation("S3", fb.where, f"`{fb.qualname}` removes duplicate hits by `{Vu.text(um['_e_KEY'], 2, 70)}` alone: hits of DIFFERENT rays at the same location are merged, "
                                              f"so all but one of those rays lose a triangle they cross", key=key_of("C12-S3", fb.qualname))
    if n_s3 == 0:
        run.instance("S3", "trimesh/ray", "no hit de-duplication of the recognised form (`A[unique_rows(KEY)[0]]` for every returned array) - NOT decided", True, nontrivial=False)
        run.assume("ray modules: the de-duplication of hits is not in a recognised form; that its key contains the ray index is not decided")

    # ------------------------------------------------------------------ P pruning boxes
    f = ix.func("trimesh.ray.ray_triangle:ray_bounds")
    # one canonical term for the returned box (sa/provenance.py, ssa mode: `x += e` and `x[i] = e` are definitions, locals
    # are inlined, so neither the names nor the number of intermediate steps matter), matched against expression templates
    from ..template import match_expr
    pr = Prov(ix, f, ssa=True, depth=14)
    rets = [r for r in ast.walk(f.node) if isinstance(r, ast.Return) and r.value is not None]
    if len(rets) != 1:
        raise AnalysisError("anchor vanished: the single return of ray_bounds")
    term = pr.term(rets[0].value, rets[0])
    e1 = None
    for pad in ("[-1, -1, -1, 1, 1, 1] * P_buffer_dist", "[-P_buffer_dist, -P_buffer_dist, -P_buffer_dist, P_buffer_dist, P_buffer_dist, P_buffer_dist]"):
        for box in ("numpy.hstack((_e_OP.min(axis=1), _e_OP.max(axis=1)))", "numpy.column_stack((_e_OP.min(axis=1), _e_OP.max(axis=1)))",
                    "numpy.concatenate((_e_OP.min(axis=1), _e_OP.max(axis=1)), axis=1)"):
            e1 = e1 or match_expr(f"{box} + {pad}", term)
    ok = e1 is not None
    run.instance("P", f.where, "ray box := (min, max) over the two clip points, padded outward by buffer_dist", ok)
    if not ok:
        run.violation("P", f.where, f"ray_bounds: the box handed to the r-tree is not (min, max) of both clip points padded outward by buffer_dist (`{ast.unparse(term)[:140]}...`)",
                      key=key_of("C12-P", "ray-box"))
    e2 = None
    if e1:
        for shape in (".reshape(_e_s3)", ""):
            for stack in ("numpy.column_stack((P_ray_directions * _e_TA + P_ray_origins, P_ray_directions * _e_TB + P_ray_origins))",
                          "numpy.hstack((P_ray_directions * _e_TA + P_ray_origins, P_ray_directions * _e_TB + P_ray_origins))",
                          "numpy.stack((P_ray_directions * _e_TA + P_ray_origins, P_ray_directions * _e_TB + P_ray_origins), axis=1)"):
                e2 = e2 or match_expr(stack + shape, e1["_e_OP"])
    ok = e2 is not None
    run.instance("P", f.where, "clip points are `origin + t * direction` of the same ray", ok)
    if not ok:
        run.violation("P", f.where, "ray_bounds: the two clip points are not `origin + t * direction` of the same ray", key=key_of("C12-P", "clip-points"))
    ok = False
    detail = ""
    if e2:
        ta = match_expr("_e_T[:, 0].reshape(_e_s)", e2["_e_TA"]) or match_expr("_e_T[:, 0:1]", e2["_e_TA"]) or match_expr("_e_T[:, [0]]", e2["_e_TA"])
        tb = match_expr("_e_T[:, 1].reshape(_e_s)", e2["_e_TB"]) or match_expr("_e_T[:, 1:2]", e2["_e_TB"]) or match_expr("_e_T[:, [1]]", e2["_e_TB"])
        if ta and tb and ta["_e_T"] == tb["_e_T"]:
            T = ta["_e_T"]
            e3 = match_expr("STORE(_e_T0, _[_e_T0 < P_buffer_dist], P_buffer_dist)", T) or match_expr("numpy.maximum(_e_T0, P_buffer_dist)", T) \
                or match_expr("numpy.clip(_e_T0, P_buffer_dist, None)", T)
            if e3:
                # nothing else clamps the parameters (a clamp from above cuts true hits out of the box)
                inner = ast.parse(e3["_e_T0"], mode="eval").body
                other = [ast.unparse(c.args[1]) for c in ast.walk(inner) if isinstance(c, ast.Call) and ast.unparse(c.func) == "STORE"
                         and any(isinstance(x, ast.Compare) and isinstance(x.ops[0], (ast.Lt, ast.LtE, ast.Gt, ast.GtE)) for x in ast.walk(c.args[1]))]
                other += [ast.unparse(c)[:40] for c in ast.walk(inner) if isinstance(c, ast.Call) and ast.unparse(c.func) in ("numpy.clip", "numpy.minimum", "numpy.maximum")]
                ok = not other
                detail = f"other clamps: {other}" if other else "lower clamp at buffer_dist only"
            else:
                detail = f"parameters := `{T[:80]}...`"
    run.instance("P", f.where, f"ray parameters are clamped from below only ({detail})", ok)
    if not ok:
        run.violation("P", f.where, "ray_bounds clamps the clip parameters differently: a clamp from above (or a larger lower bound) cuts true hits out of the box",
                      key=key_of("C12-P", "clamp"))
    f = ix.func("trimesh.proximity:nearby_faces")
    pn_ = Prov(ix, f)
    # roles by template (sa/template.py): _v_* are whatever the locals are called today
    from ..template import find as tfind
    btxt = dtxt = kd = None
    ok = False
    env = None
    for np_ in ("np", "numpy"):
        for tpl in (f"_v_d = _e_kd.query(_v_p)[0].reshape(_e_shape)\n_v_d += tol.merge\n_v_b = {np_}.column_stack((_v_p - _v_d, _v_p + _v_d))",
                    f"_v_d = _e_kd.query(_v_p)[0].reshape(_e_shape) + tol.merge\n_v_b = {np_}.column_stack((_v_p - _v_d, _v_p + _v_d))",
                    f"_v_d = tol.merge + _e_kd.query(_v_p)[0].reshape(_e_shape)\n_v_b = {np_}.column_stack((_v_p - _v_d, _v_p + _v_d))"):
            env = env or tfind(tpl, f.node)
    if env:
        d_, b_, p_ = env["_v_d"], env["_v_b"], env["_v_p"]
        # nothing else touches the radius or the box between their definition and the r-tree query
        others = [st for st in ast.walk(f.node) if isinstance(st, (ast.Assign, ast.AugAssign)) and
                  ast.unparse(st.targets[0] if isinstance(st, ast.Assign) else st.target).split("[")[0] in (d_, b_)]
        n_expected = 3 if any(isinstance(st, ast.AugAssign) for st in others) else 2
        btxt = [f"column_stack(({p_} - {d_}, {p_} + {d_}))"]
        dtxt = [f"{env['_e_kd']}.query({p_})[0] + tol.merge"]
        kdn = ast.parse(env["_e_kd"], mode="eval").body
        kst = next((st for st in ast.walk(f.node) if isinstance(st, ast.Assign) and b_ in [ast.unparse(t) for t in st.targets]), None)
        kd = [pn_.canon(kdn, kst)] if kst is not None else []
        pst = kst
        pt = pn_.canon(ast.Name(id=p_, ctx=ast.Load()), pst) if pst is not None else p_
        # the box array is what the r-tree is asked about, row by row
        from ..accum import contributions
        asked = [c for c in contributions(f.node) if c.iter == b_ and ".intersection(_1)" in c.elt]
        ok = len(others) == n_expected and kd == ["scipy.spatial.cKDTree(P_mesh.vertices[P_mesh.referenced_vertices])"] and pt in ("P_points",) and bool(asked)
    run.instance("P", f.where, f"proximity box := {btxt}; radius := nearest referenced vertex distance {'+' if ok else '?'} tol.merge; kd-tree over {kd}", ok)
    if not ok:
        run.violation("P", f.where, f"nearby_faces: the candidate box is not point +- (distance to the nearest referenced vertex + tol.merge) ({btxt}, {dtxt}, {kd}): "
                                    f"a smaller box can exclude the triangle that holds the closest point", key=key_of("C12-P", "proximity-box"))
    run.assume("real arithmetic; which region of closest_point a query falls in (the inequalities on d1..d6), general-position margins, the r-tree / kd-tree / embree "
               "libraries and contains_points' parity logic are not decided")
    # ------------------------------------------------------------------ P2 candidate ids are face indices
    run.rule("P2", "proximity candidates: the r-tree queried by nearby_faces is built on ALL triangles of the mesh in face order (mesh.triangles_tree), because the ids it returns "
                   "are used as indices into mesh.faces / mesh.triangles; a tree over a filtered subset numbers its boxes by position in the subset")
    nf = ix.func("trimesh.proximity:nearby_faces")

    def _tree_exprs(fn, e, depth=0):
        """expressions the tree value can come from: locals and returns of repository helpers followed"""
        if depth > 3:
            return [(fn, e)]
        if isinstance(e, ast.Name):
            out = []
            for st in ast.walk(fn.node):
                if isinstance(st, ast.Assign) and len(st.targets) == 1 and isinstance(st.targets[0], ast.Name) and st.targets[0].id == e.id:
                    out += _tree_exprs(fn, st.value, depth + 1)
            return out or [(fn, e)]
        if isinstance(e, ast.Call):
            try:
                r = ix.resolve_expr(fn.module, e.func)
            except Exception:
                r = None
            if hasattr(r, "node") and hasattr(r, "qualname") and isinstance(r.node, ast.FunctionDef) and r.module.name.startswith("trimesh") and r.qualname != "bounds_tree":
                out = []
                for ret in ast.walk(r.node):
                    if isinstance(ret, ast.Return) and ret.value is not None:
                        out += _tree_exprs(r, ret.value, depth + 1)
                return out or [(fn, e)]
        if isinstance(e, ast.Subscript) and isinstance(e.slice, ast.Constant) and "_cache" in ast.unparse(e.value):
            # a memo entry: what was stored under that key in the same function
            out = []
            for st in ast.walk(fn.node):
                if isinstance(st, ast.Assign) and isinstance(st.targets[0], ast.Subscript) and ast.unparse(st.targets[0]) == ast.unparse(e):
                    out += _tree_exprs(fn, st.value, depth + 1)
            return out or [(fn, e)]
        return [(fn, e)]

    recv = [c_.func.value for c_ in ast.walk(nf.node) if isinstance(c_, ast.Call) and isinstance(c_.func, ast.Attribute) and c_.func.attr in ("intersection", "nearest")]
    if not recv:
        run.instance("P2", nf.where, "no r-tree query of a recognised form in nearby_faces - NOT decided", True, nontrivial=False)
        run.assume("nearby_faces: r-tree query not recognised")
    for rv in recv[:1]:
        for fn_, e_ in _tree_exprs(nf, rv):
            txt = ast.unparse(e_)
            whole = txt.endswith(".triangles_tree") or (txt.replace(" ", "") in ("bounds_tree(mesh.triangles)", "triangles.bounds_tree(mesh.triangles)"))
            subset = False
            if isinstance(e_, ast.Call) and ast.unparse(e_.func).split(".")[-1] in ("bounds_tree", "_bounds_tree") and e_.args:
                # backward slice of the argument over the locals of the function it sits in
                seen_, todo_, parts_ = set(), [e_.args[0]], []
                while todo_:
                    x_ = todo_.pop()
                    parts_.append(x_)
                    for nm_ in ast.walk(x_):
                        if isinstance(nm_, ast.Name) and nm_.id not in seen_:
                            seen_.add(nm_.id)
                            todo_ += [st_.value for st_ in ast.walk(fn_.node) if isinstance(st_, ast.Assign) and len(st_.targets) == 1
                                      and isinstance(st_.targets[0], ast.Name) and st_.targets[0].id == nm_.id]
                for x_ in parts_:
                    for sub_ in ast.walk(x_):
                        if isinstance(sub_, ast.Subscript) and "triangles" in ast.unparse(sub_.value) and not isinstance(sub_.slice, (ast.Slice, ast.Constant)) \
                                and not (isinstance(sub_.slice, ast.Tuple) and all(isinstance(y_, (ast.Slice, ast.Constant)) for y_ in sub_.slice.elts)):
                            subset = True
                if not subset and any("mesh.triangles" in ast.unparse(x_) for x_ in parts_):
                    whole = True
            where_ = f"{fn_.module.rel}:{e_.lineno} {fn_.qualname}"
            if whole:
                run.instance("P2", where_, f"candidate tree `{txt[:50]}`: every triangle, in face order", True)
            elif subset:
                run.instance("P2", where_, f"candidate tree `{txt[:60]}` is built on a subset of the triangles", False)
                run.violation("P2", where_, f"nearby_faces can query `{txt[:70]}`, an r-tree over a SUBSET of the triangles: its ids count positions in the subset, but closest_point "
                                            f"uses them as indices into mesh.triangles - whenever a face was filtered out every later candidate is another triangle",
                              key=key_of("C12-P2", "subset-tree"))
            else:
                run.instance("P2", where_, f"candidate tree `{txt[:50]}` - NOT decided", True, nontrivial=False)
    # ------------------------------------------------------------------ S4 the plane side signs a point only when its projection is inside the triangle
    run.rule("S4", "signed_distance: the points whose sign is taken from the side of the closest triangle's plane are exactly those whose projection lies inside that triangle "
                   "(the barycentric range test); the mask is not widened by another condition - next to a sharp vertex the reported closest triangle may face away from the "
                   "point, so every other point is signed by the containment (ray) test")
    sd = ix.func("trimesh.proximity:signed_distance")
    masks = set()
    for st in ast.walk(sd.node):
        if isinstance(st, ast.AugAssign) and isinstance(st.op, ast.Mult) and isinstance(st.target, ast.Subscript) and "sign" in ast.unparse(st.value):
            # distance[nonzero[M]] *= -1.0 * sign
            for nm in ast.walk(st.target.slice):
                if isinstance(nm, ast.Name):
                    masks.add(nm.id)
    cand = []
    for m_ in sorted(masks):
        binds = [st for st in ast.walk(sd.node) if (isinstance(st, ast.Assign) and any(isinstance(t, ast.Name) and t.id == m_ for t in st.targets))
                 or (isinstance(st, ast.AugAssign) and isinstance(st.target, ast.Name) and st.target.id == m_)]
        if any("barycentric" in ast.unparse(b.value) for b in binds if isinstance(b, ast.Assign)):
            cand.append((m_, binds))
    if not cand:
        run.instance("S4", sd.where, "signed_distance: the mask of points signed by the plane side is not in a recognised form - NOT decided", True, nontrivial=False)
        run.assume("signed_distance: sign-by-plane mask not recognised")
    for m_, binds in cand:
        extra = [b for b in binds if not (isinstance(b, ast.Assign) and "barycentric" in ast.unparse(b.value))]
        widen = [b for b in extra if (isinstance(b, ast.AugAssign) and isinstance(b.op, ast.BitOr)) or
                 (isinstance(b, ast.Assign) and (any(isinstance(x_, ast.BinOp) and isinstance(x_.op, ast.BitOr) for x_ in ast.walk(b.value)) or "logical_or" in ast.unparse(b.value)))]
        ok = not widen
        run.instance("S4", sd.where, f"`{m_}` := barycentric range test; later definitions that widen it: {[ast.unparse(b)[:50] for b in widen] or 'none'}", ok)
        for b in widen:
            run.violation("S4", f"{sd.module.rel}:{b.lineno} {sd.qualname}", f"signed_distance widens the set of points signed by the plane of their closest triangle with `{ast.unparse(b)[:80]}`: "
                          f"a point whose projection falls outside that triangle (closest point on an edge or vertex) can lie behind the plane of the triangle closest_point "
                          f"happened to report although it is outside the mesh (sharp convex vertex: three faces more than 90 degrees apart) - it gets the wrong sign",
                          key=key_of("C12-S4", "widened-mask"))
    return {
        "explanation": "Algebraic abstract interpretation (rational identities) of planes_lines, points_to_barycentric and the seven regions of triangles.closest_point; "
        "canonical-form structural checks of ray_triangle_id (hit test, mask sequence, forward filter, first hit, tree) and of the two pruning boxes "
        "(ray_bounds, nearby_faces). Decides that the exact tests compute the right points and that the boxes handed to the spatial index contain what they must; "
        "does not decide agreement with an all-triangles oracle.",
    }
