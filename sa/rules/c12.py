"""C12 - ray / proximity queries (narrow): the closed-form pieces and the conservativeness of the pruning boxes.

 G1  intersections.planes_lines: the returned point lies on the plane and on the line; distance is the line parameter.
 G2  triangles.points_to_barycentric (both methods, 3D; cramer in 2D): coordinates sum to one and rebuild the
     orthogonal projection of the point onto the triangle's plane (the point itself when it lies in the plane).
 G3  triangles.closest_point: in each of its seven regions the returned point is the vertex / the foot of the
     perpendicular on the edge's line / the foot of the perpendicular on the plane (orthogonality identities).
 S   ray_triangle.ray_triangle_id: hits are the candidates whose plane hit has all barycentric coordinates in
     [-tol, 1 + tol]; every result array is masked by the same sequence of masks; only forward hits are kept;
     the first hit is the argmin of the ray parameter per ray; the r-tree is built from the queried triangles.
 P   ray_bounds / nearby_faces: the box handed to the r-tree contains the two clip points of the ray (both are
     points of that ray) padded outward; the proximity box is the point +- (distance to the nearest referenced
     vertex + tol.merge), which contains the closest surface point.
Which region a point falls in, the general-position margins, rtree / embree themselves and floating-point error are
not decided.
"""
from __future__ import annotations

import ast

import numpy as np
import sympy as sp

from ..alg import Frame, Interp, Unsupported, _Return, arr, symbols_array, tolerant_block
from ..index import Index
from ..provenance import Prov
from ..report import AnalysisError, key_of

LEVEL = "other"


def _zero(e):
    return sp.cancel(sp.together(sp.sympify(e))) == 0


def check(run):
    ix = Index(run.repo)
    run.analysed.update(ix.stats())
    run.rule("G1", "planes_lines: (x - plane_origin).normal == 0, x == line_origin + t * direction with t the returned distance")
    run.rule("G2", "points_to_barycentric: coordinates sum to 1 and sum(b_i * corner_i) - p is orthogonal to both edge vectors (== 0 in 2D)")
    run.rule("G3", "closest_point: per region the result is the vertex, the foot of the perpendicular on the edge line, or on the plane")
    run.rule("S", "ray_triangle_id: hit test bounds, one mask sequence for all result arrays, forward filter, first hit = argmin of the ray parameter, tree from the same triangles")
    run.rule("P", "pruning boxes are conservative: ray box = outward-padded AABB of two points of the same ray; proximity box = point +- (nearest referenced vertex distance + tol.merge)")

    # ------------------------------------------------------------------ G1
    f = ix.func("trimesh.intersections:planes_lines")
    po, pn, lo, ld = (symbols_array(n, (1, 3)) for n in ("o", "n", "a", "d"))
    it = Interp(ix, overrides={("planes_lines", "valid"): np.array([True])})
    fr = Frame(it, f, {"plane_origins": po, "plane_normals": pn, "line_origins": lo, "line_directions": ld,
                       "return_distance": True, "return_denom": False})
    res = None
    skipped = []
    try:
        tolerant_block(fr, f.node.body, skipped)
    except _Return as r:
        res = r.v
    if res is None or len(res) < 3:
        raise AnalysisError(f"E3 cannot translate planes_lines ({skipped[:3]})")
    x = arr(res[0])[0]
    t = arr(res[2])[0]
    ok = _zero(sum((x[i] - po[0, i]) * pn[0, i] for i in range(3))) and all(_zero(x[i] - lo[0, i] - t * ld[0, i]) for i in range(3))
    run.obligation("G1", f.where, "hit point on the plane and on the line at parameter `distance` (symbolic plane and line)", ok)
    if not ok:
        run.violation("G1", f.where, "planes_lines does not return the intersection of the line with the plane", key=key_of("C12-G1", "formula"))

    # ------------------------------------------------------------------ G2
    f = ix.func("trimesh.triangles:points_to_barycentric")
    for dim, methods in ((3, ("cross", "cramer")), (2, ("cramer",))):
        for method in methods:
            T = symbols_array("t", (1, 3, dim))
            P = symbols_array("p", (1, dim))
            it = Interp(ix)
            it.stubs["trimesh.util:diagonal_dot"] = lambda itp, args, kw: np.array([sum(arr(args[0])[k] * arr(args[1])[k]) for k in range(len(arr(args[0])))], dtype=object)
            try:
                b = arr(it.call(f, [T, P], {"method": method}))[0]
            except Unsupported as e:
                raise AnalysisError(f"E3 cannot translate points_to_barycentric ({method}, {dim}D): {e}")
            a_, b_, c_ = T[0]
            rebuilt = [sum(b[k] * T[0, k, j] for k in range(3)) - P[0, j] for j in range(dim)]
            e1, e2 = b_ - a_, c_ - a_
            ok = _zero(sum(b) - 1)
            if dim == 2:
                ok = ok and all(_zero(r_) for r_ in rebuilt)
            else:
                ok = ok and _zero(sum(rebuilt[j] * e1[j] for j in range(3))) and _zero(sum(rebuilt[j] * e2[j] for j in range(3)))
            run.obligation("G2", f.where, f"method={method}, {dim}D: sum == 1 and the rebuilt point is the {'point' if dim == 2 else 'orthogonal projection'}", ok)
            if not ok:
                run.violation("G2", f.where, f"points_to_barycentric(method={method!r}) in {dim}D does not return the barycentric coordinates of the point's projection",
                              key=key_of("C12-G2", method, dim))

    # ------------------------------------------------------------------ G3
    f = ix.func("trimesh.triangles:closest_point")
    T = symbols_array("t", (1, 3, 3))
    P = symbols_array("p", (1, 3))
    masks = ["is_a", "is_b", "is_ab", "is_c", "is_ac", "is_bc"]
    a_, b_, c_ = T[0]
    p_ = P[0]
    n_ = np.array(sp.Matrix(list(b_ - a_)).cross(sp.Matrix(list(c_ - a_))).T.tolist()[0], dtype=object)
    for region in masks + ["face"]:
        ov = {("closest_point", m): np.array([m == region]) for m in masks}
        ov[("closest_point", "remain")] = np.array([True])
        it = Interp(ix, overrides=ov)
        fr = Frame(it, f, {"triangles": T, "points": P})
        skipped = []
        res = None
        try:
            tolerant_block(fr, f.node.body, skipped)
        except _Return as r:
            res = r.v
        if res is None or skipped:
            raise AnalysisError(f"E3 cannot translate closest_point for region {region}: {skipped[:3]}")
        q = arr(res)[0]
        d = p_ - q
        if region in ("is_a", "is_b", "is_c"):
            v = {"is_a": a_, "is_b": b_, "is_c": c_}[region]
            ok = all(_zero(q[j] - v[j]) for j in range(3))
            what = f"vertex region {region[-1].upper()}: result == that vertex"
        elif region in ("is_ab", "is_ac", "is_bc"):
            s0, s1 = {"is_ab": (a_, b_), "is_ac": (a_, c_), "is_bc": (b_, c_)}[region]
            e = s1 - s0
            on_line = np.array(sp.Matrix(list(q - s0)).cross(sp.Matrix(list(e))).T.tolist()[0], dtype=object)
            ok = _zero(sum(d[j] * e[j] for j in range(3))) and all(_zero(x_) for x_ in on_line)
            what = f"edge region {region[3:].upper()}: result on the edge's line and (p - result) orthogonal to the edge"
        else:
            ok = _zero(sum(d[j] * (b_ - a_)[j] for j in range(3))) and _zero(sum(d[j] * (c_ - a_)[j] for j in range(3))) \
                and _zero(sum((q - a_)[j] * n_[j] for j in range(3)))
            what = "face region: result in the plane and (p - result) orthogonal to both edges"
        run.obligation("G3", f.where, what, ok)
        if not ok:
            run.violation("G3", f.where, f"closest_point, {what.split(':')[0]}: the returned point is not the closest point of that feature", key=key_of("C12-G3", region))

    # ------------------------------------------------------------------ S ray_triangle_id
    f = ix.func("trimesh.ray.ray_triangle:ray_triangle_id")
    pv = Prov(ix, f)

    def canon_of(name, at=None):
        defs = [st for st in ast.walk(f.node) if isinstance(st, ast.Assign) and isinstance(st.targets[0], ast.Name) and st.targets[0].id == name]
        return [(st, pv.canon(st.value, st, stop=STOP)) for st in defs]

    STOP = ("barycentric", "location", "ray_candidates", "ray_id", "valid", "hit", "forward", "index_tri", "index_ray", "distance", "vector", "triangles", "tree",
            "ray_origins", "ray_directions", "triangle_candidates")
    hit = canon_of("hit")
    ok = len(hit) == 1 and hit[0][1] in (
        "numpy.logical_and((L_barycentric > -tol.zero).all(axis=1), (L_barycentric < 1 + tol.zero).all(axis=1))",
        "numpy.logical_and((L_barycentric < 1 + tol.zero).all(axis=1), (L_barycentric > -tol.zero).all(axis=1))")
    run.instance("S", f.where, f"hit := {hit[0][1][:120] if hit else None}", ok)
    if not ok:
        run.violation("S", f.where, f"ray_triangle_id accepts a plane hit under `{hit[0][1][:120] if hit else None}`: not `all barycentric coordinates in [-tol.zero, 1 + tol.zero]`",
                      key=key_of("C12-S", "hit-test"))
    # the three result arrays pass the same masks in the same order
    seqs = {}
    for name in ("index_tri", "index_ray", "location"):
        seqs[name] = [c for _, c in canon_of(name)]
    norm = {
        "index_tri": [s.replace("L_ray_candidates", "X").replace("L_index_tri", "X") for s in seqs["index_tri"]],
        "index_ray": [s.replace("L_ray_id", "X").replace("L_index_ray", "X") for s in seqs["index_ray"]],
    }
    loc = [s for s in seqs["location"] if s.startswith("L_location[")]
    ok = norm["index_tri"] == norm["index_ray"] == ["X[L_valid][L_hit]", "X[L_forward]"] and loc == ["L_location[L_hit]", "L_location[L_forward]"]
    run.instance("S", f.where, f"index_tri / index_ray / location masked by [valid][hit] then [forward] ({norm['index_tri']}, {norm['index_ray']}, {loc})", ok)
    if not ok:
        run.violation("S", f.where, f"the result arrays of ray_triangle_id are not masked alike ({seqs}): triangle index, ray index and location no longer correspond row by row",
                      key=key_of("C12-S", "mask-sequence"))
    fw = canon_of("forward")
    dist = canon_of("distance")
    vec = canon_of("vector")
    ok = bool(fw) and fw[0][1] in ("L_distance > -1e-06", "L_distance >= -1e-06", "L_distance > 0", "L_distance >= 0", "L_distance > 0.0") \
        and bool(dist) and dist[0][1] == "trimesh.util.diagonal_dot(L_vector, L_ray_directions[L_index_ray])" \
        and bool(vec) and vec[0][1] == "L_location - L_ray_origins[L_index_ray]"
    run.instance("S", f.where, f"forward := {fw[0][1] if fw else None}; distance := {dist[0][1] if dist else None}", ok)
    if not ok:
        run.violation("S", f.where, "ray_triangle_id no longer keeps exactly the hits whose parameter along the ray direction is non-negative (to 1e-6)", key=key_of("C12-S", "forward"))
    first = canon_of("first")
    ok = bool(first) and "L_distance[g].argmin()" in first[0][1].replace("EACH(trimesh.grouping.group(L_index_ray))", "g") and "trimesh.grouping.group(L_index_ray)" in first[0][1]
    run.instance("S", f.where, f"first := {first[0][1][:110] if first else None}", ok)
    if not ok:
        run.violation("S", f.where, "the first hit of a ray is no longer the one with the smallest ray parameter within that ray's group of hits", key=key_of("C12-S", "first-hit"))
    tr = canon_of("tree")
    ok = bool(tr) and tr[0][1] == "trimesh.triangles.bounds_tree(L_triangles)"
    run.instance("S", f.where, f"tree := {tr[0][1] if tr else None} when none is passed", ok)
    if not ok:
        run.violation("S", f.where, "the r-tree built by ray_triangle_id does not index the triangles that are tested", key=key_of("C12-S", "tree"))

    # ------------------------------------------------------------------ P pruning boxes
    f = ix.func("trimesh.ray.ray_triangle:ray_bounds")
    pr = Prov(ix, f)
    stop = ("t_a", "t_b", "ray_directions", "ray_origins", "on_a", "on_b", "on_plane", "ray_bounding", "buffer_dist", "t")

    def one(name):
        d = [st for st in ast.walk(f.node) if isinstance(st, (ast.Assign, ast.AugAssign)) and ast.unparse(st.targets[0] if isinstance(st, ast.Assign) else st.target) == name]
        return [(st, pr.canon(st.value, st, stop=stop)) for st in d]

    on_a, on_b = one("on_a"), one("on_b")
    ok = [c for _, c in on_a] == ["L_ray_directions * L_t_a + L_ray_origins"] and [c for _, c in on_b] == ["L_ray_directions * L_t_b + L_ray_origins"]
    run.instance("P", f.where, f"clip points: on_a := {[c for _, c in on_a]}, on_b := {[c for _, c in on_b]} (points of the ray)", ok)
    if not ok:
        run.violation("P", f.where, "ray_bounds: the two clip points are not `origin + t * direction` of the same ray", key=key_of("C12-P", "clip-points"))
    rb = one("ray_bounding")
    texts = [c for _, c in rb]
    ok = len(texts) == 2 and texts[0] == "numpy.hstack((L_on_plane.min(axis=1), L_on_plane.max(axis=1)))" \
        and texts[1] in ("numpy.array([-1, -1, -1, 1, 1, 1]) * L_buffer_dist", "L_buffer_dist * numpy.array([-1, -1, -1, 1, 1, 1])",
                         "[-1, -1, -1, 1, 1, 1] * L_buffer_dist", "L_buffer_dist * [-1, -1, -1, 1, 1, 1]")
    op = one("on_plane")
    ok = ok and [c for _, c in op] == ["numpy.column_stack((L_on_a, L_on_b)).reshape((-1, 2, L_ray_directions.shape[1]))"]
    run.instance("P", f.where, f"ray box := {texts}", ok)
    if not ok:
        run.violation("P", f.where, f"ray_bounds: the box handed to the r-tree is not (min, max) of both clip points padded outward by buffer_dist ({texts})",
                      key=key_of("C12-P", "ray-box"))
    clamp = [st for st in ast.walk(f.node) if isinstance(st, ast.Assign) and ast.unparse(st.targets[0]).startswith("t[t <")]
    ok = len(clamp) == 1 and ast.unparse(clamp[0]) == "t[t < buffer_dist] = buffer_dist"
    run.instance("P", f.where, f"ray parameters are clamped from below only ({[ast.unparse(c) for c in clamp]})", ok)
    if not ok:
        run.violation("P", f.where, "ray_bounds clamps the clip parameters differently: a clamp from above (or a larger lower bound) cuts true hits out of the box",
                      key=key_of("C12-P", "clamp"))
    f = ix.func("trimesh.proximity:nearby_faces")
    pn_ = Prov(ix, f)
    st_b = [st for st in ast.walk(f.node) if isinstance(st, ast.Assign) and ast.unparse(st.targets[0]) == "bounds"]
    st_d = [st for st in ast.walk(f.node) if isinstance(st, (ast.Assign, ast.AugAssign)) and ast.unparse(st.targets[0] if isinstance(st, ast.Assign) else st.target) == "distance_vertex"]
    btxt = [pn_.canon(st.value, st, stop=("distance_vertex", "points")) for st in st_b]
    dtxt = [(type(st).__name__, ast.unparse(getattr(st, "op", ast.Add())) if isinstance(st, ast.AugAssign) else "", pn_.canon(st.value, st, stop=("points", "kdtree"))) for st in st_d]
    kd = [pn_.canon(st.value, st) for st in ast.walk(f.node) if isinstance(st, ast.Assign) and ast.unparse(st.targets[0]) == "kdtree"]
    ok = btxt == ["numpy.column_stack((L_points - L_distance_vertex, L_points + L_distance_vertex))"] \
        and len(dtxt) == 2 and dtxt[0][2].startswith("L_kdtree.query(L_points)[0]") and dtxt[1][0] == "AugAssign" and isinstance(st_d[1].op, ast.Add) and dtxt[1][2] == "tol.merge" \
        and kd == ["scipy.spatial.cKDTree(P_mesh.vertices[P_mesh.referenced_vertices])"]
    run.instance("P", f.where, f"proximity box := {btxt}; radius := nearest referenced vertex distance {'+' if ok else '?'} tol.merge; kd-tree over {kd}", ok)
    if not ok:
        run.violation("P", f.where, f"nearby_faces: the candidate box is not point +- (distance to the nearest referenced vertex + tol.merge) ({btxt}, {dtxt}, {kd}): "
                                    f"a smaller box can exclude the triangle that holds the closest point", key=key_of("C12-P", "proximity-box"))
    run.assume("real arithmetic; which region of closest_point a query falls in (the inequalities on d1..d6), general-position margins, the r-tree / kd-tree / embree "
               "libraries and contains_points' parity logic are not decided")
    return {
        "explanation": "Algebraic abstract interpretation (rational identities) of planes_lines, points_to_barycentric and the seven regions of triangles.closest_point; "
        "canonical-form structural checks of ray_triangle_id (hit test, mask sequence, forward filter, first hit, tree) and of the two pruning boxes "
        "(ray_bounds, nearby_faces). Decides that the exact tests compute the right points and that the boxes handed to the spatial index contain what they must; "
        "does not decide agreement with an all-triangles oracle.",
    }
