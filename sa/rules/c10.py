"""C10 - scene-level quantities (narrow).

Decides: every cached scene producer reads only state the scene hash covers (forest,
geometries, base frame); the copying / converting operations never write through the source
scene; aggregates iterate node instances (not geometry definitions); a `hasattr` guard in an
aggregate admits only classes that also have the attribute that is read; comprehensions that
are combined element-wise are filtered alike.
"""
from __future__ import annotations

import ast

from ..effects import Effects
from ..index import Index
from ..rawreads import raw_reads
from ..report import AnalysisError, key_of

LEVEL = "other"

# (export / save_image are exporters: their read-only discipline is decided by C08-R1)
READ_ONLY_OPS = ["copy", "scaled", "convert_units", "subscene", "__add__", "dump", "to_mesh", "to_geometry", "reconstruct_instances"]
FREE_READ_ONLY = ["trimesh.scene.scene:append_scenes", "trimesh.scene.scene:split_scene"]
# aggregates that must be weighted by instances; per-definition quantities are the reasoned exceptions
PER_INSTANCE = ["bounds_corners", "area", "volume", "center_mass", "moment_inertia", "triangles", "convex_hull", "duplicate_nodes"]
PER_DEFINITION = {"geometry_identifiers": "identifier of each geometry definition, keyed by geometry name",
                  "units": "one unit system per geometry definition"}
# writes an operation may perform on `self` although it is "read-only": lazily created defaults
LAZY_FIELDS = {"_camera": "default camera created on first access", "_lights": "default lights created on first access",
               "_source": "default LoadSource created on first access"}


def _scene_hash_cover(ix):
    """what reaches the value returned by Scene.__hash__ (through local assignments, accumulator calls, comprehensions or loops)"""
    from ..accum import canon_elt, canon_iter, contributions, return_sources
    from ..provenance import Prov

    h = ix.func("trimesh.scene.scene:Scene.__hash__")
    srcs, reach = return_sources(h.node)
    inside = {id(x) for e in srcs for x in ast.walk(e)}
    texts = {ast.unparse(x) for e in srcs for x in ast.walk(e) if isinstance(x, (ast.Call, ast.Attribute))}
    pv = Prov(ix, h)

    def canon(e):
        st = pv.stmt_of(e)
        return pv.canon(e, st) if st is not None else ast.unparse(e)

    geo = False
    for c in contributions(h.node):
        if not (id(c.node) in inside if c.acc is None else c.acc.split(".")[0] in reach) or c.filters:
            continue
        it = canon_iter(pv, c, h.node)
        elt = canon_elt(pv, c)
        H = lambda x: (f"hex({x}.__hash__())", f"{x}.__hash__()", f"hex(hash({x}))", f"hash({x})")  # noqa
        # per definition: hash of self.geometry[k] for every key, or of every value
        if it in ("P_self.geometry.keys()", "P_self.geometry") and elt in H("P_self.geometry[_1]"):
            geo = True
        if it == "P_self.geometry.values()" and elt in H("_1"):
            geo = True
        if it == "P_self.geometry.items()" and elt in H("_2"):
            geo = True
    return {
        "forest": bool({"self.graph.transforms.__hash__()", "hash(self.graph.transforms)"} & texts),
        "geometry": geo,
        "base_frame": "self.graph.base_frame" in texts,
    }, h


def _enclosing_for(fnode, st):
    for n in ast.walk(fnode):
        if isinstance(n, ast.For) and any(x is st for x in ast.walk(n)):
            best = n
    return best


def _planar_shortcut(run, ix):
    import numpy as np
    import sympy as sp
    from ..index import const_eval

    f = ix.func("trimesh.scene.scene:Scene.dump")
    branch = None
    for st in ast.walk(f.node):
        if isinstance(st, ast.If) and isinstance(st.test, ast.Call) and ast.unparse(st.test.func) == "hasattr" and "to_3D" in ast.unparse(st.test):
            branch = st
    if branch is None:
        raise AnalysisError("anchor vanished: the `hasattr(current, 'to_3D')` branch of Scene.dump")
    grid = np.arange(16).reshape((4, 4))

    def to_index(sl):
        if isinstance(sl, ast.Slice):
            return slice(*[None if v is None else const_eval(v) for v in (sl.lower, sl.upper, sl.step)])
        if isinstance(sl, ast.Tuple):
            return tuple(to_index(e) for e in sl.elts)
        return const_eval(sl)

    def region(sl):
        try:
            return grid[to_index(sl)]  # slicing of a constant index grid only
        except Exception as e:
            raise AnalysisError(f"Scene.dump: cannot evaluate the constant slice `{ast.unparse(sl)}`: {e}")

    masked = set()
    tol_ok = False
    clip = None
    decide = None
    for st in ast.walk(branch):
        if isinstance(st, ast.Assign) and isinstance(st.targets[0], ast.Subscript) and ast.unparse(st.targets[0].value) == "check" \
                and isinstance(st.value, ast.Constant) and st.value.value is True:
            masked |= set(int(v) for v in np.asarray(region(st.targets[0].slice)).ravel())
        if isinstance(st, ast.Assign) and ast.unparse(st.targets[0]) == "check" and isinstance(st.value, ast.Call):
            t = ast.unparse(st.value)
            tol_ok = ("isclose(transform, util._IDENTITY" in t or "isclose(transform, np.eye(4)" in t)
        if isinstance(st, ast.If) and "check" in ast.unparse(st.test):
            decide = st
    if decide is None or not tol_ok:
        raise AnalysisError("anchor vanished: `check = isclose(transform, identity)` / `if not check.all()` in Scene.dump")
    # which branch keeps the path planar
    neg = isinstance(decide.test, ast.UnaryOp) and isinstance(decide.test.op, ast.Not)
    planar_body = decide.orelse if neg else decide.body
    for st in planar_body:
        if isinstance(st, ast.Assign) and ast.unparse(st.targets[0]) == "transform" and isinstance(st.value, ast.Subscript) \
                and ast.unparse(st.value.value) == "transform":
            clip = np.asarray(region(st.value.slice))
    if clip is None:
        raise AnalysisError("anchor vanished: the clipped planar transform in Scene.dump")
    S = sp.eye(4).as_mutable()
    free = []
    for k in sorted(masked):
        r, c = divmod(k, 4)
        S[r, c] = sp.Symbol(f"m{r}{c}", real=True)
        free.append((r, c))
    x, y = sp.symbols("x y", real=True)
    ok = clip.shape == (3, 3)
    detail = f"ignored entries {free}, clipped indices {clip.tolist()}"
    if ok:
        C = sp.Matrix(3, 3, lambda i, j: S[divmod(int(clip[i, j]), 4)])
        two = C * sp.Matrix([x, y, 1])
        three = S * sp.Matrix([x, y, 0, 1])
        eqs = [sp.expand(two[0] - three[0] * two[2]), sp.expand(two[1] - three[1] * two[2]), sp.expand(three[2]), sp.expand(two[2] - 1), sp.expand(three[3] - 1)]
        ok = all(e == 0 for e in eqs)
        detail += f"; residuals {[str(e) for e in eqs if e != 0]}"
    run.obligation("R8", f.where, f"planar shortcut == 3D transform on z = 0 ({detail})", ok)
    if not ok:
        run.violation("R8", f.where, f"Scene.dump keeps a Path2D planar for matrices whose clipped 3x3 does not act on (x, y) like the 4x4 acts on (x, y, 0): {detail}. "
                                     f"The baked path is displaced (or loses its offset) relative to the node transform", key=key_of("C10-R8", "planar-clip"))


def _append_state(run, ix):
    """append_scenes renames the nodes of each appended scene through a closure that records `old name -> new name` and the
    names used by the scene being appended.  Both are facts about ONE scene: a table that survives into the next scene
    sends that scene's nodes to names minted for an earlier one (its edges are re-attached to another scene's subtree).
    Rule: every container the closure writes is re-created or cleared inside the loop over the appended scenes; the only
    state that may live across iterations is what the loop itself accumulates outside the closure."""
    run.rule("R9", "append_scenes: every container written by the node-renaming closure (remap table, names used by the current scene) is re-created or "
                   "cleared for each appended scene; only the loop's own accumulators live across scenes")
    f = ix.func("trimesh.scene.scene:append_scenes")
    loops = [st for st in f.node.body if isinstance(st, ast.For) and ast.unparse(st.iter) == (f.params[0] if f.params else "iterable")]
    if len(loops) != 1 or not f.nested:
        run.instance("R9", f.where, "append_scenes: no single loop over the appended scenes with a renaming closure - NOT decided", True, nontrivial=False)
        run.assume("append_scenes: loop over the appended scenes / renaming closure not in a recognised form")
        return
    loop = loops[0]
    called = {c.func.id for c in ast.walk(loop) if isinstance(c, ast.Call) and isinstance(c.func, ast.Name)}
    n = 0
    for g in f.nested.values():
        if g.name not in called:
            continue
        local = set(g.params) | {x.id for x in ast.walk(g.node) if isinstance(x, ast.Name) and isinstance(x.ctx, ast.Store)}
        written = {}
        for x in ast.walk(g.node):
            if isinstance(x, ast.Assign) and isinstance(x.targets[0], ast.Subscript) and isinstance(x.targets[0].value, ast.Name):
                written.setdefault(x.targets[0].value.id, "item store")
            elif isinstance(x, ast.Call) and isinstance(x.func, ast.Attribute) and isinstance(x.func.value, ast.Name) \
                    and x.func.attr in ("add", "append", "update", "setdefault", "extend", "insert"):
                written.setdefault(x.func.value.id, f".{x.func.attr}()")
        for name, how in sorted(written.items()):
            if name in local:
                continue
            n += 1
            reset = False
            for st in ast.walk(loop):
                if (isinstance(st, ast.Assign) and any(isinstance(t, ast.Name) and t.id == name for t in st.targets)) or \
                        (isinstance(st, ast.AnnAssign) and st.value is not None and isinstance(st.target, ast.Name) and st.target.id == name):
                    reset = True
                elif isinstance(st, ast.Call) and isinstance(st.func, ast.Attribute) and st.func.attr == "clear" \
                        and isinstance(st.func.value, ast.Name) and st.func.value.id == name:
                    reset = True
            run.instance("R9", g.where, f"`{name}` (written by {g.name}: {how}) is re-created / cleared per appended scene", reset)
            if not reset:
                run.violation("R9", g.where, f"`{name}` is written by `{g.name}` ({how}) for every node of every appended scene but is never re-created or cleared inside "
                                             f"the loop over the scenes: what it recorded for one scene is applied to the next (a node name seen in an earlier scene "
                                             f"is sent to the name minted there)", key=key_of("C10-R9", "append-state", name))
    if n == 0:
        run.instance("R9", f.where, "the renaming closure writes no enclosing container - NOT decided", True, nontrivial=False)


def check(run):
    ix = Index(run.repo)
    ef = Effects(ix)
    run.analysed.update(ix.stats())
    run.rule("R1", "memo soundness: cached scene producers read only the forest, the geometries and the base frame - all covered by Scene.__hash__")
    run.rule("R2", "the copying / converting / exporting operations have no write effect rooted at the source scene (memo fills and lazily created defaults aside)")
    run.rule("R3", "aggregates iterate node instances (graph.nodes_geometry / dump), not geometry definitions")
    run.rule("R4", "guard/use agreement: `hasattr(g, Y)` admits only geometry classes that also define the attribute that is read; element-wise combined comprehensions share their filter")
    run.rule("R7", "scene / graph memo entries are read raw only after verification")

    S = ix.cls("trimesh.scene.scene.Scene")
    cover, h = _scene_hash_cover(ix)
    for what, ok in cover.items():
        run.instance("R1", h.where, f"Scene.__hash__ covers {what}", ok)
        if not ok:
            run.violation("R1", h.where, f"Scene.__hash__ does not cover the {what}: every scene-level memo reads it", key=key_of("C10-R1", "hash", what))

    producers = {n: g for k in S.mro for n, g in k.getters.items() if g.kind == "cached"}
    run.floor("cached scene producers", len(producers), 12)
    allowed_first = {"graph", "geometry", "_cache"}
    # attributes a Scene actually has: class members through the MRO and `self.x = ...` stores in its methods; a read of
    # anything else sits on a branch written for other geometry kinds (e.g. `obj.vertices` in bounds.oriented_bounds)
    scene_attrs = set()
    for k in S.mro:
        scene_attrs |= set(k.getters) | set(k.methods) | set(k.attrs) | set(k.setters)
        for m in list(k.methods.values()) + list(k.setters.values()):
            for st in ast.walk(m.node):
                if isinstance(st, ast.Attribute) and isinstance(st.ctx, ast.Store) and isinstance(st.value, ast.Name) and st.value.id == "self":
                    scene_attrs.add(st.attr)
    for name, g in sorted(producers.items()):
        s = ef.summary(g, S)
        bad = set()
        reads_inst = False
        for (root, path, tag) in s.reads:
            if root != g.params[0] or not path:
                continue
            if path[0] == "graph":
                if "nodes_geometry" in "".join(path) or (len(path) > 2 and path[1] == "_cache"):
                    reads_inst = reads_inst or any("nodes_geometry" in p for p in path)
                # only forest state, base frame and the graph's own memo
                if len(path) > 1 and path[1] not in ("transforms", "base_frame", "_cache", "repair_rigid"):
                    bad.add(".".join(path))
                continue
            if path[0] in allowed_first:
                continue
            if path[0] in ("__class__",) or path[0] not in scene_attrs:
                continue
            bad.add(".".join(path))
        ok = not bad
        run.instance("R1", g.where, f"{name}: reads graph/geometry only" + (f"; also {sorted(bad)[:4]}" if bad else ""), ok)
        if not ok:
            run.violation("R1", g.where, f"cached scene property `{name}` depends on state Scene.__hash__ does not cover: {sorted(bad)[:6]}",
                          key=key_of("C10-R1", name))
        # ---- R3
        if name in PER_INSTANCE:
            txt = ast.unparse(g.node)
            calls_dump = "self.dump(" in txt or "scene_inertia(" in txt or "self.center_mass" in txt and name == "moment_inertia"
            ok3 = reads_inst or calls_dump
            run.instance("R3", g.where, f"{name}: iterates instances (nodes_geometry read: {reads_inst}, via dump/scene_inertia: {bool(calls_dump)})", ok3)
            if not ok3:
                run.violation("R3", g.where, f"scene aggregate `{name}` does not iterate the nodes that reference geometry: a geometry instanced "
                                             f"several times (or not at all) is counted once", key=key_of("C10-R3", name))
        elif name in PER_DEFINITION:
            run.instance("R3", g.where, f"{name}: per-definition quantity - {PER_DEFINITION[name]}", True, nontrivial=False)

    # ---- R2 source read-only
    n2 = 0
    targets = []
    for opn in READ_ONLY_OPS:
        m = ix.member(S, opn).get("method")
        if m is None:
            raise AnalysisError(f"anchor vanished: Scene.{opn}")
        targets.append((m, S, [m.params[0]]))
    for spec in FREE_READ_ONLY:
        try:
            f = ix.func(spec)
        except AnalysisError:
            continue
        targets.append((f, None, [p for p in f.params if p in ("iterable", "scenes", "geometry", "scene", "common")][:1] or f.params[:1]))
    for f, cls, roots in targets:
        s = ef.summary(f, cls)
        n2 += 1
        bad = []
        for (root, path, kind) in s.writes:
            if root not in roots or kind == "memo":
                continue
            if any(p in LAZY_FIELDS for p in path):
                continue
            if any(p in ("_visual", "visual") for p in path) and "_data" in path:
                # ColorVisuals moves a colour array between its own cache and data store when queried (value preserving,
                # documented in visual/color.py); the geometry and graph of the scene are untouched
                continue
            if "_cache" in path:
                continue
            site = s.sites.get((root, path, kind), (0, ""))
            bad.append((".".join(path), kind, site[1]))
        ok = not bad
        run.instance("R2", f.where, f"{f.qualname}: no write rooted at `{roots[0]}`" if ok else f"{f.qualname}: writes {bad[:3]}", ok)
        for path, kind, site in bad[:6]:
            run.violation("R2", f.where,
                          f"`{f.qualname}` modifies the source scene: {kind} write of `{roots[0]}.{path}` (at `{site}`); "
                          f"the operation is documented to return a new scene / bytes and leave its source unchanged",
                          key=key_of("C10-R2", f.qualname, path))
    run.floor("read-only operations analysed", n2, 9)

    # ---- R4 guard/use agreement inside scene.py and inertia.scene_inertia
    G = ix.cls("trimesh.parent.Geometry")
    geom_classes = [G] + ix.all_subclasses(G)

    def defines(c, attr):
        mem = ix.member(c, attr)
        return bool(mem.get("getter") or mem.get("method") or mem.get("attr"))

    n4 = 0
    funcs = [g for g in producers.values()] + [ix.func("trimesh.inertia:scene_inertia")]
    for g in funcs:
        for node in ast.walk(g.node):
            comps = []
            if isinstance(node, (ast.DictComp, ast.ListComp, ast.GeneratorExp, ast.SetComp)):
                comps = [(node, gen) for gen in node.generators]
            for comp, gen in comps:
                for cond in gen.ifs:
                    for c in ast.walk(cond):
                        if isinstance(c, ast.Call) and getattr(c.func, "id", "") == "hasattr" and len(c.args) == 2 \
                                and isinstance(c.args[1], ast.Constant):
                            var = ast.unparse(c.args[0])
                            guard = c.args[1].value
                            elts = [comp.value] if isinstance(comp, ast.DictComp) else [comp.elt]
                            for e in elts:
                                for a in ast.walk(e):
                                    if isinstance(a, ast.Attribute) and ast.unparse(a.value) == var:
                                        used = a.attr
                                        n4 += 1
                                        lacking = [k.name for k in geom_classes if defines(k, guard) and not defines(k, used)
                                                   and not k.name.startswith("_")]
                                        ok = not lacking
                                        run.instance("R4", f"{g.module.rel}:{comp.lineno} {g.qualname}",
                                                     f"guard hasattr(., '{guard}') / use .{used}: classes with the guard but without the attribute: {lacking}", ok)
                                        if not ok:
                                            run.violation("R4", f"{g.module.rel}:{comp.lineno} {g.qualname}",
                                                          f"`{g.name}` reads `.{used}` of every geometry that has `.{guard}`, but {lacking} define "
                                                          f"`{guard}` and not `{used}`: scenes containing them raise AttributeError",
                                                          key=key_of("C10-R4", g.qualname, guard, used))
    # element-wise combined comprehensions in center_mass: both lists must iterate the same filtered instance list
    cm = producers.get("center_mass")
    if cm is None:
        raise AnalysisError("anchor vanished: Scene.center_mass")
    # (comprehension or accumulating loop: sa/accum.py describes both the same way)
    from ..accum import contributions
    inst = [c for c in contributions(cm.node) if c.iter == "instance"]
    filters = [sorted(t if pol else f"not ({t})" for t, pol in c.filters) for c in inst]
    # the instance list itself may carry the filter
    inst_def = [st for st in ast.walk(cm.node) if isinstance(st, ast.Assign) and ast.unparse(st.targets[0]) == "instance"]
    base_filter = []
    for st in inst_def:
        if isinstance(st.value, ast.ListComp):
            base_filter = sorted(ast.unparse(i) for g in st.value.generators for i in g.ifs)
    eff = [sorted(set(f_) | set(base_filter)) for f_ in filters]
    has_mass_filter = all(any("in mass" in x or "in center_mass" in x for x in f_) for f_ in eff) if eff else False
    ok = len(inst) >= 2 and has_mass_filter
    n4 += 1
    run.instance("R4", cm.where, f"center_mass: the {len(inst)} per-instance lists are all restricted to geometry with mass properties: {eff}", ok)
    if not ok:
        run.violation("R4", cm.where, "Scene.center_mass combines per-instance lists that are filtered differently (one of them looks up mass for "
                                      "geometry that has none): KeyError / misaligned weights for scenes with paths or point clouds",
                      key=key_of("C10-R4", "center_mass-filters"))
    run.floor("guard/use sites", n4, 4)

    # ---- R8 baking a 2D path: the planar shortcut agrees with the full transform on the plane
    run.rule("R8", "Scene.dump: for every matrix that passes the planarity test, applying the clipped 3x3 to (x, y) equals applying the 4x4 to (x, y, 0) (symbolic identity over the entries the test ignores)")
    _planar_shortcut(run, ix)

    # ---- R9 append_scenes: name-remap state written by the per-node closure is per appended scene
    _append_state(run, ix)

    # ---- R7
    raw_reads(run, ix, ef, "R7", "C10", module_filter=lambda m: m.startswith("trimesh.scene"), floor=0)
    run.assume("geometry kinds = in-repo subclasses of parent.Geometry (class table from the index)")
    from ..scenerecert import recert_rule
    recert_rule(run, ix, "R10", "C10")
    # ------------------------------------------------------------------ R11 moving the scene composes with the edge that is there
    run.rule("R11", "Scene methods that move the scene by updating the edge to an EXISTING child of a frame (a node taken from the graph's children) build the new matrix "
                    "from the current matrix of that edge: overwriting it with the offset alone discards the placement (earlier offset, rotation) stored there")
    sc_cls = ix.cls("trimesh.scene.scene.Scene")
    n11 = 0
    for name_, f_ in sc_cls.methods.items():
        defs_ = {}
        for st in ast.walk(f_.node):
            if isinstance(st, ast.Assign):
                for t_ in st.targets:
                    for nm in ast.walk(t_):
                        if isinstance(nm, ast.Name) and isinstance(nm.ctx, ast.Store):
                            defs_.setdefault(nm.id, []).append(st.value)
            if isinstance(st, ast.For):
                for nm in ast.walk(st.target):
                    if isinstance(nm, ast.Name):
                        defs_.setdefault(nm.id, []).append(st.iter)

        def slice_(e):
            seen, todo, out = set(), [e], []
            while todo:
                x = todo.pop()
                out.append(x)
                for nm in ast.walk(x):
                    if isinstance(nm, ast.Name) and nm.id not in seen and nm.id != "self":
                        seen.add(nm.id)
                        todo += defs_.get(nm.id, [])
            return out

        for c_ in ast.walk(f_.node):
            if not (isinstance(c_, ast.Call) and isinstance(c_.func, ast.Attribute) and c_.func.attr == "update" and ast.unparse(c_.func.value).endswith(".graph")):
                continue
            kw = {k.arg: k.value for k in c_.keywords if k.arg}
            to_ = kw.get("frame_to", c_.args[0] if c_.args else None)
            mat_ = kw.get("matrix")
            if to_ is None or mat_ is None:
                continue
            existing = any("children" in ast.unparse(x) for x in slice_(to_))
            if not existing:
                continue
            n11 += 1
            reads_edge = any(("graph.get(" in ast.unparse(x)) or ("graph[" in ast.unparse(x)) or ("edge_data" in ast.unparse(x)) or (".transforms.get(" in ast.unparse(x)) for x in slice_(mat_))
            where_ = f"{f_.module.rel}:{c_.lineno} {f_.qualname}"
            run.instance("R11", where_, f"`{ast.unparse(c_)[:70]}`: the child exists; new matrix built from the current edge: {reads_edge}", reads_edge)
            if not reads_edge:
                run.violation("R11", where_, f"`{f_.qualname}` sets the edge to an existing child (`{ast.unparse(to_)[:30]}`, taken from the graph's children) to `{ast.unparse(mat_)[:30]}`, "
                                             f"which is not computed from the matrix that edge holds now: whatever placement was stored there (an earlier offset, a rotation applied "
                                             f"through apply_transform) is discarded, so instances are no longer where the scene said they were",
                              key=key_of("C10-R11", f_.qualname))
    if n11 == 0:
        run.instance("R11", sc_cls.methods["rezero"].where if "rezero" in sc_cls.methods else "trimesh/scene/scene.py", "no Scene method updates the edge of a child taken from the graph in a recognised form - NOT decided", True, nontrivial=False)
    return {
        "explanation": "Footprints of the cached scene producers against Scene.__hash__; write effects rooted at the source scene for "
        "every copying / converting / exporting operation (interprocedural, callee summaries substituted); structural checks that "
        "aggregates iterate node instances and that hasattr guards imply the attribute read for every geometry class. Decides "
        "staleness, non-mutation of the source and mixed-kind robustness structurally; composition of nested transforms and numerical "
        "equality with explicit placement are not decided.",
    }
