"""C13 - voxel encodings (narrow): the clauses whose truth is in the shape of the code.

 N1  splitting a run for a narrower count width keeps the run: for one run of length L = q*m + r
     (m the largest count, 0 <= r < m) the pieces produced by split_long_rle_lengths /
     split_long_brle_lengths sum to L, none exceeds m, values are repeated once per piece and the
     binary form keeps its on/off alternation (odd number of pieces).  Decided by a symbolic
     evaluation of the splitting block over a run whose piece count is symbolic.
 N2  the binvox header written by the exporter is read back field for field by the parser
     (line order and arity), and both sides use one-byte counts.
 V1  VoxelGrid.volume == filled_count * element_volume, element_volume == det(matrix[:3, :3]).
 V2  indices_to_points is the grid transform, points_to_indices rounds the inverse transform, the
     inverse is the inverse of the same matrix and is memoised on that matrix' hash.
Equality of every encoding with the dense array and losslessness over whole sequences are values
of vectorised numpy code and are not decided.
"""
from __future__ import annotations

import ast

import sympy as sp

from ..index import Index
from ..provenance import Prov
from ..report import AnalysisError, key_of

LEVEL = "other"


class Undecided(Exception):
    pass


class Arr1:
    """array with one entry per run; one run is modelled, so one symbolic entry"""

    def __init__(self, x):
        self.x = x


class Seq:
    """pattern * count + tail (count symbolic)"""

    def __init__(self, pattern, count, tail=()):
        self.pattern = list(pattern)
        self.count = count
        self.tail = list(tail)

    def length(self):
        return sp.expand(len(self.pattern) * self.count + len(self.tail))

    def total(self):
        return sp.expand(sum(self.pattern) * self.count + sum(self.tail))

    def elements(self):
        return list(self.pattern) + list(self.tail)


class Run:
    """length of one run written as q * m + r with 0 <= r < m"""

    def __init__(self, q, r, m):
        self.q, self.r, self.m = q, r, m

    def value(self):
        return self.q * self.m + self.r


class RunEval:
    """symbolic evaluation of a splitting function on one run"""

    def __init__(self, f, m, case_r_zero):
        self.f = f
        self.m = m
        self.r_zero = case_r_zero
        self.env = {}

    def truth_gt0(self, x):
        x = sp.expand(x)
        if x == 0:
            return False
        if x.is_positive:
            return True
        raise Undecided(f"sign of {x}")

    def ev(self, e):
        if isinstance(e, ast.Constant):
            return e.value
        if isinstance(e, ast.Name):
            if e.id in self.env:
                return self.env[e.id]
            raise Undecided(f"name {e.id}")
        if isinstance(e, (ast.List, ast.Tuple)):
            return [self.ev(x) for x in e.elts]
        if isinstance(e, ast.BinOp):
            a, b = self.ev(e.left), self.ev(e.right)
            return self.binop(e.op, a, b)
        if isinstance(e, ast.Compare) and len(e.ops) == 1:
            a, b = self.ev(e.left), self.ev(e.comparators[0])
            ax = a.x if isinstance(a, Arr1) else a
            bx = b.x if isinstance(b, Arr1) else b
            if isinstance(e.ops[0], ast.Gt):
                if isinstance(ax, Run):
                    ax = ax.value()
                v = self.truth_gt0(sp.sympify(ax) - sp.sympify(bx)) if not (isinstance(ax, sp.Basic) and ax.has(self.m) and sp.sympify(bx) == self.m) else None
                if v is None:
                    raise Undecided("length > max on a symbolic run")
                return Arr1(sp.Integer(1) if v else sp.Integer(0)) if isinstance(a, Arr1) or isinstance(b, Arr1) else v
            if isinstance(e.ops[0], ast.NotEq):
                raise Undecided("!= comparison")
            raise Undecided(f"comparison {ast.unparse(e)}")
        if isinstance(e, ast.Subscript):
            v = self.ev(e.value)
            raise Undecided(f"subscript load {ast.unparse(e)}")
        if isinstance(e, ast.Call):
            return self.call(e)
        if isinstance(e, ast.Attribute):
            v = self.ev(e.value) if not isinstance(e.value, ast.Name) or e.value.id in self.env else None
            if e.attr == "dtype":
                return "dtype"
            raise Undecided(f"attribute {ast.unparse(e)}")
        if isinstance(e, ast.ListComp) and len(e.generators) == 1:
            g = e.generators[0]
            it = self.ev(g.iter)
            if not (isinstance(it, list) and len(it) == 1):
                raise Undecided("comprehension over more than the modelled run")
            names = [x.id for x in g.target.elts] if isinstance(g.target, ast.Tuple) else [g.target.id]
            vals = it[0] if isinstance(g.target, ast.Tuple) else [it[0]]
            saved = dict(self.env)
            for n_, v_ in zip(names, vals):
                self.env[n_] = v_
            out = [self.ev(e.elt)]
            self.env = saved
            return out
        raise Undecided(f"expression {ast.unparse(e)[:50]}")

    def binop(self, op, a, b):
        wrap = isinstance(a, Arr1) or isinstance(b, Arr1)
        ax = a.x if isinstance(a, Arr1) else a
        bx = b.x if isinstance(b, Arr1) else b
        if isinstance(op, ast.Mult) and isinstance(ax, list) and not isinstance(bx, (list, Seq)):
            return Seq(ax, sp.sympify(bx), [])
        if isinstance(op, ast.Add) and isinstance(ax, Seq) and isinstance(bx, list):
            return Seq(ax.pattern, ax.count, ax.tail + bx)
        if isinstance(ax, (list, Seq)) or isinstance(bx, (list, Seq)):
            raise Undecided("sequence arithmetic")
        if isinstance(op, ast.FloorDiv):
            if isinstance(ax, Run) and sp.sympify(bx) == self.m:
                r = ax.q
            elif sp.sympify(bx) == self.m and isinstance(ax, sp.Basic):
                # (a*m + b) // m == a + b // m; b = r + c with the run's remainder r (1 <= r <= m - 1, or r == 0) and a small constant c
                pol = sp.Poly(sp.expand(ax), self.m)
                if pol.degree() > 1:
                    raise Undecided("floor division of a non-linear length")
                a_ = pol.coeff_monomial(self.m)
                b_ = sp.expand(pol.coeff_monomial(1))
                rs = [s_ for s_ in b_.free_symbols]
                c_ = b_.subs({s_: 0 for s_ in rs})
                if not c_.is_Integer:
                    raise Undecided("floor division: non-integer offset")
                if not rs:
                    if c_ in (0, -1):
                        r = a_ + c_  # 0 // m == 0, -1 // m == -1 (m >= 2)
                    else:
                        raise Undecided(f"floor division: offset {c_}")
                elif len(rs) == 1 and sp.expand(b_ - rs[0] - c_) == 0 and rs[0].is_positive and c_ in (0, -1):
                    r = a_  # 0 <= r + c <= m - 1
                else:
                    raise Undecided("floor division: remainder term not of the form r + c")
            else:
                raise Undecided("floor division of something that is not the run length by the maximum")
        elif isinstance(op, ast.Mod):
            if isinstance(ax, Run) and sp.sympify(bx) == self.m:
                r = ax.r
            else:
                raise Undecided("modulo of something that is not the run length by the maximum")
        else:
            if isinstance(ax, Run):
                ax = ax.value()
            if isinstance(bx, Run):
                bx = bx.value()
            ax, bx = sp.sympify(ax), sp.sympify(bx)
            if isinstance(op, ast.Add):
                r = ax + bx
            elif isinstance(op, ast.Sub):
                r = ax - bx
            elif isinstance(op, ast.Mult):
                r = ax * bx
            else:
                raise Undecided(f"operator {type(op).__name__}")
        return Arr1(sp.expand(r)) if wrap else sp.expand(r)

    def call(self, e):
        fn = ast.unparse(e.func)
        args = [self.ev(a) for a in e.args]
        kw = {k.arg: k.value for k in e.keywords}
        base = fn.split(".")[-1]
        if fn in ("np.asarray", "np.asanyarray", "np.array") and args:
            a0 = args[0]
            if isinstance(a0, Seq) or isinstance(a0, Arr1):
                return a0
            if isinstance(a0, list) and len(a0) == 1 and isinstance(a0[0], Seq):
                return a0[0]
            return a0
        if fn == "np.iinfo":
            return "iinfo"
        if fn == "len" and isinstance(args[0], Arr1):
            return sp.Integer(1)
        if fn == "len" and isinstance(args[0], Seq):
            return args[0].length()
        if fn == "np.any":
            return "ANY"
        if fn == "np.sum" and isinstance(args[0], Arr1):
            return args[0].x
        if fn == "zip":
            if all(isinstance(a, Arr1) for a in args):
                return [[a.x for a in args]]
            raise Undecided("zip of non-run arrays")
        if fn == "np.repeat":
            a, r = args
            if isinstance(r, Arr1):
                if isinstance(a, Arr1):
                    return Seq([a.x], r.x, [])
                raise Undecided("np.repeat of a non-run array")
            raise Undecided("np.repeat with non-run repeats")
        if fn in ("np.zeros", "np.empty", "np.ones"):
            if sp.sympify(args[0]) == 1:
                return Arr1(sp.Integer(1) if fn == "np.ones" else sp.Integer(0))
            raise Undecided(f"{fn} of a length that is not the number of runs")
        if fn == "np.full":
            if sp.sympify(args[0]) == 1:
                v = args[1]
                return Arr1(v.x if isinstance(v, Arr1) else sp.sympify(v))
            raise Undecided("np.full of a length that is not the number of runs")
        if fn == "np.cumsum" and isinstance(args[0], Arr1):
            return Arr1(args[0].x)
        if fn == "np.concatenate":
            a0 = args[0]
            if isinstance(a0, list) and len(a0) == 1 and isinstance(a0[0], Seq):
                return a0[0]
            raise Undecided("concatenate")
        if isinstance(e.func, ast.Attribute):
            recv = self.ev(e.func.value) if not (isinstance(e.func.value, ast.Name) and e.func.value.id == "np") else None
            if base == "append" and isinstance(recv, list) and len(args) == 1:
                recv.append(args[0])
                return None
            if base == "astype":
                return recv
            if base == "fill" and isinstance(recv, Arr1):
                v = args[0]
                recv.x = v.x if isinstance(v, Arr1) else sp.sympify(v)
                return None
            if base == "reshape" and isinstance(recv, Seq):
                shp = args[0]
                want = shp[0] if isinstance(shp, list) else shp
                if sp.expand(sp.sympify(want) - recv.length()) != 0:
                    raise AssertionError(f"reshape to {want} but the sequence has {recv.length()} pieces")
                return recv
        raise Undecided(f"call {fn}")

    def store(self, target, value):
        if isinstance(target, ast.Name):
            self.env[target.id] = value
            return
        if isinstance(target, (ast.Tuple, ast.List)) and isinstance(value, (list, tuple)) and len(value) == len(target.elts):
            for t_, v_ in zip(target.elts, value):
                self.store(t_, v_)
            return
        if isinstance(target, ast.Subscript) and isinstance(target.value, ast.Name):
            base = self.env.get(target.value.id)
            idx = self.ev(target.slice)
            if isinstance(base, Seq) and isinstance(idx, Arr1) and isinstance(value, Arr1):
                last = base.length() - 1
                if sp.expand(idx.x - last) == 0 and len(base.pattern) == 1 and not base.tail:
                    # overwrite the last piece of the run
                    self.env[target.value.id] = Seq(base.pattern, sp.expand(base.count - 1), [value.x])
                    return
                if sp.expand(idx.x - last) == 0 and base.tail:
                    self.env[target.value.id] = Seq(base.pattern, base.count, base.tail[:-1] + [value.x])
                    return
                raise Undecided(f"store at index {idx.x} of a sequence of {base.length()} pieces")
        raise Undecided(f"store {ast.unparse(target)}")

    def block(self, body):
        for st in body:
            if isinstance(st, ast.Expr):
                if isinstance(st.value, ast.Constant):
                    continue
                self.ev(st.value)
            elif isinstance(st, ast.Assign):
                v = self.ev(st.value)
                for t in st.targets:
                    self.store(t, v)
            elif isinstance(st, ast.AugAssign):
                cur = self.ev(st.target)
                v = self.binop(st.op, cur, self.ev(st.value))
                self.store(st.target, v)
            elif isinstance(st, ast.If):
                t = self.ev(st.test)
                if t == "ANY":
                    self.block(st.body)  # the branch taken when some run is too long: the one under analysis
                elif isinstance(t, bool):
                    self.block(st.body if t else st.orelse)
                else:
                    raise Undecided(f"test {ast.unparse(st.test)}")
            elif isinstance(st, ast.Return):
                self.ret = self.ev(st.value) if st.value is not None else None
                return True
            elif isinstance(st, ast.For) and not st.orelse:
                # a loop over the (single) modelled run: one iteration, like the comprehension form
                it = self.ev(st.iter)
                if not (isinstance(it, list) and len(it) == 1):
                    raise Undecided("loop over more than the modelled run")
                names = [x.id for x in st.target.elts] if isinstance(st.target, ast.Tuple) else [st.target.id]
                vals = it[0] if isinstance(st.target, ast.Tuple) else [it[0]]
                for n_, v_ in zip(names, vals):
                    self.env[n_] = v_
                if self.block(st.body):
                    return True
            elif isinstance(st, (ast.Pass, ast.Assert)):
                continue
            else:
                raise Undecided(f"statement {type(st).__name__}")
        return False


def _split_obligation(run, ix, spec, binary):
    # (a splitting routine whose block was moved into a private helper is read through the helper's statements)
    f = ix.inlined(ix.func(spec))
    m = sp.Symbol("m", positive=True, integer=True)
    q = sp.Symbol("q", nonnegative=True, integer=True)
    v = sp.Symbol("v")
    for r_zero in (True, False):
        r = sp.Integer(0) if r_zero else sp.Symbol("r", positive=True, integer=True)
        ev = RunEval(f, m, r_zero)
        L = Run(q, r, m)
        a = f.node.args
        params = [x.arg for x in a.args]
        for p in params:
            if p == "lengths":
                ev.env[p] = Arr1(L)
            elif p == "values":
                ev.env[p] = Arr1(v)
            elif p == "dtype":
                ev.env[p] = "dtype"
        body = list(f.node.body)
        # `max = np.iinfo(dtype).max` binds the symbol m
        what = f"{f.qualname}, run of length q*m{'' if r_zero else ' + r'}"
        try:
            for st in body:
                if isinstance(st, ast.Assign) and isinstance(st.value, ast.Attribute) and st.value.attr == "max" and "iinfo" in ast.unparse(st.value):
                    ev.env[st.targets[0].id] = m
                    continue
                if isinstance(st, ast.Assign) and isinstance(st.value, ast.Compare) and isinstance(st.value.ops[0], ast.Gt) \
                        and ast.unparse(st.value.comparators[0]) in [k for k, val in ev.env.items() if val is m]:
                    ev.env[st.targets[0].id] = "ANYMASK"
                    continue
                # the case under study is "some run is too long": follow the branch taken when np.any(mask) holds,
                # whichever way round the test is written
                t_, neg = st.test if isinstance(st, ast.If) else None, False
                while isinstance(t_, ast.UnaryOp) and isinstance(t_.op, ast.Not):
                    t_, neg = t_.operand, not neg
                if isinstance(st, ast.If) and isinstance(t_, ast.Call) and ast.unparse(t_.func) in ("np.any", "numpy.any") or \
                        (isinstance(st, ast.If) and isinstance(t_, ast.Call) and isinstance(t_.func, ast.Attribute) and t_.func.attr == "any" and not t_.args):
                    ev.block(st.orelse if neg else st.body)
                    if not hasattr(ev, "ret"):
                        continue
                    break
                if ev.block([st]):
                    break
        except Undecided as e:
            run.instance("N1", f.where, f"{what}: outside the run algebra ({e}) - NOT decided", True, nontrivial=False)
            run.assume(f"{f.qualname}: splitting block not decidable by the run algebra ({e})")
            continue
        except AssertionError as e:
            run.obligation("N1", f.where, f"{what}: {e}", False)
            run.violation("N1", f.where, f"`{f.qualname}`: {e}", key=key_of("C13-N1", f.qualname, "reshape"))
            continue
        out = getattr(ev, "ret", None)
        if binary:
            lengths, values = out, None
        else:
            if not (isinstance(out, list) and len(out) == 2):
                raise AnalysisError(f"{spec}: expected `return values, lengths`")
            values, lengths = out
        if not isinstance(lengths, Seq):
            run.instance("N1", f.where, f"{what}: result is not a piece sequence - NOT decided", True, nontrivial=False)
            continue
        # Python repeats a list ZERO times for a negative count: the symbolic total is only the total when the repetition count
        # cannot be negative for any admissible run (q >= 0, the empty run q = 0, r = 0 included - a binary code that starts
        # with a filled cell has a leading run of length 0)
        cnt0 = sp.expand(lengths.count).subs(q, 0)
        if cnt0.is_number and cnt0 < 0:
            tail0 = sp.expand(sum(lengths.tail)).subs(q, 0)
            L0 = sp.expand(L.value()).subs(q, 0)
            if sp.expand(tail0 - L0) != 0:
                run.obligation("N1", f.where, f"{what}: repetition count {lengths.count} is negative for the run of length {L0}: pieces {[str(x.subs(q, 0)) if hasattr(x, 'subs') else x for x in lengths.tail]}", False)
                run.violation("N1", f.where, f"`{f.qualname}` repeats its full chunk `{lengths.count}` times; for a run of length {L0} (q = 0) that count is negative, Python repeats "
                                             f"the list zero times and the pieces are {[str(sp.expand(x).subs(q, 0)) for x in lengths.tail]} - total {tail0}, not {L0}: cells are invented"
                                             f"{' (a binary code starting with a filled cell has a leading run of length 0)' if binary else ''}",
                              key=key_of("C13-N1", f.qualname, "r0" if r_zero else "r", "negative-count"))
                continue
        total_ok = sp.expand(lengths.total() - L.value()) == 0
        small_ok = all(sp.expand(x - m) == 0 or x == 0 or x is r or sp.expand(x - r) == 0 for x in lengths.elements())
        count_ok = values is None or (isinstance(values, Seq) and sp.expand(values.length() - lengths.length()) == 0 and all(x == v for x in values.elements()))
        parity_ok = (not binary) or sp.expand(lengths.length() - (2 * q + 1)) == 0
        ok = total_ok and small_ok and count_ok and parity_ok
        run.obligation("N1", f.where, f"{what}: pieces {lengths.pattern} x ({lengths.count}) + {lengths.tail}: sum == L {total_ok}, each <= m {small_ok}, "
                                      f"{'odd piece count ' + str(parity_ok) if binary else 'one value per piece ' + str(count_ok)}", ok)
        if not ok:
            run.violation("N1", f.where, f"`{f.qualname}` splits a run of length {L.value()} (m = largest count{', r = 0: the run divides evenly' if r_zero else ''}) into "
                                         f"pieces {lengths.pattern} x ({lengths.count}) + {lengths.tail}, total {lengths.total()}"
                                         f"{'' if total_ok else ': cells are lost or invented'}"
                                         f"{'' if count_ok else '; values and counts differ in number'}{'' if parity_ok else '; on/off alternation is shifted'}",
                          key=key_of("C13-N1", f.qualname, "r0" if r_zero else "r", "total" if not total_ok else "shape"))


def check(run):
    ix = Index(run.repo)
    run.analysed.update(ix.stats())
    run.rule("N1", "splitting one run of length q*m + r for a count width with maximum m: the pieces sum to the run, none exceeds m, one value per piece (rle) / odd piece count (brle); both r = 0 and r > 0")
    run.rule("N2", "binvox: the header lines the exporter writes are the lines the parser reads, in order and arity; both sides use one-byte counts")
    run.rule("V1", "VoxelGrid.volume == filled_count * element_volume and element_volume == det(transform[:3, :3])")
    run.rule("V2", "indices_to_points applies the grid transform, points_to_indices rounds the inverse transform of the same matrix (memoised on the matrix hash)")

    _split_obligation(run, ix, "trimesh.voxel.runlength:split_long_rle_lengths", binary=False)
    _split_obligation(run, ix, "trimesh.voxel.runlength:split_long_brle_lengths", binary=True)
    run.floor("run-splitting cases examined (decided or recorded as not decided)", sum(1 for i_ in run.instances if i_["rule"] == "N1"), 4)

    # ------------------------------------------------------------------ N4 no silent narrowing inside the codecs
    run.rule("N4", "run-length codecs: an array allocated with the dtype of one operand does not receive another operand element-wise (numpy casts silently: "
                   "values that do not fit the count type wrap); interleaving goes through np.stack / column_stack / concatenate, which promote")
    from ..dag import Values
    rl = ix.modules.get("trimesh.voxel.runlength")
    if rl is None:
        raise AnalysisError("anchor vanished: trimesh.voxel.runlength")
    n4 = 0
    for f_ in ix.all_functions:
        if f_.module is not rl:
            continue
        stores = [st for st in ast.walk(f_.node) if isinstance(st, ast.Assign) and len(st.targets) == 1 and isinstance(st.targets[0], ast.Subscript)
                  and isinstance(st.targets[0].value, ast.Name)]
        if not stores:
            continue
        Vn = Values(ix, f_)
        for st in stores:
            base = Vn.local(st.targets[0].value.id, st)
            # the array as it was allocated (peel earlier element stores)
            alloc = base
            for _ in range(8):
                e_ = Vn.match("STORE(_e_prev, _e_i, _e_v)", alloc)
                if e_ is None:
                    break
                alloc = ast.Name(id=e_["_e_prev"], ctx=ast.Load()) if e_["_e_prev"] in Vn.dag.defs else ast.parse(e_["_e_prev"], mode="eval").body
            src = None
            for fn_ in ("empty", "zeros", "ones"):
                m_ = Vn.match(f"numpy.{fn_}(_e_shape, dtype=_e_X.dtype)", alloc)
                src = src or (m_ and m_["_e_X"])
            m_ = Vn.match("numpy.full(_e_shape, _e_fill, dtype=_e_X.dtype)", alloc)
            src = src or (m_ and m_["_e_X"])
            for fn_ in ("empty_like", "zeros_like", "ones_like"):
                m_ = Vn.match(f"numpy.{fn_}(_e_X)", alloc)
                src = src or (m_ and m_["_e_X"])
            if not src:
                continue
            val = Vn.value(st.value, st)
            vn = Vn.dag.node(val) if isinstance(val, ast.Name) else val
            const = isinstance(vn, ast.Constant) or (isinstance(vn, ast.UnaryOp) and isinstance(vn.operand, ast.Constant))
            same = const or Vn.dag._ident(val) == src or Vn.dag.contains(val, src)
            n4 += 1
            where_ = f"{f_.module.rel}:{st.lineno} {f_.qualname}"
            run.instance("N4", where_, f"`{ast.unparse(st)[:60]}`: target typed like `{Vn.text(src, 1, 40)}`, stored value derives from it or is a constant: {same}", same)
            if not same:
                run.violation("N4", where_, f"`{ast.unparse(st)[:70]}` stores `{Vn.text(val, 2, 50)}` into an array allocated with the dtype of `{Vn.text(src, 1, 40)}`: numpy casts "
                                            f"element stores silently, so run values that do not fit that type wrap around and the encoding is no longer lossless",
                              key=key_of("C13-N4", f_.qualname, ast.unparse(st.targets[0])[:30]))
    run.instance("N4", rl.rel, f"{n4} element stores into dtype-borrowing allocations examined in runlength.py", True, nontrivial=False)

    # ------------------------------------------------------------------ N2 binvox header
    mod = ix.modules.get("trimesh.exchange.binvox")
    hdr_name = "_binvox_header"
    if mod is not None and hdr_name not in mod.constants:
        # renamed: the one module-level string constant that starts with the binvox magic line
        cands = [k for k, v in mod.constants.items() if isinstance(v[-1].value, ast.Constant) and isinstance(v[-1].value.value, str) and v[-1].value.value.lstrip().startswith("#binvox")]
        hdr_name = cands[0] if len(cands) == 1 else hdr_name
    if mod is None or hdr_name not in mod.constants:
        raise AnalysisError("anchor vanished: trimesh.exchange.binvox._binvox_header")
    tmpl = mod.constants[hdr_name][-1].value
    if not (isinstance(tmpl, ast.Constant) and isinstance(tmpl.value, str)):
        raise AnalysisError("_binvox_header is no longer a string literal")
    lines = [ln.split() for ln in tmpl.value.strip("\n").split("\n")]
    written = [(ln[0], len(ln) - 1) for ln in lines]
    ph = ix.func("trimesh.exchange.binvox:parse_binvox_header")
    reads = []
    for st in ph.node.body:
        txt = ast.unparse(st)
        if "readline()" not in txt:
            continue
        if isinstance(st, ast.Assign) and isinstance(st.targets[0], ast.Name):
            name = st.targets[0].id
            if "[1:]" in txt:
                arity = "many"
            elif "[1]" in txt:
                arity = 1
            else:
                arity = 0
            conv = "int" if "int(" in txt else ("float" if "float(" in txt else "raw")
            reads.append((name, arity, conv))
        else:
            reads.append(("(skipped)", 0, "raw"))
    want = [("#binvox", "line"), ("dim", "shape"), ("translate", "translate"), ("scale", "scale"), ("data", "(skipped)")]
    ok = [w[0] for w in written] == [w[0] for w in want] and [r[0] for r in reads] == [w[1] for w in want] \
        and written[1][1] == 3 and reads[1][1] == "many" and reads[1][2] == "int" and written[2][1] == 3 and reads[2][1] == "many" and reads[2][2] == "float" \
        and written[3][1] == 1 and reads[3][1] == 1 and reads[3][2] == "float" and written[4][1] == 0
    run.instance("N2", ph.where, f"exporter writes {written}; parser reads {reads}", ok)
    if not ok:
        run.violation("N2", ph.where, f"binvox header: the exporter writes {written} but the parser reads {reads} line by line: a field is read from the wrong line "
                                      f"or with the wrong arity / type, so a grid does not survive export and reload", key=key_of("C13-N2", "header"))
    bh = ix.func("trimesh.exchange.binvox:binvox_header")
    pv = Prov(ix, bh)
    rets = [r for r in ast.walk(bh.node) if isinstance(r, ast.Return) and r.value is not None]
    ok = len(rets) == 1 and isinstance(rets[0].value, ast.Call)
    if ok:
        c, a_, k_ = pv.canon_call(rets[0].value, rets[0])
        exp = {"sx": "int(EACH(P_shape))", "sy": "int(EACH(P_shape))", "sz": "int(EACH(P_shape))", "scale": "P_scale"}
        ok = k_.get("scale") == "P_scale" and all(k_.get(x, "").startswith("P_translate") for x in ("tx", "ty", "tz")) \
            and all("P_shape" in k_.get(x, "") for x in ("sx", "sy", "sz"))
    run.instance("N2", bh.where, "header fields are filled from shape / translate / scale in that order", ok)
    if not ok:
        run.violation("N2", bh.where, "binvox_header does not fill dim / translate / scale from its shape / translate / scale arguments", key=key_of("C13-N2", "fill"))
    ex = ix.func("trimesh.exchange.binvox:export_binvox")
    pb = ix.func("trimesh.exchange.binvox:parse_binvox")
    mod_b = ex.module

    def dtype_of(call):
        """the dtype argument with a module-level constant resolved (`_RLE_DTYPE = np.uint8`)"""
        for k in call.keywords:
            if k.arg == "dtype":
                v = k.value
                if isinstance(v, ast.Name) and v.id in mod_b.constants and len(mod_b.constants[v.id]) == 1:
                    v = mod_b.constants[v.id][0].value
                return ast.unparse(v).replace("numpy.", "np.")
        return None

    ONE_BYTE = ("np.uint8", "'u1'", "'uint8'", "'B'", "np.ubyte")
    wd = [dtype_of(c) for c in ast.walk(ex.node) if isinstance(c, ast.Call) and ast.unparse(c.func).endswith("run_length_data")]
    rd = [dtype_of(c) for c in ast.walk(pb.node) if isinstance(c, ast.Call) and ast.unparse(c.func) in ("np.frombuffer", "numpy.frombuffer", "np.fromstring")]
    w8 = bool(wd) and all(d in ONE_BYTE for d in wd)
    r8 = bool(rd) and all(d in ONE_BYTE for d in rd)
    ok = w8 and r8
    run.instance("N2", ex.where, f"exporter asks for uint8 run lengths: {w8}; parser reads uint8 pairs: {r8}", ok)
    if not ok:
        run.violation("N2", ex.where, "binvox exporter and parser disagree on the width of run-length counts", key=key_of("C13-N2", "width"))

    # the body of a binvox file is binary: it reaches frombuffer exactly as read
    pvb = Prov(ix, pb)
    fb = [c for c in ast.walk(pb.node) if isinstance(c, ast.Call) and ast.unparse(c.func) == "np.frombuffer" and c.args]
    if not fb:
        raise AnalysisError("anchor vanished: np.frombuffer in parse_binvox")
    body = pvb.canon(fb[0].args[0], pvb.stmt_of(fb[0]))
    ok = body == "P_fp.read()"
    run.instance("N2", pb.where, f"run-length body handed to frombuffer: `{body}`", ok)
    if not ok:
        run.violation("N2", pb.where, f"parse_binvox passes `{body}` to frombuffer: the body is raw (value, count) byte pairs, so any text operation on it (strip, "
                                      f"decode, split) removes or alters pairs whose bytes happen to look like white space", key=key_of("C13-N2", "body"))

    # ------------------------------------------------------------------ N3 parallel accessors are overridden together
    run.rule("N3", "sparse_indices and sparse_values are parallel arrays: an Encoding subclass overrides both or neither (one re-ordered alone no longer pairs with the other)")
    Enc = ix.cls("trimesh.voxel.encoding.Encoding")
    n3 = 0
    for c in [Enc] + ix.all_subclasses(Enc):
        d = set(c.methods) | set(c.getters)
        a_, b_ = "sparse_indices" in d, "sparse_values" in d
        n3 += 1
        ok = a_ == b_
        run.instance("N3", f"{c.module.rel}:{c.node.lineno} {c.name}", f"{c.name}: defines sparse_indices={a_}, sparse_values={b_}", ok)
        if not ok:
            run.violation("N3", f"{c.module.rel}:{c.node.lineno} {c.name}", f"`{c.name}` overrides {'sparse_indices' if a_ else 'sparse_values'} but inherits the other: the two are read "
                                                                         f"as parallel arrays (sparse_components, VoxelGrid colours), so their orders must come from one place",
                          key=key_of("C13-N3", c.name))
    run.floor("Encoding classes", n3, 8)

    # ------------------------------------------------------------------ V1 / V2
    def canon_returns(spec):
        f = ix.func(spec)
        p = Prov(ix, f)
        return f, [p.canon(r.value, r) for r in ast.walk(f.node) if isinstance(r, ast.Return) and r.value is not None and p.cfg.nodes_of.get(id(r))]

    f, rr = canon_returns("trimesh.voxel.base:VoxelGrid.volume")
    ok = rr in (["P_self.filled_count * P_self.element_volume"], ["P_self.element_volume * P_self.filled_count"])
    run.instance("V1", f.where, f"volume := {rr}", ok)
    if not ok:
        run.violation("V1", f.where, f"VoxelGrid.volume is {rr}, not filled_count * element_volume", key=key_of("C13-V1", "volume"))
    f, rr = canon_returns("trimesh.voxel.base:VoxelGrid.element_volume")
    f2, rr2 = canon_returns("trimesh.voxel.transforms:Transform.unit_volume")
    ok = rr == ["P_self._transform.unit_volume"] and rr2 in (["numpy.linalg.det(P_self._data['transform_matrix'][:3, :3])"], ["numpy.linalg.det(P_self.matrix[:3, :3])"])
    run.instance("V1", f2.where, f"element_volume := {rr}; unit_volume := {rr2}", ok)
    if not ok:
        run.violation("V1", f2.where, f"the volume of one cell is {rr} / {rr2}, not det(transform[:3, :3])", key=key_of("C13-V1", "cell"))
    f, rr = canon_returns("trimesh.voxel.base:VoxelGrid.filled_count")
    ok = rr in (["P_self.encoding.sum.item()"], ["int(P_self.encoding.sum)"], ["P_self.encoding.sum"])
    run.instance("V1", f.where, f"filled_count := {rr}", ok)
    if not ok:
        run.violation("V1", f.where, f"filled_count is {rr}, not the sum of the occupancy encoding", key=key_of("C13-V1", "count"))

    f, rr = canon_returns("trimesh.voxel.base:VoxelGrid.indices_to_points")
    ok = rr == ["P_self._transform.transform_points(P_indices.astype(float))"]
    run.instance("V2", f.where, f"indices_to_points := {rr}", ok)
    if not ok:
        run.violation("V2", f.where, f"indices_to_points is {rr}: not the grid transform of the indices", key=key_of("C13-V2", "i2p"))
    f, rr = canon_returns("trimesh.voxel.base:VoxelGrid.points_to_indices")
    ok = rr == ["numpy.round(P_self._transform.inverse_transform_points(P_points)).astype(int)"]
    run.instance("V2", f.where, f"points_to_indices := {rr}", ok)
    if not ok:
        run.violation("V2", f.where, f"points_to_indices is {rr}: not the rounded inverse transform of the points", key=key_of("C13-V2", "p2i"))
    f, rr = canon_returns("trimesh.voxel.transforms:Transform.transform_points")
    f2, rr2 = canon_returns("trimesh.voxel.transforms:Transform.inverse_transform_points")
    fwd = "trimesh.transformations.transform_points(P_points.reshape((-1, 3)), P_self.matrix).reshape(P_points.shape)"
    inv = "trimesh.transformations.transform_points(P_points.reshape((-1, 3)), P_self.inverse_matrix).reshape(P_points.shape)"
    ok = fwd in rr and inv in rr2 and all(x in (fwd, "P_points.copy()", "P_points") for x in rr) and all(x in (inv, "P_points.copy()", "P_points") for x in rr2)
    run.instance("V2", f.where, f"forward {rr}; inverse {rr2}", ok)
    if not ok:
        run.violation("V2", f.where, f"Transform.transform_points / inverse_transform_points ({rr} / {rr2}) are not transform_points with the matrix and with its inverse",
                      key=key_of("C13-V2", "pair"))
    f, rr = canon_returns("trimesh.voxel.transforms:Transform.inverse_matrix")
    g = ix.cls("trimesh.voxel.transforms.Transform").getters.get("inverse_matrix")
    ok = rr == ["numpy.linalg.inv(P_self.matrix)"] and g is not None and g.kind == "cached"
    run.instance("V2", f.where, f"inverse_matrix := {rr}, memoised on the matrix hash: {g is not None and g.kind == 'cached'}", ok)
    if not ok:
        run.violation("V2", f.where, f"inverse_matrix is {rr}: not the (hash-keyed) inverse of the current matrix", key=key_of("C13-V2", "inverse"))
    run.assume("np.repeat / np.cumsum / fancy assignment act run by run (one run is modelled); 0 <= r < m and q >= 0 integers")
    run.assume("transformations.transform_points == M.p is proven under C04-R7 / C19-T7; losslessness of whole-sequence conversions and agreement of every encoding with the dense array are not decided")
    # ------------------------------------------------------------------ V3 no memo entry of a voxel object survives a write of its hashed data
    run.rule("V3", "voxel objects (VoxelGrid, Transform, encodings): no function keeps memo entries across a write of the object's hashed data (cache lock, "
                   "exclude set, id_set): there is no reviewed invariance table for these classes, so every surviving entry is a stale one (inverse matrix, pitch, points)")
    from ..effects import Effects
    from ..preserve import check_surgery
    ef = Effects(ix)

    def _hashed(path):
        if path and path[0] == "_data":
            return path[1].strip("[]") if len(path) > 1 and path[1].startswith("[") else "*"
        return None

    def _rk(st, sim):
        # a store into the translation column of the 4x4 only: `<x>.matrix[:3, 3] (+)= t` / `<x>._data['transform_matrix'][:3, 3] = t`
        t_ = st.targets[0] if isinstance(st, ast.Assign) and len(st.targets) == 1 else (st.target if isinstance(st, ast.AugAssign) else None)
        if isinstance(t_, ast.Subscript) and ast.unparse(t_.slice).replace(" ", "").strip("()") in (":3,3", "0:3,3"):
            return {"transform_matrix": "translation"}
        return None

    V3_INVARIANCE = {(k_, "transform_matrix", "translation"): "depends on the linear 3x3 block only; a store into the translation column leaves it unchanged"
                     for k_ in ("scale", "pitch", "unit_volume")}
    n_v3 = n_surg = 0
    for f_ in ix.all_functions:
        if not f_.module.name.startswith("trimesh.voxel") or f_.kind in ("cached",) or f_.name == "__init__":
            continue
        if "_cache" not in ast.unparse(f_.node):
            continue
        owner_, cls_ = None, None
        if f_.cls is not None and f_.parent is None and f_.params:
            owner_, cls_ = f_.params[0], f_.cls
        else:
            continue
        keys_ = set()
        for k_ in cls_.mro:
            for name_, g_ in k_.getters.items():
                if g_.kind == "cached":
                    keys_.add(name_)
        n_v3 += 1
        try:
            if check_surgery(run, ef, f_, cls_, owner_, _hashed, _rk, lambda key: {("*", "value")}, keys_, V3_INVARIANCE, {}, None, "C13",
                             r2="V3", r2b="V3", r6="V3", r8="V3"):
                n_surg += 1
        except AnalysisError as e_:
            run.instance("V3", f_.where, f"cache surgery not analysable ({str(e_)[:80]}) - NOT decided", True, nontrivial=False)
            run.assume(f"{f_.qualname}: cache surgery in the voxel package not analysable")
    run.instance("V3", "trimesh/voxel", f"{n_v3} methods of voxel classes mention their cache; {n_surg} perform cache surgery", True)
    return {
        "explanation": "Symbolic evaluation of the two run-splitting routines over one run of length q*m + r whose piece count is symbolic "
        "(pattern x count + tail sequences), for r = 0 and r > 0; writer/reader agreement of the binvox header (line order, arity, count width); "
        "canonical-form checks of the volume formula and of the index <-> point maps. Decides only these clauses of C13.",
    }
