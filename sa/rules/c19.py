"""C19 - rotation representations (narrow, proof by polynomial identities).

E3 translates euler_matrix / euler_from_matrix / quaternion_from_euler /
rotation_matrix / transform_around / transform_points from the repository's AST
with sin/cos of each angle as independent symbols (s_x, c_x); identities are
decided by normal form modulo the ideal <s_x^2 + c_x^2 - 1>.  The reference for a
convention is fixed by its *name* alone: static 's a1 a2 a3' is
R_a3(ak) R_a2(aj) R_a1(ai), rotating 'r a1 a2 a3' is R_a1(ai) R_a2(aj) R_a3(ak).
"""
from __future__ import annotations

import ast
import re
import itertools

import numpy as np
import sympy as sp

from ..alg import Interp, Unsupported, arr, symbols_array
from ..index import Index, const_eval
from ..provenance import Prov
from ..report import AnalysisError, key_of

LEVEL = "proof"

AX = {"x": 0, "y": 1, "z": 2}


class Trig:
    """sin/cos of  c * symbol  (c in {+-1, +-1/2}) as polynomial symbols"""

    def __init__(self):
        self.syms = {}

    def pair(self, sym, half=False):
        key = (sym, half)
        if key not in self.syms:
            tag = f"{sym}{'h' if half else ''}"
            self.syms[key] = (sp.Symbol("s_" + tag, real=True), sp.Symbol("c_" + tag, real=True))
        return self.syms[key]

    def __call__(self, name, x):
        x = sp.sympify(x)
        if x == 0:
            return sp.Integer(0) if name == "sin" else sp.Integer(1)
        coeff, rest = x.as_coeff_Mul()
        if not isinstance(rest, sp.Symbol) or abs(coeff) not in (1, sp.Rational(1, 2)):
            raise Unsupported(f"{name}({x}) is outside the supported trig forms")
        s, c = self.pair(rest, half=(abs(coeff) == sp.Rational(1, 2)))
        if name == "sin":
            return s if coeff > 0 else -s
        if name == "cos":
            return c
        raise Unsupported(name)

    def ideal(self):
        return [s**2 + c**2 - 1 for s, c in self.syms.values()]

    def gens(self):
        return [x for pair in self.syms.values() for x in pair]


def reduce_mod(expr, trig, extra=()):
    """normal form of a polynomial modulo s^2 + c^2 = 1 for every angle (and extra relations):
    the relations are monic in s^2 so plain substitution of s^2 terminates and is canonical"""
    e = sp.expand(expr)
    rels = [(s, c) for s, c in trig.syms.values()]
    for _ in range(12):
        changed = False
        for s, c in rels:
            if e.has(s):
                p = sp.Poly(e, s)
                new = sp.Integer(0)
                for (k,), coeff in p.terms():
                    new += coeff * ((1 - c**2) ** (k // 2)) * (s ** (k % 2))
                new = sp.expand(new)
                if new != e:
                    e, changed = new, True
        for lhs, rhs in extra:
            if e.has(lhs):
                p = sp.Poly(e, lhs)
                new = sp.Integer(0)
                for (k,), coeff in p.terms():
                    new += coeff * (rhs ** (k // 2)) * (lhs ** (k % 2))
                new = sp.expand(new)
                if new != e:
                    e, changed = new, True
        if not changed:
            break
    return e


def elementary(axis, s, c):
    i = AX[axis]
    j, k = (i + 1) % 3, (i + 2) % 3
    R = sp.eye(3)
    R[j, j] = c
    R[k, k] = c
    R[j, k] = -s
    R[k, j] = s
    return R


def reference(axes, trig, angles):
    frame, seq = axes[0], axes[1:]
    mats = [elementary(a, *trig.pair(sym)) for a, sym in zip(seq, angles)]
    if frame == "s":
        return mats[2] * mats[1] * mats[0]
    return mats[0] * mats[1] * mats[2]


def quat_to_matrix(q):
    w, x, y, z = q
    return sp.Matrix([
        [1 - 2 * (y * y + z * z), 2 * (x * y - z * w), 2 * (x * z + y * w)],
        [2 * (x * y + z * w), 1 - 2 * (x * x + z * z), 2 * (y * z - x * w)],
        [2 * (x * z - y * w), 2 * (y * z + x * w), 1 - 2 * (x * x + y * y)],
    ])


def _eps_decider(above):
    """data-dependent tests of the form `<anything> > _EPS` (whatever the compared local is called) are taken as `above`:
    True selects the generic branch, False the degenerate one; any other data-dependent test stays undecided"""
    def decide(frame, test):
        if isinstance(test, ast.Compare) and len(test.ops) == 1:
            l_, r_ = ast.unparse(test.left), ast.unparse(test.comparators[0])
            if isinstance(test.ops[0], (ast.Gt, ast.GtE)) and r_.split(".")[-1] == "_EPS":
                return above
            if isinstance(test.ops[0], (ast.Lt, ast.LtE)) and l_.split(".")[-1] == "_EPS":
                return above
            if isinstance(test.ops[0], (ast.Lt, ast.LtE)) and r_.split(".")[-1] == "_EPS":
                return not above
        return None
    return decide


def check(run):
    ix = Index(run.repo)
    run.analysed.update(ix.stats())
    mod = ix.modules.get("trimesh.transformations")
    if mod is None:
        raise AnalysisError("anchor module vanished: trimesh.transformations")
    run.rule("T1", "_AXES2TUPLE: 24 distinct well-formed keys, values exactly {0,1,2}x{0,1}^3; _TUPLE2AXES its inverse; _NEXT_AXIS cyclic successor")
    run.rule("T2", "euler_matrix(ai,aj,ak,axes) == product of the elementary rotations the convention's name spells (24 x 9 entries)")
    run.rule("T3", "euler_from_matrix: every arctan2(y, x) satisfies y cos(t) - x sin(t) == 0 for the angle t it returns (generic branch)")
    run.rule("T3b", "euler_from_matrix, gimbal-lock branch: the returned angles rebuild the matrix exactly, for middle angle 0 / pi (repeated axis) and +-pi/2 (Tait-Bryan)")
    run.rule("T4", "quaternion_from_euler: unit norm and the rotation matrix of the quaternion == the convention's reference (24)")
    run.rule("T5", "rotation_matrix == Rodrigues form; orthonormal, det +1 (mod |d|=1); fixes `point`")
    run.rule("T6", "transform_around == T(p) M T(-p); a rotation about p fixes p (2D and 3D)")
    run.rule("T7", "transform_points == homogeneous matrix multiplication, with and without translation, 2D and 3D")

    # ------------------------------------------------------------------ T1 tables (from the AST, duplicates visible)
    def const_stmt(name):
        d = ix.constant_def(mod, name)
        if d is None:
            raise AnalysisError(f"anchor vanished: {name} in transformations.py")
        return d[1]

    st = const_stmt("_AXES2TUPLE")
    if not isinstance(st.value, ast.Dict):
        raise AnalysisError("_AXES2TUPLE is no longer a dict literal")
    keys = [const_eval(k) for k in st.value.keys]
    vals = [const_eval(v) for v in st.value.values]
    table = dict(zip(keys, vals))
    wf = all(isinstance(k, str) and len(k) == 4 and k[0] in "sr" and all(c in "xyz" for c in k[1:]) and k[1] != k[2] and k[2] != k[3]
             for k in keys)
    expect_vals = set(itertools.product((0, 1, 2), (0, 1), (0, 1), (0, 1)))
    ok = len(keys) == 24 and len(set(keys)) == 24 and wf and set(vals) == expect_vals and len(set(vals)) == 24
    run.obligation("T1", f"{mod.rel}:{st.lineno} _AXES2TUPLE", f"{len(set(keys))} distinct keys, {len(set(vals))} distinct values, well-formed={wf}", ok)
    if not ok:
        run.violation("T1", f"{mod.rel}:{st.lineno} _AXES2TUPLE", "the Euler convention table is not a bijection between the 24 names and {0,1,2}x{0,1}^3",
                      key=key_of("C19-T1", "axes2tuple"))
    all_names = {f + "".join(p) for f in "sr" for p in itertools.product("xyz", repeat=3) if p[0] != p[1] and p[1] != p[2]}
    ok = set(keys) == all_names
    run.obligation("T1", f"{mod.rel}:{st.lineno} _AXES2TUPLE", "every one of the 24 valid convention names is present", ok)
    if not ok:
        run.violation("T1", f"{mod.rel}:{st.lineno} _AXES2TUPLE", f"missing conventions: {sorted(all_names - set(keys))}", key=key_of("C19-T1", "names"))
    st2 = const_stmt("_TUPLE2AXES")
    try:
        inv = const_eval(st2.value, {"_AXES2TUPLE": table})
    except ValueError as e:
        raise AnalysisError(f"_TUPLE2AXES is not derivable as a constant: {e}")
    ok = inv == {v: k for k, v in table.items()}
    run.obligation("T1", f"{mod.rel}:{st2.lineno} _TUPLE2AXES", "inverse of _AXES2TUPLE", ok)
    if not ok:
        run.violation("T1", f"{mod.rel}:{st2.lineno} _TUPLE2AXES", "_TUPLE2AXES is not the inverse table", key=key_of("C19-T1", "tuple2axes"))
    st3 = const_stmt("_NEXT_AXIS")
    nxt = const_eval(st3.value)
    ok = list(nxt) == [1, 2, 0, 1]
    run.obligation("T1", f"{mod.rel}:{st3.lineno} _NEXT_AXIS", f"{nxt} is the cyclic successor table (with wrap entry)", ok)
    if not ok:
        run.violation("T1", f"{mod.rel}:{st3.lineno} _NEXT_AXIS", f"_NEXT_AXIS = {nxt}", key=key_of("C19-T1", "next_axis"))

    consts = {"trimesh.transformations._EPS": sp.Symbol("EPS", positive=True)}
    f_em = ix.func("trimesh.transformations:euler_matrix")
    f_efm = ix.func("trimesh.transformations:euler_from_matrix")
    f_qfe = ix.func("trimesh.transformations:quaternion_from_euler")
    f_rm = ix.func("trimesh.transformations:rotation_matrix")
    f_ta = ix.func("trimesh.transformations:transform_around")
    f_tp = ix.func("trimesh.transformations:transform_points")
    ai, aj, ak = sp.symbols("ai aj ak", real=True)

    names = sorted(all_names & set(keys)) or sorted(keys)
    n_conv = 0
    for axes in names:
        n_conv += 1
        # ---------------------------------------------------------------- T2
        trig = Trig()
        it = Interp(ix, symbols=dict(consts), trig=trig,
                    decisions={"'sympy' in str(type(ai))": False})
        try:
            M = arr(it.call(f_em, [ai, aj, ak], {"axes": axes}))
        except Unsupported as e:
            raise AnalysisError(f"E3 cannot translate euler_matrix for {axes}: {e}")
        ref = reference(axes, trig, (ai, aj, ak))
        bad = []
        for r in range(3):
            for c in range(3):
                ok = sp.expand(M[r, c] - ref[r, c]) == 0
                run.obligation("T2", f_em.where, f"{axes}: entry [{r},{c}]", ok)
                if not ok:
                    bad.append((r, c))
        homog = all(sp.expand(M[3, c]) == (1 if c == 3 else 0) and sp.expand(M[c, 3]) == (1 if c == 3 else 0) for c in range(4))
        run.obligation("T2", f_em.where, f"{axes}: homogeneous row/column", homog)
        if bad or not homog:
            run.violation("T2", f_em.where,
                          f"euler_matrix(axes='{axes}') differs from {'R_%s R_%s R_%s' % ((axes[3], axes[2], axes[1]) if axes[0] == 's' else (axes[1], axes[2], axes[3]))} "
                          f"in entries {bad or 'homogeneous part'}", key=key_of("C19-T2", axes))
        # ---------------------------------------------------------------- T3 inverse, generic branch
        M3 = np.array(ref.tolist(), dtype=object)
        M4 = np.empty((4, 4), dtype=object)
        M4[...] = sp.Integer(0)
        M4[:3, :3] = M3
        M4[3, 3] = sp.Integer(1)
        captured = []

        def atan2_stub(y, x):
            f = sp.Function("ATAN2")(sp.sympify(y), sp.sympify(x))
            captured.append(f)
            return f

        it2 = Interp(ix, symbols=dict(consts), trig=trig)
        it2.decider = _eps_decider(True)
        it2.ext_arctan2 = atan2_stub
        try:
            out = it2.call(f_efm, [M4], {"axes": axes})
        except Unsupported as e:
            raise AnalysisError(f"E3 cannot translate euler_from_matrix for {axes}: {e}")
        if not isinstance(out, tuple) or len(out) != 3:
            raise AnalysisError("euler_from_matrix no longer returns three angles")
        for label, val, sym in zip(("ai", "aj", "ak"), out, (ai, aj, ak)):
            val = sp.sympify(val)
            sign = 1
            coeff, rest = val.as_coeff_Mul()
            if coeff == -1:
                sign, val = -1, rest
            ok = False
            what = f"{axes}: {label} = {'-' if sign < 0 else ''}{val.func.__name__ if hasattr(val, 'func') else val}"
            if getattr(val, "func", None) is not None and str(val.func) == "ATAN2":
                y, x = val.args
                s, c = trig.pair(sym)
                expr = y * c - x * (sign * s)
                if expr.has(sp.sqrt) or any(isinstance(a, sp.Pow) and a.exp == sp.Rational(1, 2) for a in sp.preorder_traversal(expr)):
                    # isolate the square root: (y c)^2 == (x s)^2 with radicals squared away
                    lhs = sp.expand((y * c) ** 2)
                    rhs = sp.expand((x * s) ** 2)
                    ok = reduce_mod(sp.expand(lhs - rhs), trig) == 0
                else:
                    ok = reduce_mod(expr, trig) == 0
            run.obligation("T3", f_efm.where, what + " recovers the angle (up to the principal range)", ok)
            if not ok:
                run.violation("T3", f_efm.where,
                              f"euler_from_matrix(axes='{axes}'): the expression returned for {label} does not satisfy y cos - x sin == 0 "
                              f"on the matrix euler_matrix builds for that convention", key=key_of("C19-T3", axes, label))
        # ---------------------------------------------------------------- T3b gimbal-lock branch: exact round trip
        # middle angle at its degenerate value: sin = 0, cos = g (repeated axis) or cos = 0, sin = g (Tait-Bryan), g^2 = 1
        g = sp.Symbol("g", real=True)
        s_j, c_j = trig.pair(aj)
        rep = axes[1] == axes[3]
        lock = {s_j: 0, c_j: g} if rep else {c_j: 0, s_j: g}
        Mg = np.empty((4, 4), dtype=object)
        Mg[...] = sp.Integer(0)
        Mg[:3, :3] = np.array(ref.subs(lock).tolist(), dtype=object)
        Mg[3, 3] = sp.Integer(1)
        it2b = Interp(ix, symbols=dict(consts), trig=trig)
        it2b.decider = _eps_decider(False)
        it2b.ext_arctan2 = lambda y, x: sp.Function("ATAN2")(sp.sympify(y), sp.sympify(x))
        decided = True
        try:
            outg = it2b.call(f_efm, [Mg], {"axes": axes})
        except Unsupported as e:
            run.instance("T3b", f_efm.where, f"{axes}: gimbal branch not translatable ({str(e)[:60]}) - NOT decided", True, nontrivial=False)
            run.assume(f"euler_from_matrix gimbal branch for {axes} is outside E3 ({str(e)[:80]})")
            decided = False
        if decided:
            pairs = []
            okr = isinstance(outg, tuple) and len(outg) == 3
            for val in (outg if okr else ()):
                val = sp.nsimplify(sp.sympify(val)) if not sp.sympify(val).free_symbols else sp.sympify(val)
                if val == 0:
                    pairs.append((sp.Integer(0), sp.Integer(1)))
                    continue
                sign = 1
                coeff, rest = val.as_coeff_Mul()
                if coeff == -1:
                    sign, val = -1, rest
                if str(getattr(val, "func", "")) != "ATAN2":
                    okr = False
                    break
                y, x = val.args
                y = sp.simplify(y.subs(g**2, 1)) if y.has(sp.sqrt) or any(isinstance(a_, sp.Pow) and a_.exp == sp.Rational(1, 2) for a_ in sp.preorder_traversal(y)) else y
                x = sp.simplify(x.subs(g**2, 1)) if any(isinstance(a_, sp.Pow) and a_.exp == sp.Rational(1, 2) for a_ in sp.preorder_traversal(x)) else x
                y, x = y.subs(sp.Abs(g), 1), x.subs(sp.Abs(g), 1)
                try:
                    r2 = reduce_mod(sp.expand(x * x + y * y), trig, extra=[(g, sp.Integer(1))])
                except sp.PolynomialError:
                    okr = False
                    break
                if sp.expand(r2 - 1) != 0:
                    okr = False
                    break
                pairs.append((sign * y, x))
            ok = False
            if okr and len(pairs) == 3:
                class _Fixed:
                    def __init__(self, m_):
                        self.m = m_

                    def pair(self, sym, half=False):
                        return self.m[sym]

                A, B, C = sp.symbols("A B C")
                back = reference(axes, _Fixed({A: pairs[0], B: pairs[1], C: pairs[2]}), (A, B, C))
                try:
                    ok = all(reduce_mod(sp.expand(back[r, c] - Mg[r, c]), trig, extra=[(g, sp.Integer(1))]) == 0 for r in range(3) for c in range(3))
                except sp.PolynomialError:
                    ok = False  # radicals that do not cancel: the angles are not those of the locked matrix
            run.obligation("T3b", f_efm.where, f"{axes}: in the gimbal-lock branch euler_matrix(*euler_from_matrix(R)) == R for both degenerate middle angles", ok)
            if not ok:
                run.violation("T3b", f_efm.where,
                              f"euler_from_matrix(axes='{axes}'): in the gimbal-lock branch the returned angles do not rebuild the matrix "
                              f"(middle angle with {'cos' if rep else 'sin'} = +-1): a round trip through this convention changes the rotation",
                              key=key_of("C19-T3b", axes))
        # ---------------------------------------------------------------- T4 quaternion_from_euler
        it3 = Interp(ix, symbols=dict(consts), trig=trig)
        try:
            q = arr(it3.call(f_qfe, [ai, aj, ak], {"axes": axes}))
        except Unsupported as e:
            raise AnalysisError(f"E3 cannot translate quaternion_from_euler for {axes}: {e}")
        norm = reduce_mod(sum(x * x for x in q), trig) - 1
        okn = sp.expand(norm) == 0
        run.obligation("T4", f_qfe.where, f"{axes}: |q| == 1", okn)
        Rq = quat_to_matrix(list(q))
        # double-angle: s = 2 sh ch, c = ch^2 - sh^2
        sub = {}
        for sym in (ai, aj, ak):
            s, c = trig.pair(sym)
            sh, ch = trig.pair(sym, half=True)
            sub[s] = 2 * sh * ch
            sub[c] = ch**2 - sh**2
        bad = []
        for r in range(3):
            for c in range(3):
                d = sp.expand(Rq[r, c] - ref[r, c].subs(sub))
                if reduce_mod(d, trig) != 0:
                    bad.append((r, c))
        run.obligation("T4", f_qfe.where, f"{axes}: rotation of the quaternion == convention reference", not bad)
        if bad or not okn:
            run.violation("T4", f_qfe.where,
                          f"quaternion_from_euler(axes='{axes}') does not represent the convention's rotation (entries {bad}, unit norm {okn})",
                          key=key_of("C19-T4", axes))
        for a_ in it.assumptions + it2.assumptions:
            run.assume(a_)
    run.floor("conventions analysed", n_conv, 24)

    # -------------------------------------------------------------------- T5 rotation_matrix
    trig = Trig()
    th = sp.Symbol("theta", real=True)
    d = [sp.Symbol(f"d{i}", real=True) for i in range(3)]
    p = [sp.Symbol(f"p{i}", real=True) for i in range(3)]
    it = Interp(ix, symbols=dict(consts), trig=trig, decisions={"'sympy' in str(type(angle))": False})
    it.stubs["trimesh.transformations:unit_vector"] = lambda itp, args, kw: (itp.assume("rotation_matrix: direction taken as already unit (|d| = 1)"), arr(args[0]))[1]
    try:
        M = arr(it.call(f_rm, [th, np.array(d, dtype=object), np.array(p, dtype=object)]))
    except Unsupported as e:
        raise AnalysisError(f"E3 cannot translate rotation_matrix: {e}")
    s, c = trig.pair(th)
    dv = sp.Matrix(d)
    K = sp.Matrix([[0, -d[2], d[1]], [d[2], 0, -d[0]], [-d[1], d[0], 0]])
    Rref = c * sp.eye(3) + (1 - c) * dv * dv.T + s * K
    bad = [(r, cc) for r in range(3) for cc in range(3) if sp.expand(M[r, cc] - Rref[r, cc]) != 0]
    run.obligation("T5", f_rm.where, "linear part == c I + (1-c) d d^T + s [d]x", not bad)
    if bad:
        run.violation("T5", f_rm.where, f"rotation_matrix is not the Rodrigues form (entries {bad})", key=key_of("C19-T5", "rodrigues"))
    unit = [(d[0], 1 - d[1] ** 2 - d[2] ** 2)]
    Rm = sp.Matrix(3, 3, lambda r, cc: M[r, cc])
    ortho = (Rm * Rm.T - sp.eye(3))
    ok = all(reduce_mod(ortho[r, cc], trig, extra=unit) == 0 for r in range(3) for cc in range(3))
    run.obligation("T5", f_rm.where, "R R^T == I modulo |d| = 1", ok)
    if not ok:
        run.violation("T5", f_rm.where, "rotation_matrix is not orthonormal for unit directions", key=key_of("C19-T5", "ortho"))
    ok = reduce_mod(Rm.det() - 1, trig, extra=unit) == 0
    run.obligation("T5", f_rm.where, "det R == +1 modulo |d| = 1", ok)
    if not ok:
        run.violation("T5", f_rm.where, "rotation_matrix determinant is not +1", key=key_of("C19-T5", "det"))
    fixed = [sp.expand(sum(M[r, cc] * p[cc] for cc in range(3)) + M[r, 3] - p[r]) for r in range(3)]
    ok = all(f == 0 for f in fixed)
    run.obligation("T5", f_rm.where, "M . point == point", ok)
    if not ok:
        run.violation("T5", f_rm.where, "rotation about a point does not leave that point fixed", key=key_of("C19-T5", "fixed-point"))
    for a_ in it.assumptions:
        run.assume(a_)

    # -------------------------------------------------------------------- T6 transform_around
    for dim in (3, 2):
        Mx = symbols_array("m", (dim + 1, dim + 1))
        Mx[dim, :] = [sp.Integer(0)] * dim + [sp.Integer(1)]
        pt = np.array([sp.Symbol(f"p{i}") for i in range(dim)], dtype=object)
        it = Interp(ix, symbols=dict(consts))
        try:
            R = arr(it.call(f_ta, [Mx, pt]))
        except Unsupported as e:
            raise AnalysisError(f"E3 cannot translate transform_around: {e}")
        Tp, Tm = sp.eye(dim + 1), sp.eye(dim + 1)
        for i in range(dim):
            Tp[i, dim] = pt[i]
            Tm[i, dim] = -pt[i]
        ref = Tp * sp.Matrix(Mx.tolist()) * Tm
        ok = all(sp.expand(R[r, cc] - ref[r, cc]) == 0 for r in range(dim + 1) for cc in range(dim + 1))
        run.obligation("T6", f_ta.where, f"{dim}D: result == T(p) M T(-p)", ok)
        if not ok:
            run.violation("T6", f_ta.where, f"transform_around ({dim}D) is not T(p) M T(-p)", key=key_of("C19-T6", dim, "conj"))
        # pure linear map (no translation): p is a fixed point
        sub = {Mx[i, dim]: 0 for i in range(dim)}
        img = [sp.expand((sum(R[r, cc] * pt[cc] for cc in range(dim)) + R[r, dim]).subs(sub) - pt[r]) for r in range(dim)]
        ok = all(v == 0 for v in img)
        run.obligation("T6", f_ta.where, f"{dim}D: a linear map applied around p fixes p", ok)
        if not ok:
            run.violation("T6", f_ta.where, f"transform_around ({dim}D) moves the point it rotates about", key=key_of("C19-T6", dim, "fixed"))

    # -------------------------------------------------------------------- T7 transform_points
    for dim in (3, 2):
        Mx = symbols_array("m", (dim + 1, dim + 1))
        pts = symbols_array("q", (2, dim))
        for translate in (True, False):
            it = Interp(ix, symbols=dict(consts))

            def decider(frame, test):
                if frame.fi.name == "transform_points" and "_IDENTITY" in ast.unparse(test):
                    return False
                return None

            it.decider = decider
            try:
                out = arr(it.call(f_tp, [pts, Mx], {"translate": translate}))
            except Unsupported as e:
                raise AnalysisError(f"E3 cannot translate transform_points: {e}")
            ok = out.shape == (2, dim)
            if ok:
                for n in range(2):
                    for r in range(dim):
                        exp = sum(Mx[r, cc] * pts[n, cc] for cc in range(dim)) + (Mx[r, dim] if translate else 0)
                        ok = ok and sp.expand(out[n, r] - exp) == 0
            run.obligation("T7", f_tp.where, f"{dim}D translate={translate}: p -> M p", ok)
            if not ok:
                run.violation("T7", f_tp.where, f"transform_points ({dim}D, translate={translate}) is not homogeneous matrix multiplication",
                              key=key_of("C19-T7", dim, translate))
            for a_ in it.assumptions:
                run.assume(a_)
    # -------------------------------------------------------------------- T9 - T12 quaternions
    run.rule("T9", "quaternion_matrix(q) == the rotation of q / |q| for every non-zero q (rational identity); orthonormal, det +1; q and -q give the same matrix")
    run.rule("T10", "quaternion_from_matrix(isprecise=True): in each of the four largest-diagonal branches the result is a unit quaternion parallel to the one the matrix was built from")
    run.rule("T11", "quaternion_multiply is the Hamilton product: N(q1 q0) R(q1 q0) == N(q1) R(q1) N(q0) R(q0) as polynomials (so it composes rotations) and |q1 q0|^2 == |q1|^2 |q0|^2")
    run.rule("T12", "quaternion_about_axis(angle, axis) (unit axis) is [cos(a/2), sin(a/2) axis] and represents rotation_matrix(angle, axis)")
    f_qm = ix.func("trimesh.transformations:quaternion_matrix")
    f_qfm = ix.func("trimesh.transformations:quaternion_from_matrix")
    f_qmul = ix.func("trimesh.transformations:quaternion_multiply")
    f_qaa = ix.func("trimesh.transformations:quaternion_about_axis")
    qs = list(sp.symbols("qw qx qy qz", real=True))

    def hom(q):
        """|q|^2 times the rotation matrix of q/|q| (polynomial entries)"""
        w, x, y, z = q
        return sp.Matrix([
            [w * w + x * x - y * y - z * z, 2 * (x * y - z * w), 2 * (x * z + y * w)],
            [2 * (x * y + z * w), w * w - x * x + y * y - z * z, 2 * (y * z - x * w)],
            [2 * (x * z - y * w), 2 * (y * z + x * w), w * w - x * x - y * y + z * z],
        ])

    def qmat(qv):
        it_ = Interp(ix, symbols=dict(consts), overrides={("quaternion_matrix", "identities"): np.array([False])})
        it_.decider = lambda fr, t: False
        try:
            return arr(it_.call(f_qm, [np.array(qv, dtype=object)]))
        except Unsupported as e:
            raise AnalysisError(f"E3 cannot translate quaternion_matrix: {e}")

    Mq = qmat(qs)
    nq = sum(x * x for x in qs)
    H = hom(qs)
    ok = Mq.shape == (4, 4) and all(sp.cancel(sp.together(Mq[r, c] * nq - H[r, c])) == 0 for r in range(3) for c in range(3)) \
        and all(sp.simplify(Mq[3, c] - (1 if c == 3 else 0)) == 0 and sp.simplify(Mq[c, 3] - (1 if c == 3 else 0)) == 0 for c in range(4))
    run.obligation("T9", f_qm.where, "|q|^2 quaternion_matrix(q)[:3,:3] == homogeneous rotation form of q; last row / column homogeneous", ok)
    if not ok:
        run.violation("T9", f_qm.where, "quaternion_matrix(q) is not the rotation matrix of q / |q|", key=key_of("C19-T9", "form"))
    # reference facts about the form itself (so T9 is not a comparison of one table with a copy of it)
    HHt = sp.expand(H * H.T - nq**2 * sp.eye(3))
    okf = all(e == 0 for e in HHt) and sp.expand(H.det() - nq**3) == 0 and sp.expand(hom([-x for x in qs]) - H) == sp.zeros(3, 3)
    run.obligation("T9", f_qm.where, "the homogeneous form satisfies H H^T == |q|^4 I, det H == |q|^6, H(-q) == H(q)", okf)
    if not okf:
        raise AnalysisError("internal: the reference rotation form is wrong")
    # T10: four branches
    unit = [(qs[0] ** 2, 1 - qs[1] ** 2 - qs[2] ** 2 - qs[3] ** 2)]

    class _NoTrig:
        syms = {}

    R4 = np.empty((4, 4), dtype=object)
    R4[...] = sp.Integer(0)
    R4[:3, :3] = np.array(H.tolist(), dtype=object)  # |q| = 1 below, so H is the rotation matrix
    R4[3, 3] = sp.Integer(1)
    branches = {
        "trace": {"t > M[3, 3]": True},
        "i=0": {"t > M[3, 3]": False, "M[1, 1] > M[0, 0]": False, "M[2, 2] > M[i, i]": False},
        "i=1": {"t > M[3, 3]": False, "M[1, 1] > M[0, 0]": True, "M[2, 2] > M[i, i]": False},
        "i=2": {"t > M[3, 3]": False, "M[1, 1] > M[0, 0]": False, "M[2, 2] > M[i, i]": True},
    }
    for bname, dec in branches.items():
        dec = dict(dec)
        dec["q[0] < 0.0"] = False
        it_ = Interp(ix, symbols=dict(consts), decisions=dec)
        try:
            out = arr(it_.call(f_qfm, [R4], {"isprecise": True}))
        except Unsupported as e:
            run.instance("T10", f_qfm.where, f"branch {bname}: not translatable ({str(e)[:70]}) - NOT decided", True, nontrivial=False)
            run.assume(f"quaternion_from_matrix branch {bname} is outside E3 ({str(e)[:80]})")
            continue

        def red(e_):
            e_ = sp.together(e_)
            num, den = sp.fraction(e_)
            # radicals only appear as a common normalisation factor: clear them by squaring where needed
            return reduce_mod(sp.expand(num), _NoTrig, extra=[(qs[0], 1 - qs[1] ** 2 - qs[2] ** 2 - qs[3] ** 2)]) if not num.has(sp.sqrt) and not any(
                isinstance(a_, sp.Pow) and a_.exp.is_Rational and a_.exp.q == 2 for a_ in sp.preorder_traversal(num)) else None

        par = []
        for i_ in range(4):
            for j_ in range(i_ + 1, 4):
                d_ = sp.simplify(out[i_] * qs[j_] - out[j_] * qs[i_])
                num = sp.fraction(sp.together(d_))[0]
                num = sp.expand(num)
                # strip a common radical factor
                num = sp.expand(sp.simplify(num / sp.sqrt(sp.together(sp.simplify(num**2))).as_coeff_Mul()[0])) if False else num
                par.append(num)
        # parallel: every 2x2 minor vanishes modulo |q| = 1 (after removing the shared normalisation factor)
        def vanish(e_):
            e_ = sp.factor_terms(e_)
            polys = [a_ for a_ in sp.Mul.make_args(e_) if not (isinstance(a_, sp.Pow) and a_.exp.is_Rational and not a_.exp.is_Integer) and not a_.is_Number]
            prod = sp.Mul(*polys) if polys else sp.Integer(1 if e_ != 0 else 0)
            return e_ == 0 or reduce_mod(sp.expand(prod), _NoTrig, extra=[(qs[0], 1 - qs[1] ** 2 - qs[2] ** 2 - qs[3] ** 2)]) == 0
        ok_par = all(vanish(e_) for e_ in par)
        n2 = sp.simplify(sum(x * x for x in out))
        n2n, n2d = sp.fraction(sp.together(n2))
        ok_unit = reduce_mod(sp.expand(n2n - n2d), _NoTrig, extra=[(qs[0], 1 - qs[1] ** 2 - qs[2] ** 2 - qs[3] ** 2)]) == 0
        ok = ok_par and ok_unit
        run.obligation("T10", f_qfm.where, f"branch {bname}: result parallel to q ({ok_par}) and of unit norm ({ok_unit}) on the matrix of a unit q", ok)
        if not ok:
            run.violation("T10", f_qfm.where, f"quaternion_from_matrix(isprecise=True), branch {bname}: the returned vector is not +-q for the rotation matrix of a unit "
                                              f"quaternion q (parallel: {ok_par}, unit: {ok_unit}): matrices that fall in this branch convert to a different rotation",
                          key=key_of("C19-T10", bname))
    # T11 Hamilton product
    q1 = list(sp.symbols("aw ax ay az", real=True))
    q0 = list(sp.symbols("bw bx by bz", real=True))
    it_ = Interp(ix, symbols=dict(consts))
    try:
        prod_ = list(arr(it_.call(f_qmul, [np.array(q1, dtype=object), np.array(q0, dtype=object)])))
    except Unsupported as e:
        raise AnalysisError(f"E3 cannot translate quaternion_multiply: {e}")
    ok = sp.expand(hom(prod_) - hom(q1) * hom(q0)) == sp.zeros(3, 3) and sp.expand(sum(x * x for x in prod_) - sum(x * x for x in q1) * sum(x * x for x in q0)) == 0
    run.obligation("T11", f_qmul.where, "H(q1 q0) == H(q1) H(q0) and |q1 q0|^2 == |q1|^2 |q0|^2 as polynomials", ok)
    if not ok:
        run.violation("T11", f_qmul.where, "quaternion_multiply(q1, q0) does not compose rotations: the rotation of the product is not the product of the rotations",
                      key=key_of("C19-T11", "hamilton"))
    # T12 quaternion about axis
    trig = Trig()
    ang = sp.Symbol("theta", real=True)
    ax_ = [sp.Symbol(f"d{i}", real=True) for i in range(3)]
    it_ = Interp(ix, symbols=dict(consts), trig=trig)
    it_.decider = _eps_decider(True)
    it_.stubs["trimesh.transformations:vector_norm"] = lambda itp, args, kw: (itp.assume("quaternion_about_axis: axis taken as unit (|d| = 1)"), sp.Integer(1))[1]
    try:
        qa = list(arr(it_.call(f_qaa, [ang, np.array(ax_, dtype=object)])))
    except Unsupported as e:
        raise AnalysisError(f"E3 cannot translate quaternion_about_axis: {e}")
    sh, ch = trig.pair(ang, half=True)
    ok = sp.expand(qa[0] - ch) == 0 and all(sp.expand(qa[i + 1] - sh * ax_[i]) == 0 for i in range(3))
    # and it represents the Rodrigues rotation (double angle, |d| = 1)
    s_, c_ = sp.symbols("s_full c_full")
    Rq = hom(qa)
    K = sp.Matrix([[0, -ax_[2], ax_[1]], [ax_[2], 0, -ax_[0]], [-ax_[1], ax_[0], 0]])
    dv = sp.Matrix(ax_)
    Rref = (ch**2 - sh**2) * sp.eye(3) + (1 - (ch**2 - sh**2)) * dv * dv.T + (2 * sh * ch) * K
    dd = [(ax_[0], 1 - ax_[1] ** 2 - ax_[2] ** 2)]
    okr = all(reduce_mod(reduce_mod(sp.expand(Rq[r, c] - Rref[r, c]), trig), _NoTrig, extra=dd) == 0 for r in range(3) for c in range(3))
    run.obligation("T12", f_qaa.where, f"quaternion_about_axis == [cos(a/2), sin(a/2) d] ({ok}); its rotation == Rodrigues(angle, d) for unit d ({okr})", ok and okr)
    if not (ok and okr):
        run.violation("T12", f_qaa.where, "quaternion_about_axis does not represent the rotation by `angle` about `axis`", key=key_of("C19-T12", "axis"))

    # -------------------------------------------------------------------- T13 closeness tests measure magnitude, not spread
    run.rule("T13", "no closeness test in transformations.py / util.allclose reduces a difference with np.ptp (zero for a constant offset): is_rigid, identity shortcuts")
    n13 = 0
    for f in ix.all_functions:
        if f.module is not mod and not (f.module.name == "trimesh.util" and f.name == "allclose"):
            continue
        cmps = [c for c in ast.walk(f.node) if isinstance(c, ast.Compare) and len(c.ops) == 1 and isinstance(c.ops[0], (ast.Lt, ast.LtE, ast.Gt, ast.GtE))]
        if not cmps:
            continue
        pv = None
        for c in cmps:
            for side in (c.left, c.comparators[0]):
                calls = [x for x in ast.walk(side) if isinstance(x, ast.Call) and ast.unparse(x.func) in ("np.ptp", "numpy.ptp") and x.args]
                for x in calls:
                    if pv is None:
                        pv = Prov(ix, f)
                    st = pv.stmt_of(x)
                    if st is None or not pv.cfg.nodes_of.get(id(st)):
                        continue
                    arg = pv.inline(x.args[0], st)
                    n13 += 1
                    diff = isinstance(arg, ast.BinOp) and isinstance(arg.op, ast.Sub)
                    run.instance("T13", f.where, f"{f.qualname}: `{ast.unparse(c)[:70]}` reduces {'a difference' if diff else 'a plain array'} with ptp", not diff)
                    if diff:
                        run.violation("T13", f.where, f"`{f.qualname}` decides closeness by `{ast.unparse(c)[:80]}`: np.ptp of `{ast.unparse(arg)[:70]}` is the spread of the "
                                                      f"differences, which is zero when every entry is off by the same amount (I + c*ones passes as identity / rigid)",
                                      key=key_of("C19-T13", f.qualname, ast.unparse(c)[:50]))
    # the two tests of is_rigid are present and are max-norm tests
    f_ir = ix.func("trimesh.transformations:is_rigid")
    pv = Prov(ix, f_ir)
    tests = [pv.canon(c, pv.stmt_of(c)) for c in ast.walk(f_ir.node) if isinstance(c, ast.Compare) and "epsilon" in ast.unparse(c) and pv.stmt_of(c) is not None]
    good_row = any(t in ("numpy.abs(P_matrix[-1] - [0, 0, 0, 1]).max() > P_epsilon", "numpy.abs(P_matrix[3] - [0, 0, 0, 1]).max() > P_epsilon") for t in tests)
    good_rot = any(t.startswith("numpy.abs(numpy.dot(P_matrix[:3, :3], P_matrix[:3, :3].T) - ") and t.endswith(").max() < P_epsilon") for t in tests)
    ok = good_row and good_rot
    run.instance("T13", f_ir.where, f"is_rigid tests the last row and R R^T - I by largest absolute entry ({tests})", ok)
    if not ok and not any(v["rule"] == "T13" for v in run.violations):
        run.instance("T13", f_ir.where, "is_rigid: tests not in a recognised max-norm form - NOT decided", True, nontrivial=False)
        run.assume(f"is_rigid closeness tests have an unrecognised form {tests}")

    from ..rigidrule import rigid_rule
    rigid_rule(run, ix, "T16", "C19")
    from ..rigidrule import fix_rigid_rule
    fix_rigid_rule(run, ix, "T17", "C19")
    # -------------------------------------------------------------------- T14 unit_vector divides by the norm unconditionally
    run.rule("T14", "unit_vector normalises every non-zero vector: the division by the norm is not skipped under a magnitude threshold (a tiny axis is still an axis)")
    f_uv = ix.func("trimesh.transformations:unit_vector")
    puv = Prov(ix, f_uv)
    divs = [st for st in ast.walk(f_uv.node) if isinstance(st, ast.AugAssign) and isinstance(st.op, ast.Div) and ast.unparse(st.target) == "data"]
    if not divs:
        raise AnalysisError("anchor vanished: `data /= ...` in unit_vector")
    for st in divs:
        g = [x for x in puv.guards(st) if "EPS" in x or re.search(r"[<>]=? *[0-9.e-]+", x) and not re.search(r"[<>!=]=? *0(\.0)?$", x)]
        ok = not g
        run.instance("T14", f_uv.where, f"`{ast.unparse(st)[:40]}` (line {st.lineno}) guarded by {puv.guards(st)}", ok)
        if not ok:
            run.violation("T14", f_uv.where, f"unit_vector skips the normalisation under `{g[0][:70]}`: a non-zero vector below that magnitude is returned as it is, so "
                                             f"rotation_matrix(angle, tiny axis) is not orthonormal and disagrees with the quaternion route", key=key_of("C19-T14", "threshold"))

    # -------------------------------------------------------------------- T8 result arrays are float by construction
    run.rule("T8", "no matrix builder stores into an array whose dtype is the caller's (a copy / view of a parameter without a float conversion): integer input would truncate")
    import re as _re
    PARAM_TYPED = _re.compile(r"^(?:numpy\.(?:asanyarray|asarray|array|ascontiguousarray)\((P_\w+)\)|(P_\w+))((?:\.copy\(\)|\.T|\.view\([^)]*\)|\[[^\]]*\])*)$")
    OUT_PARAMS = {("unit_vector", "out"): "documented output buffer supplied by the caller"}
    n8 = 0
    for f in ix.all_functions:
        if f.module is not mod:
            continue
        stores = []
        for st in ast.walk(f.node):
            if isinstance(st, (ast.Assign, ast.AugAssign)):
                for t in (st.targets if isinstance(st, ast.Assign) else [st.target]):
                    if isinstance(t, ast.Subscript) and isinstance(t.value, ast.Name):
                        stores.append((st, t.value.id))
        if not stores:
            continue
        pv = Prov(ix, f)
        seen = set()
        for st, nm in stores:
            if not pv.cfg.nodes_of.get(id(st)) or (nm, st.lineno) in seen:
                continue
            seen.add((nm, st.lineno))

            def defs(name, at, depth=0):
                out = set()
                for d in pv.defs_at(at, name) or []:
                    if d == pv.cfg.entry:
                        out.add(f"P_{name}")
                        continue
                    ds = pv.cfg.stmt[d]
                    if isinstance(ds, ast.Assign) and len(ds.targets) == 1 and isinstance(ds.targets[0], ast.Name) and pv.cfg.kind[d] == "stmt":
                        out.add(pv.canon(ds.value, ds, strip=False))
                    else:
                        out.add("?")
                return out

            for txt in sorted(defs(nm, st)):
                n8 += 1
                m_ = PARAM_TYPED.match(txt)
                if m_ is None:
                    run.instance("T8", f.where, f"{f.qualname}: `{nm}` <- `{txt[:70]}` (own array)", True)
                    continue
                pname = (m_.group(1) or m_.group(2))[2:]
                if (f.name, pname) in OUT_PARAMS and not m_.group(3):
                    run.instance("T8", f.where, f"{f.qualname}: `{nm}` is the caller's `{pname}`: {OUT_PARAMS[(f.name, pname)]}", True)
                    continue
                run.instance("T8", f.where, f"{f.qualname}: `{nm}` <- `{txt[:70]}` keeps the dtype of parameter `{pname}`", False)
                run.violation("T8", f.where, f"`{f.qualname}` assigns into `{nm}` = `{txt[:80]}`, whose dtype is whatever the caller passed for `{pname}`: with an integer "
                                             f"matrix the stored values are truncated, so the result is not the real-valued transform", key=key_of("C19-T8", f.qualname, nm))
    run.floor("array stores in transformations.py examined", n8, 25)
    # -------------------------------------------------------------------- T15 rotation_from_matrix: sine recovery, branch by branch
    run.rule("T15", "rotation_from_matrix: for R = Rodrigues(angle, unit axis d) and the eigenvector d, each of the three branches (|d_z|, |d_y|, |d_x| largest-first) "
                    "recovers sin(angle) and cos(angle) exactly: arctan2 gets (sin, cos) of the very angle")
    f_rfm = ix.func("trimesh.transformations:rotation_from_matrix")
    s_, c_ = sp.symbols("s_a c_a", real=True)
    d_ = [sp.Symbol(f"d{i}", real=True) for i in range(3)]
    K_ = sp.Matrix([[0, -d_[2], d_[1]], [d_[2], 0, -d_[0]], [-d_[1], d_[0], 0]])
    dv_ = sp.Matrix(d_)
    R3 = c_ * sp.eye(3) + (1 - c_) * dv_ * dv_.T + s_ * K_
    R4 = np.empty((4, 4), dtype=object)
    R4[...] = sp.Integer(0)
    R4[:3, :3] = np.array(R3.tolist(), dtype=object)
    R4[3, 3] = sp.Integer(1)
    unit = [(d_[0], 1 - d_[1] ** 2 - d_[2] ** 2)]  # d0^2 -> 1 - d1^2 - d2^2
    for branch in range(3):
        it_ = Interp(ix, symbols=dict(consts))
        calls_ = {"eig": 0, "test": 0}

        def eig_stub(itp, args, kw, _c=calls_):
            _c["eig"] += 1
            n = arr(args[0]).shape[0]
            w = np.array([sp.Integer(1)] + [sp.Integer(0)] * (n - 1), dtype=object)
            W = np.empty((n, n), dtype=object)
            W[...] = sp.Integer(0)
            col = d_ if n == 3 else [sp.Integer(0), sp.Integer(0), sp.Integer(0), sp.Integer(1)]
            for i_ in range(n):
                W[i_, 0] = col[i_]
            return (w, W)

        it_.ext_stubs["numpy.linalg.eig"] = eig_stub
        it_.ext_stubs["numpy.where"] = lambda itp, args, kw: (np.array([0], dtype=object),)
        it_.ext_stubs["numpy.real"] = lambda itp, args, kw: args[0]
        captured_ = []
        it_.ext_arctan2 = lambda y, x, _cap=captured_: (_cap.append((sp.sympify(y), sp.sympify(x))), sp.Function("ATAN2")(sp.sympify(y), sp.sympify(x)))[1]

        def dec_(frame, test, _c=calls_, _b=branch):
            txt = ast.unparse(test)
            if "len(" in txt:
                return "not" not in txt.split("len(")[0][-5:]  # `if not len(i): raise` is not taken
            if ("1e-08" in txt or "1e-8" in txt) and isinstance(test, ast.Compare) and len(test.ops) == 1 and isinstance(test.ops[0], (ast.Gt, ast.GtE)):
                # `abs(<component of the axis>) > 1e-8`: the magnitude tests that choose the formula
                k = _c["test"]
                _c["test"] += 1
                return k == _b  # the k-th magnitude test is the first one that holds
            if "1e-08" in txt or "1e-8" in txt:
                return True  # the eigenvalue filter feeding np.where (stubbed: the unit eigenvector is the first column)
            return None

        it_.decider = dec_
        try:
            it_.call(f_rfm, [R4])
        except Unsupported as e:
            run.instance("T15", f_rfm.where, f"branch {branch}: rotation_from_matrix not translatable ({str(e)[:70]}) - NOT decided", True, nontrivial=False)
            run.assume(f"rotation_from_matrix, branch {branch}: outside E3 ({str(e)[:80]})")
            continue
        except Exception as e:  # noqa - an interpreter problem is not a verdict
            run.instance("T15", f_rfm.where, f"branch {branch}: rotation_from_matrix not evaluated ({type(e).__name__}: {str(e)[:60]}) - NOT decided", True, nontrivial=False)
            run.assume(f"rotation_from_matrix, branch {branch}: not evaluated ({type(e).__name__})")
            continue
        if not captured_:
            run.instance("T15", f_rfm.where, f"branch {branch}: no arctan2(sin, cos) reached - NOT decided", True, nontrivial=False)
            continue
        y_, x_ = captured_[-1]
        # multiply the (rational) difference out and reduce with |d| = 1
        def vanishes(e_):
            num, den = sp.fraction(sp.together(e_))
            return reduce_mod(sp.expand(num), _NoTrig, extra=unit) == 0
        ok = vanishes(y_ - s_) and vanishes(x_ - c_)
        run.obligation("T15", f_rfm.where, f"branch {branch} (first magnitude test that holds is #{branch}): arctan2 receives (sin a, cos a)", ok)
        if not ok:
            run.violation("T15", f_rfm.where, f"rotation_from_matrix, branch taken when the {['z', 'y', 'x'][branch]} component of the axis is the first one above 1e-8: arctan2 receives "
                                              f"({sp.simplify(y_)}, {sp.simplify(x_)}) instead of (sin, cos) of the rotation angle - the recovered angle (or its sign) is wrong for such axes",
                          key=key_of("C19-T15", branch))

    run.assume("real arithmetic; branch selection by _EPS, principal ranges of arctan2 and the 1e-8 identity shortcut are outside the claim")
    return {
        "explanation": "Polynomial-identity proof over sin/cos symbols: the 24 Euler conventions of euler_matrix equal the "
        "products of elementary rotations their names spell; euler_from_matrix reads matching entries (tangent identity); "
        "quaternion_from_euler yields unit quaternions of the same rotations (double-angle substitution); rotation_matrix is "
        "the Rodrigues form, orthonormal with det +1 and fixes its point; transform_around is conjugation by the translation; "
        "transform_points is homogeneous multiplication in 2D/3D. Gimbal thresholds, branch selection, compose/decompose "
        "and round trips through arctan2 ranges are not decided.",
        "trusted_base": ["sympy expand / Poly", "E3 transfer functions (sa/alg.py)", "normal form modulo s^2+c^2=1 by substitution",
                         "reference = product of elementary rotations fixed by the convention name"],
        "checker_cmd": f"./check C19 --tier {run.tier}",
    }
