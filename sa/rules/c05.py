"""C05 - topological queries (narrow): the face->edge layout contract between its
single producer (geometry.faces_to_edges) and the consumers that regroup edges by
reshaping or index the k-th edge of a face.

Table extraction + finite-domain evaluation of slicing constants; no mesh is built.
"""
from __future__ import annotations

import ast
import re

from ..index import Index, const_eval
from ..layout import child_table, edge_columns, face_index_repeat
from ..report import AnalysisError, key_of

LEVEL = "other"


def _reshape_width(fnode, source_pat):
    """width W of `<source>.reshape((-1, W))` where unparse(source) matches source_pat"""
    out = []
    for n in ast.walk(fnode):
        if isinstance(n, ast.Call) and isinstance(n.func, ast.Attribute) and n.func.attr == "reshape":
            if re.fullmatch(source_pat, ast.unparse(n.func.value)):
                try:
                    shp = const_eval(n.args[0]) if len(n.args) == 1 else tuple(const_eval(a) for a in n.args)
                except ValueError:
                    continue
                out.append(shp)
    return out


def _edge_source(fnode):
    """names F such that `inverse` (edge inverse) derives from unique_rows(E), E from faces_to_edges(F)"""
    out = []
    assigns = [a for a in ast.walk(fnode) if isinstance(a, ast.Assign)]
    for a in assigns:
        t = a.targets[0]
        names = [x.id for x in t.elts if isinstance(x, ast.Name)] if isinstance(t, ast.Tuple) else []
        if "inverse" in names and isinstance(a.value, ast.Call) and ast.unparse(a.value.func).endswith("unique_rows"):
            arg = a.value.args[0]
            if not isinstance(arg, ast.Name):
                continue
            for b in assigns:
                tb = b.targets[0]
                tnames = [x.id for x in tb.elts if isinstance(x, ast.Name)] if isinstance(tb, ast.Tuple) else (
                    [tb.id] if isinstance(tb, ast.Name) else [])
                if arg.id in tnames:
                    for c in ast.walk(b.value):
                        if isinstance(c, ast.Call) and ast.unparse(c.func).endswith("faces_to_edges") and c.args:
                            out.append(ast.unparse(c.args[0]))
    return out


def check(run):
    ix = Index(run.repo)
    run.analysed.update(ix.stats())
    run.rule("R1", "producer: three directed edges per face following the winding (i -> i+1 mod 3), contiguous per face")
    run.rule("R2", "producer: the per-edge face index repeats each face exactly once per edge, in the same order")
    run.rule("R3", "consumers regroup edges with the producer's per-face width and take edges from the same producer call")
    run.rule("R4", "winding tests compare head of one directed edge with tail of its twin (finite evaluation of the slices)")
    run.rule("R5", "sorted-edge derivations sort within the pair (axis=1) and equality of edges goes through group_rows/unique_rows")

    f, pairs, src = edge_columns(ix)
    n = len(pairs)
    cyc = all(len(p) == 2 and p[1] == (p[0] + 1) % 3 for p in pairs)
    cover = sorted(p[0] for p in pairs) == [0, 1, 2]
    ok1 = n == 3 and cyc and cover
    run.instance("R1", f.where, f"edge columns {pairs}: cyclic successor={cyc}, covers each corner once={cover}", ok1)
    if not ok1:
        run.violation("R1", f.where,
                      f"faces_to_edges emits column pairs {pairs}: not the three winding-ordered edges (i, i+1 mod 3) of a triangle",
                      key=key_of("C05-R1", "columns"))
    k, var, mode = face_index_repeat(f.node)
    ok2 = k == n and mode == "contiguous"
    run.instance("R2", f.where, f"face index repeats each face {k}x ({mode}); edges per face {n}", ok2)
    if not ok2:
        run.violation("R2", f.where,
                      f"face index of edges is built with repeat {k} ({mode}) but each face contributes {n} contiguous edges",
                      key=key_of("C05-R2", "face-index"))

    # ---- consumers
    consumers = [
        ("trimesh.base:Trimesh.faces_unique_edges", r"self\._cache\['edges_unique_inverse'\]|self\.edges_unique_inverse", n,
         "k-th column = k-th edge of the face"),
        ("trimesh.base:Trimesh.facets_boundary", r"self\.edges_sorted", 2 * n, "all edge endpoints of a face in one row"),
        ("trimesh.remesh:subdivide", r"inverse", n, "mid_idx[:, k] = midpoint of edge k"),
        ("trimesh.remesh:subdivide_loop._subdivide", r"inverse", n, "odd_idx[:, k] = odd vertex of edge k"),
    ]
    for spec, pat, width, why in consumers:
        fi = ix.func(spec)
        shapes = [s for s in _reshape_width(fi.node, pat) if isinstance(s, tuple) and len(s) == 2 and s[0] == -1]
        ok = bool(shapes) and all(s[1] == width for s in shapes)
        run.instance("R3", fi.where, f"regroups `{pat}` as {shapes}; producer width {width} ({why})", ok)
        if not shapes:
            raise AnalysisError(f"anchor vanished: reshape of `{pat}` in {spec}")
        if not ok:
            run.violation("R3", fi.where,
                          f"{spec.split(':')[1]} regroups per-face edges as {shapes} but the producer emits {n} edges per face",
                          key=key_of("C05-R3", spec, "width"))
    # consumers that index edge k explicitly: the child tables must refer to edges 0..n-1 and corners 0..2
    for spec in ("trimesh.remesh:subdivide", "trimesh.remesh:subdivide_loop._subdivide"):
        fi = ix.func(spec)
        tris, fv, mv, w = child_table(fi.node, spec)
        cols_ok = all(0 <= c < (n if kind == "m" else 3) for t in tris for kind, c in t)
        # def-use: inverse <- unique_rows(E); E <- faces_to_edges(F ...); F must be the table's face array
        srcs = _edge_source(fi.node)
        same = bool(srcs) and all(s == fv for s in srcs)
        run.instance("R3", fi.where, f"child table uses corners/edges in range={cols_ok}; edge indices derive from faces_to_edges({srcs}) == table's faces `{fv}`: {same}",
                     cols_ok and same)
        if not cols_ok:
            run.violation("R3", fi.where, "child table refers to an edge or corner index the producer does not emit",
                          key=key_of("C05-R3", spec, "child-range"))
        if not same:
            run.violation("R3", fi.where, f"midpoint indices are computed from edges of a different face array than the child table's `{fv}`",
                          key=key_of("C05-R3", spec, "child-source"))
    # joint production: Trimesh.edges stores the index from the SAME call
    fe = ix.func("trimesh.base:Trimesh.edges")
    ok = False
    for st in ast.walk(fe.node):
        if (isinstance(st, ast.Assign) and isinstance(st.targets[0], ast.Tuple) and len(st.targets[0].elts) == 2
                and isinstance(st.value, ast.Call) and ast.unparse(st.value.func).endswith("faces_to_edges")
                and any(k.arg == "return_index" and getattr(k.value, "value", None) is True for k in st.value.keywords)):
            e_name, i_name = (x.id for x in st.targets[0].elts)
            stores = [a for a in ast.walk(fe.node) if isinstance(a, ast.Assign) and isinstance(a.targets[0], ast.Subscript)
                      and ast.unparse(a.targets[0].value) == "self._cache" and const_eval(a.targets[0].slice) == "edges_face"
                      and isinstance(a.value, ast.Name) and a.value.id == i_name]
            rets = [r for r in ast.walk(fe.node) if isinstance(r, ast.Return) and isinstance(r.value, ast.Name) and r.value.id == e_name]
            ok = bool(stores) and bool(rets)
    run.instance("R3", fe.where, "edges and edges_face come from one faces_to_edges(..., return_index=True) call", ok)
    if not ok:
        run.violation("R3", fe.where, "Trimesh.edges no longer stores the face index produced by the same faces_to_edges call as `edges_face`",
                      key=key_of("C05-R3", "edges-joint"))
    fa = ix.func("trimesh.graph:face_adjacency")
    txt = ast.unparse(fa.node)
    ok = ("edges, edges_face = faces_to_edges(faces, return_index=True)" in txt and "edges = mesh.edges_sorted" in txt
          and "edges_face = mesh.edges_face" in txt and "edges_face[edge_groups]" in txt)
    run.instance("R3", fa.where, "face_adjacency indexes edges_face with groups of the matching edge array", ok)
    if not ok:
        run.violation("R3", fa.where, "face_adjacency pairs an edge array with a face index that is not produced alongside it",
                      key=key_of("C05-R3", "adjacency-joint"))
    m = re.search(r"grouping\.group_rows\(edges, require_count=(\d+)\)", txt)
    ok = m is not None and m.group(1) == "2"
    run.instance("R3", fa.where, f"adjacency = groups of exactly two equal sorted edges (require_count={m.group(1) if m else None})", ok)
    if not ok:
        run.violation("R3", fa.where, "face_adjacency no longer groups exactly two equal sorted edges", key=key_of("C05-R3", "adjacency-count"))

    # ---- R4 winding tests, finite evaluation with symbolic endpoints x != y
    fw = ix.func("trimesh.graph:is_watertight")
    txt = ast.unparse(fw.node)
    m = re.search(r"edges\[groups\]\.reshape\(\(-1, (\d+)\)\)\[:, (\d+):(\d+)\]\.T", txt)
    if not m:
        raise AnalysisError("anchor vanished: `edges[groups].reshape((-1, 4))[:, 1:3].T` in graph.is_watertight")
    W, a, b = map(int, m.groups())
    opp = ["x", "y", "y", "x"]
    same = ["x", "y", "x", "y"]
    sel_opp, sel_same = opp[a:b], same[a:b]
    ok = W == 4 and len(sel_opp) == 2 and sel_opp[0] == sel_opp[1] and sel_same[0] != sel_same[1] and "np.equal(*opposing).all()" in txt
    run.instance("R4", fw.where, f"reshape width {W}, columns [{a}:{b}] -> opposed twin {sel_opp}, same-direction twin {sel_same}", ok)
    if not ok:
        run.violation("R4", fw.where, "is_watertight's winding test does not compare the head of an edge with the tail of its twin",
                      key=key_of("C05-R4", "is_watertight"))
    m2 = re.search(r"watertight = bool\(len\(groups\) \* 2 == len\(edges\)\)", txt)
    run.instance("R4", fw.where, "watertight iff every edge is in a group of exactly two", m2 is not None)
    if m2 is None:
        run.violation("R4", fw.where, "watertightness is no longer `every directed edge belongs to a pair`", key=key_of("C05-R4", "watertight-count"))
    fx = ix.func("trimesh.repair:fix_winding")
    txt = ast.unparse(fx.node)
    ok = "if edge_pair[0][0] == edge_pair[1][0]:" in txt and "faces[face_pair[1]] = faces[face_pair[1]][::-1]" in txt
    run.instance("R4", fx.where, "fix_winding flips the second face when the shared edge runs the same way in both", ok)
    if not ok:
        run.violation("R4", fx.where, "fix_winding's same-direction test or flip changed", key=key_of("C05-R4", "fix_winding"))

    # ---- R5 sorting axis
    for spec in ("trimesh.base:Trimesh.edges_sorted",):
        fi = ix.func(spec)
        txt = ast.unparse(fi.node)
        ok = re.search(r"np\.sort\(self\.edges, axis=1\)", txt) is not None
        run.instance("R5", fi.where, "edges_sorted = sort(edges, axis=1)", ok)
        if not ok:
            run.violation("R5", fi.where, "edges_sorted is not the edges sorted within each pair (axis=1)", key=key_of("C05-R5", spec))
    fi = ix.func("trimesh.base:Trimesh.edges_unique")
    txt = ast.unparse(fi.node)
    ok = ("grouping.unique_rows(self.edges_sorted)" in txt and "self._cache['edges_unique_inverse'] = inverse" in txt
          and "self.edges_sorted[unique]" in txt)
    run.instance("R5", fi.where, "edges_unique / inverse come from unique_rows(edges_sorted)", ok)
    if not ok:
        run.violation("R5", fi.where, "edges_unique no longer derives (unique, inverse) from unique_rows over the sorted edges",
                      key=key_of("C05-R5", "edges_unique"))
    fi = ix.func("trimesh.base:Trimesh.euler_number")
    txt = ast.unparse(fi.node).replace(" ", "")
    m = re.search(r"len\(self\.vertices\)-len\(self\.edges_unique\)+len\(self\.faces\)".replace("+", r"\+"), txt)
    ok = m is not None
    alt = re.search(r"referenced_vertices\.sum\(\)-len\(self\.edges_unique\)\+len\(self\.faces\)", txt) is not None
    run.instance("R5", fi.where, "euler_number = V - E + F over unique edges", ok or alt)
    if not (ok or alt):
        run.violation("R5", fi.where, "euler_number is not V - E(unique) + F", key=key_of("C05-R5", "euler"))

    run.floor("consumers checked", len([i for i in run.instances if i["rule"] == "R3"]), 8)
    return {
        "explanation": "Extracts the column table and face-index construction of geometry.faces_to_edges and checks every "
        "consumer that regroups edges per face (reshape widths, child tables, joint production of edges and edges_face, "
        "pair grouping) plus the winding tests by finite evaluation of their slice constants. Decides the layout contract "
        "only - a necessary condition of every edge-based query; the combinatorial equalities themselves "
        "(adjacency, components, Euler number, angle defects) are values of vectorised grouping and are not decided.",
    }
