"""C05 - topological queries (narrow): the face->edge layout contract between its
single producer (geometry.faces_to_edges) and the consumers that regroup edges by
reshaping or index the k-th edge of a face.

Table extraction + finite-domain evaluation of slicing constants; no mesh is built.
"""
from __future__ import annotations

import ast
import re

from ..index import Index, const_eval
from ..layout import child_table, edge_columns, face_index_repeat
from ..provenance import Prov, is_emptiness
from ..report import AnalysisError, key_of

LEVEL = "other"


def _reshape_width(fnode, source_pat):
    """width W of `<source>.reshape((-1, W))` where unparse(source) matches source_pat"""
    out = []
    for n in ast.walk(fnode):
        if isinstance(n, ast.Call) and isinstance(n.func, ast.Attribute) and n.func.attr == "reshape":
            if re.fullmatch(source_pat, ast.unparse(n.func.value)):
                try:
                    shp = const_eval(n.args[0]) if len(n.args) == 1 else tuple(const_eval(a) for a in n.args)
                except ValueError:
                    continue
                out.append(shp)
    return out


def _edge_source(fnode):
    """names F such that `inverse` (edge inverse) derives from unique_rows(E), E from faces_to_edges(F)"""
    out = []
    assigns = [a for a in ast.walk(fnode) if isinstance(a, ast.Assign)]
    for a in assigns:
        t = a.targets[0]
        names = [x.id for x in t.elts if isinstance(x, ast.Name)] if isinstance(t, ast.Tuple) else []
        if "inverse" in names and isinstance(a.value, ast.Call) and ast.unparse(a.value.func).endswith("unique_rows"):
            arg = a.value.args[0]
            if not isinstance(arg, ast.Name):
                continue
            for b in assigns:
                tb = b.targets[0]
                tnames = [x.id for x in tb.elts if isinstance(x, ast.Name)] if isinstance(tb, ast.Tuple) else (
                    [tb.id] if isinstance(tb, ast.Name) else [])
                if arg.id in tnames:
                    for c in ast.walk(b.value):
                        if isinstance(c, ast.Call) and ast.unparse(c.func).endswith("faces_to_edges") and c.args:
                            out.append(ast.unparse(c.args[0]))
    return out


def _core_in(core, val):
    """the counting computation `core` (callee names and the inputs they take) occurs in the canonical value `val`,
    whether its arguments are passed positionally or by keyword"""
    if core in val:
        return True
    toks = [t for t in re.findall(r"[A-Za-z_][\w.]*(?:\['\w+'\])?(?!\w*=)", re.sub(r"\b\w+=(?!=)", "", core)) if t not in ("axis",)]
    return bool(toks) and all(t in val for t in toks)


def check(run):
    ix = Index(run.repo)
    run.analysed.update(ix.stats())
    run.rule("R1", "producer: three directed edges per face following the winding (i -> i+1 mod 3), contiguous per face")
    run.rule("R2", "producer: the per-edge face index repeats each face exactly once per edge, in the same order")
    run.rule("R3", "consumers regroup edges with the producer's per-face width and take edges from the same producer call")
    run.rule("R4", "winding tests compare head of one directed edge with tail of its twin (finite evaluation of the slices)")
    run.rule("R5", "sorted-edge derivations sort within the pair (axis=1) and equality of edges goes through group_rows/unique_rows")

    f, pairs, src = edge_columns(ix)
    n = len(pairs)
    cyc = all(len(p) == 2 and p[1] == (p[0] + 1) % 3 for p in pairs)
    cover = sorted(p[0] for p in pairs) == [0, 1, 2]
    ok1 = n == 3 and cyc and cover
    run.instance("R1", f.where, f"edge columns {pairs}: cyclic successor={cyc}, covers each corner once={cover}", ok1)
    if not ok1:
        run.violation("R1", f.where,
                      f"faces_to_edges emits column pairs {pairs}: not the three winding-ordered edges (i, i+1 mod 3) of a triangle",
                      key=key_of("C05-R1", "columns"))
    k, var, mode = face_index_repeat(f.node)
    ok2 = k == n and mode == "contiguous"
    run.instance("R2", f.where, f"face index repeats each face {k}x ({mode}); edges per face {n}", ok2)
    if not ok2:
        run.violation("R2", f.where,
                      f"face index of edges is built with repeat {k} ({mode}) but each face contributes {n} contiguous edges",
                      key=key_of("C05-R2", "face-index"))

    # ---- consumers
    consumers = [
        ("trimesh.base:Trimesh.faces_unique_edges", r"self\._cache\['edges_unique_inverse'\]|self\.edges_unique_inverse", n,
         "k-th column = k-th edge of the face"),
        ("trimesh.base:Trimesh.facets_boundary", r"self\.edges_sorted", 2 * n, "all edge endpoints of a face in one row"),
        ("trimesh.remesh:subdivide", r"inverse", n, "mid_idx[:, k] = midpoint of edge k"),
        ("trimesh.remesh:subdivide_loop._subdivide", r"inverse", n, "odd_idx[:, k] = odd vertex of edge k"),
    ]
    for spec, pat, width, why in consumers:
        fi = ix.func(spec)
        shapes = [s for s in _reshape_width(fi.node, pat) if isinstance(s, tuple) and len(s) == 2 and s[0] == -1]
        ok = bool(shapes) and all(s[1] == width for s in shapes)
        run.instance("R3", fi.where, f"regroups `{pat}` as {shapes}; producer width {width} ({why})", ok)
        if not shapes:
            raise AnalysisError(f"anchor vanished: reshape of `{pat}` in {spec}")
        if not ok:
            run.violation("R3", fi.where,
                          f"{spec.split(':')[1]} regroups per-face edges as {shapes} but the producer emits {n} edges per face",
                          key=key_of("C05-R3", spec, "width"))
    # consumers that index edge k explicitly: the child tables must refer to edges 0..n-1 and corners 0..2
    for spec in ("trimesh.remesh:subdivide", "trimesh.remesh:subdivide_loop._subdivide"):
        fi = ix.func(spec)
        try:
            tris, fv, mv, w = child_table(fi.node, spec)
        except AnalysisError as e_:
            run.instance("R3", fi.where, f"child table of {spec.split(':')[1]} not in a recognised form ({str(e_)[:80]}) - NOT decided", True, nontrivial=False)
            run.assume(f"{spec}: the child table of the subdivision is not in a recognised form; its edge / corner indices are not decided")
            continue
        cols_ok = all(0 <= c < (n if kind == "m" else 3) for t in tris for kind, c in t)
        # def-use: inverse <- unique_rows(E); E <- faces_to_edges(F ...); F must be the table's face array
        srcs = _edge_source(fi.node)
        same = bool(srcs) and all(s == fv for s in srcs)
        run.instance("R3", fi.where, f"child table uses corners/edges in range={cols_ok}; edge indices derive from faces_to_edges({srcs}) == table's faces `{fv}`: {same}",
                     cols_ok and same)
        if not cols_ok:
            run.violation("R3", fi.where, "child table refers to an edge or corner index the producer does not emit",
                          key=key_of("C05-R3", spec, "child-range"))
        if not same:
            run.violation("R3", fi.where, f"midpoint indices are computed from edges of a different face array than the child table's `{fv}`",
                          key=key_of("C05-R3", spec, "child-source"))
    # joint production: Trimesh.edges stores the index from the SAME call
    fe = ix.func("trimesh.base:Trimesh.edges")
    ok = False
    for st in ast.walk(fe.node):
        if (isinstance(st, ast.Assign) and isinstance(st.targets[0], ast.Tuple) and len(st.targets[0].elts) == 2
                and isinstance(st.value, ast.Call) and ast.unparse(st.value.func).endswith("faces_to_edges")
                and getattr(ix.call_arg(st.value, "return_index", "trimesh.geometry.faces_to_edges"), "value", None) is True):
            e_name, i_name = (x.id for x in st.targets[0].elts)
            stores = [a for a in ast.walk(fe.node) if isinstance(a, ast.Assign) and isinstance(a.targets[0], ast.Subscript)
                      and ast.unparse(a.targets[0].value) == "self._cache" and const_eval(a.targets[0].slice) == "edges_face"
                      and isinstance(a.value, ast.Name) and a.value.id == i_name]
            rets = [r for r in ast.walk(fe.node) if isinstance(r, ast.Return) and isinstance(r.value, ast.Name) and r.value.id == e_name]
            ok = bool(stores) and bool(rets)
    run.instance("R3", fe.where, "edges and edges_face come from one faces_to_edges(..., return_index=True) call", ok)
    if not ok:
        run.violation("R3", fe.where, "Trimesh.edges no longer stores the face index produced by the same faces_to_edges call as `edges_face`",
                      key=key_of("C05-R3", "edges-joint"))
    fa = ix.func("trimesh.graph:face_adjacency")
    pv = Prov(ix, fa)
    grp = [(st, c) for st in ast.walk(fa.node) if isinstance(st, ast.Assign) for c in [st.value]
           if isinstance(c, ast.Call) and pv.callee(c.func) == "trimesh.grouping.group_rows"]
    if len(grp) != 1:
        raise AnalysisError("anchor vanished: the single group_rows call in graph.face_adjacency")
    gst, gcall = grp[0]
    _, gargs, gkw = pv.canon_call(gcall, gst)
    ok = gkw.get("require_count") == "2"
    run.instance("R3", fa.where, f"adjacency = groups of exactly two equal sorted edges (require_count={gkw.get('require_count')})", ok)
    if not ok:
        run.violation("R3", fa.where, "face_adjacency no longer groups exactly two equal sorted edges", key=key_of("C05-R3", "adjacency-count"))
    # the grouped edge array and the face index used to translate groups into faces are produced together
    e_name = gcall.args[0].id if gcall.args and isinstance(gcall.args[0], ast.Name) else None
    idx_use = [n for n in ast.walk(fa.node) if isinstance(n, ast.Subscript) and isinstance(n.value, ast.Name) and isinstance(n.slice, ast.Name)
               and isinstance(gst.targets[0], ast.Name) and n.slice.id == gst.targets[0].id and n.value.id != e_name]
    ok = False
    detail = ""
    if e_name and idx_use:
        f_name = idx_use[0].value.id
        use_st = pv.stmt_of(idx_use[0])
        ea = pv.alternatives(e_name, gst) or set()
        fa_ = pv.alternatives(f_name, use_st) or set()
        detail = f"edges from {sorted(ea)}, face index from {sorted(fa_)}"
        pairs_ok = set()
        for e_ in ea:
            if e_.endswith("[0]") and re.fullmatch(r"trimesh\.geometry\.faces_to_edges\([^()]*?(?:, True|, return_index=True)\)\[0\]", e_):
                if e_[:-3] + "[1]" in fa_:
                    pairs_ok.add(e_)
            elif e_.endswith(".edges_sorted") and e_[:-len(".edges_sorted")] + ".edges_face" in fa_:
                pairs_ok.add(e_)
        ok = bool(ea) and pairs_ok == ea and len(fa_) == len(ea)
        # edges taken straight from faces_to_edges have to be sorted within the pair before grouping
        if any(e_.endswith("[0]") for e_ in ea):
            sorts = [c for c in ast.walk(fa.node) if isinstance(c, ast.Call) and isinstance(c.func, ast.Attribute) and c.func.attr == "sort"
                     and isinstance(c.func.value, ast.Name) and c.func.value.id == e_name
                     and any(k.arg == "axis" and getattr(k.value, "value", None) == 1 for k in c.keywords)]
            ok = ok and bool(sorts)
            detail += f"; in-place sort(axis=1) of the fresh edges: {bool(sorts)}"
    run.instance("R3", fa.where, f"face_adjacency indexes the face index produced alongside the grouped edges ({detail})", ok)
    if not ok:
        run.violation("R3", fa.where, f"face_adjacency pairs an edge array with a face index that is not produced alongside it, or groups unsorted edges ({detail})",
                      key=key_of("C05-R3", "adjacency-joint"))

    # ---- R4 winding tests, finite evaluation with symbolic endpoints x != y
    fw = ix.func("trimesh.graph:is_watertight")
    pw = Prov(ix, fw)
    rets = [r for r in ast.walk(fw.node) if isinstance(r, ast.Return) and isinstance(r.value, ast.Tuple) and len(r.value.elts) == 2]
    if len(rets) != 1:
        raise AnalysisError("anchor vanished: `return watertight, winding` in graph.is_watertight")
    wt_txt = pw.canon(rets[0].value.elts[0], rets[0])
    wd_txt = pw.canon(rets[0].value.elts[1], rets[0])
    G = r"trimesh\.grouping\.group_rows\((?:P_edges_sorted|PHI_edges_sorted|numpy\.sort\(P_edges, axis=1\))(?:, require_count=2|, 2)\)"
    alts = pw.alternatives("edges_sorted", rets[0]) if "PHI_edges_sorted" in wt_txt + wd_txt else {"P_edges_sorted"}
    alts_ok = alts is not None and alts <= {"P_edges_sorted", "numpy.sort(P_edges, axis=1)"}
    # the winding verdict, whatever the spelling: evaluate the canonical expression on a finite model - one group of two
    # equal sorted edges, whose two directed edges are symbols compared only for equality:
    #     opposed twins (x, y) / (y, x) -> consistent;  twins running the same way (x, y) / (x, y) -> inconsistent;
    #     a collapsed edge (x, x) twice (its reverse is itself) -> consistent
    import numpy as _np

    from ..index import const_eval as _ce

    class _Unknown(Exception):
        pass

    def _idx(sl, env):
        if isinstance(sl, ast.Slice):
            return slice(*[None if v is None else _ce(v) for v in (sl.lower, sl.upper, sl.step)])
        if isinstance(sl, ast.Tuple):
            return tuple(_idx(e, env) for e in sl.elts)
        try:
            return _ce(sl)
        except (ValueError, TypeError):
            return _ev(sl, env)

    def _arr(x):
        return x if isinstance(x, _np.ndarray) else _np.asarray(x, dtype=object)

    def _ev(e, env):
        if isinstance(e, ast.Name):
            if e.id in env:
                return env[e.id]
            raise _Unknown(f"name {e.id}")
        if isinstance(e, ast.Constant):
            return e.value
        if isinstance(e, ast.UnaryOp) and isinstance(e.op, ast.USub) and isinstance(e.operand, ast.Constant):
            return -e.operand.value
        if isinstance(e, (ast.Tuple, ast.List)):
            return [_ev(x, env) for x in e.elts]
        if isinstance(e, ast.Subscript):
            try:
                return _arr(_ev(e.value, env))[_idx(e.slice, env)]
            except (ValueError, TypeError, IndexError) as ex:
                raise _Unknown(f"index `{ast.unparse(e.slice)}`: {ex}")
        if isinstance(e, ast.Attribute) and e.attr == "T":
            return _arr(_ev(e.value, env)).T
        if isinstance(e, ast.Compare) and len(e.ops) == 1 and isinstance(e.ops[0], (ast.Eq, ast.NotEq)):
            l_, r_ = _np.asarray(_ev(e.left, env), dtype=object), _np.asarray(_ev(e.comparators[0], env), dtype=object)
            r = _np.equal(l_, r_)
            return r if isinstance(e.ops[0], ast.Eq) else _np.logical_not(r)
        if isinstance(e, ast.UnaryOp) and isinstance(e.op, (ast.Invert, ast.Not)):
            return _np.logical_not(_np.asarray(_ev(e.operand, env), dtype=bool))
        if isinstance(e, ast.Call):
            fn = ast.unparse(e.func)
            args = []
            for a_ in e.args:
                if isinstance(a_, ast.Starred):
                    args += list(_np.asarray(_ev(a_.value, env), dtype=object))
                else:
                    args.append(_ev(a_, env))
            kw = {k.arg: _ce(k.value) for k in e.keywords if k.arg in ("axis",)}
            if len(kw) != len(e.keywords):
                raise _Unknown(f"keyword in `{fn}`")
            if fn in ("numpy.equal", "numpy.not_equal") and len(args) == 2:
                r = _np.equal(_np.asarray(args[0], dtype=object), _np.asarray(args[1], dtype=object))
                return r if fn == "numpy.equal" else _np.logical_not(r)
            if fn in ("numpy.logical_and", "numpy.logical_or") and len(args) == 2:
                return getattr(_np, fn.split(".")[1])(_np.asarray(args[0], dtype=bool), _np.asarray(args[1], dtype=bool))
            if fn == "numpy.logical_not" and len(args) == 1:
                return _np.logical_not(_np.asarray(args[0], dtype=bool))
            if fn in ("numpy.fliplr",) and len(args) == 1:
                return _np.fliplr(_np.asarray(args[0], dtype=object))
            if fn in ("numpy.column_stack", "numpy.hstack", "numpy.vstack") and len(args) == 1:
                return getattr(_np, fn.split(".")[1])([_np.asarray(x, dtype=object) for x in args[0]])
            if isinstance(e.func, ast.Attribute) and e.func.attr in ("all", "any") and not args:
                return getattr(_np.asarray(_ev(e.func.value, env), dtype=bool), e.func.attr)(**kw)
            if isinstance(e.func, ast.Attribute) and e.func.attr == "reshape" and len(args) == 1 and not kw:
                return _arr(_ev(e.func.value, env)).reshape(tuple(args[0]) if isinstance(args[0], list) else args[0])
            if fn in ("bool",) and len(args) == 1:
                return bool(args[0])
            raise _Unknown(f"call `{fn}`")
        raise _Unknown(f"`{ast.unparse(e)[:60]}`")

    GSUB = re.sub(G, "GROUPS", wd_txt)
    MODELS = [("opposed twins (x, y) / (y, x)", [["x", "y"], ["y", "x"]], True),
              ("twins running the same way (x, y) / (x, y)", [["x", "y"], ["x", "y"]], False),
              ("a collapsed edge (x, x) occurring twice", [["x", "x"], ["x", "x"]], True)]
    try:
        tree = ast.parse(GSUB, mode="eval").body
        results = []
        for label, edges_m, want in MODELS:
            got = bool(_ev(tree, {"P_edges": _np.array(edges_m, dtype=object), "GROUPS": _np.array([[0, 1]])}))
            results.append((label, got, want))
        ok = all(g == w for _, g, w in results) and alts_ok and "GROUPS" in GSUB
        run.instance("R4", fw.where, "winding verdict on the three edge-pair models: " + "; ".join(f"{l} -> {g}" for l, g, _ in results)
                     + f"; pairs from groups of two equal sorted edges ({sorted(alts or [])})", ok)
        if not ok:
            bad = [f"{l}: reports {'consistent' if g else 'inconsistent'}" for l, g, w in results if g != w]
            run.violation("R4", fw.where, "is_watertight's winding test does not compare the head of an edge with the tail of its twin over the groups of two equal sorted edges"
                          + (f" ({'; '.join(bad)})" if bad else ""), key=key_of("C05-R4", "is_watertight"))
    except (_Unknown, SyntaxError) as ex:
        if "P_edges[" not in wd_txt or "group_rows" not in wd_txt:
            run.instance("R4", fw.where, f"winding verdict `{wd_txt[:100]}`", False)
            run.violation("R4", fw.where, "is_watertight's winding test does not compare the head of an edge with the tail of its twin over the groups of two equal sorted edges",
                          key=key_of("C05-R4", "is_watertight"))
        else:
            run.instance("R4", fw.where, f"winding verdict not evaluated ({ex}): undecided", True, nontrivial=False)
            run.assume(f"C05-R4: the spelling of is_watertight's winding comparison is not recognised ({ex}); not decided on this tree")
    forms = re.fullmatch(r"(?:len\(" + G + r"\) \* 2|2 \* len\(" + G + r"\)) == len\(P_edges\)|len\(P_edges\) == (?:len\(" + G + r"\) \* 2|2 \* len\(" + G + r"\))", wt_txt)
    run.instance("R4", fw.where, f"watertight iff every directed edge is in a group of exactly two (`{wt_txt[:90]}`)", forms is not None)
    if forms is None:
        run.violation("R4", fw.where, f"watertightness is no longer `every directed edge belongs to a pair` (`{wt_txt[:100]}`)", key=key_of("C05-R4", "watertight-count"))
    from ..windingrule import fix_winding_facts
    wf = fix_winding_facts(ix)
    fx = wf["func"]
    ok = wf["n_flips"] == 1 and wf["guard_ok"] and wf["target_ok"]
    gd = wf["detail"]
    run.instance("R4", fx.where, f"fix_winding reverses one face of the pair exactly when the shared edge starts at the same vertex in both (`{gd[:80]}`)", ok)
    if not ok:
        run.violation("R4", fx.where, "fix_winding's same-direction test or flip changed", key=key_of("C05-R4", "fix_winding"))

    # ---- R5 sorting axis and unique-edge derivations (canonical forms)
    fi = ix.func("trimesh.base:Trimesh.edges_sorted")
    pe = Prov(ix, fi)
    rr = [pe.canon(r.value, r) for r in ast.walk(fi.node) if isinstance(r, ast.Return) and r.value is not None]
    ok = bool(rr) and all(t in ("numpy.sort(P_self.edges, axis=1)", "numpy.sort(P_self.edges, axis=-1)", "numpy.sort(P_self.edges, 1)") for t in rr)
    run.instance("R5", fi.where, f"edges_sorted = sort(edges) within each pair ({rr})", ok)
    if not ok:
        run.violation("R5", fi.where, f"edges_sorted is not the edges sorted within each pair (axis=1): {rr}", key=key_of("C05-R5", "trimesh.base:Trimesh.edges_sorted"))
    fi = ix.func("trimesh.base:Trimesh.edges_unique")
    pe = Prov(ix, fi)
    rr = [pe.canon(r.value, r) for r in ast.walk(fi.node) if isinstance(r, ast.Return) and r.value is not None]
    U = "trimesh.grouping.unique_rows(P_self.edges_sorted)"
    inv = [pe.canon(st.value, st) for st in ast.walk(fi.node) if isinstance(st, ast.Assign) and ast.unparse(st.targets[0]) == "self._cache['edges_unique_inverse']"]
    ok = rr == [f"P_self.edges_sorted[{U}[0]]"] and inv == [f"{U}[1]"]
    run.instance("R5", fi.where, f"edges_unique / inverse come from unique_rows(edges_sorted) ({rr}, inverse {inv})", ok)
    if not ok:
        run.violation("R5", fi.where, "edges_unique no longer derives (unique, inverse) from unique_rows over the sorted edges",
                      key=key_of("C05-R5", "edges_unique"))
    fi = ix.func("trimesh.base:Trimesh.euler_number")
    pe = Prov(ix, fi)
    rets = [r for r in ast.walk(fi.node) if isinstance(r, ast.Return) and r.value is not None]
    terms = []

    def lin(e, sign):
        if isinstance(e, ast.BinOp) and isinstance(e.op, (ast.Add, ast.Sub)):
            lin(e.left, sign)
            lin(e.right, sign if isinstance(e.op, ast.Add) else -sign)
        elif isinstance(e, ast.Call) and ast.unparse(e.func) == "int" and len(e.args) == 1:
            lin(e.args[0], sign)
        else:
            terms.append((sign, ast.unparse(e)))

    ok = len(rets) == 1
    if ok:
        lin(ast.parse(pe.canon(rets[0].value, rets[0]), mode="eval").body, 1)
        t = sorted(terms)
        ok = sorted(t) in (sorted([(1, "P_self.referenced_vertices.sum()"), (-1, "len(P_self.edges_unique)"), (1, "len(P_self.faces)")]),
                           sorted([(1, "len(P_self.vertices)"), (-1, "len(P_self.edges_unique)"), (1, "len(P_self.faces)")]))
    run.instance("R5", fi.where, f"euler_number = V - E + F over unique edges ({sorted(terms)})", ok)
    if not ok:
        run.violation("R5", fi.where, f"euler_number is not V - E(unique) + F: {sorted(terms)}", key=key_of("C05-R5", "euler"))

    # ---- R6 no shortcut: every result flows from the counting computation, early exits only on emptiness
    run.rule("R6", "every return of a topological query goes through its counting computation; a return that bypasses it is allowed only under an emptiness test")
    CORE = {
        "trimesh.base:Trimesh.is_watertight": ["trimesh.graph.is_watertight(edges=P_self.edges, edges_sorted=P_self.edges_sorted)"],
        "trimesh.base:Trimesh.is_winding_consistent": ["P_self._cache['is_winding_consistent']"],
        "trimesh.base:Trimesh.euler_number": ["len(P_self.edges_unique)"],
        "trimesh.base:Trimesh.body_count": ["connected_components(P_self.edges_sparse"],
        "trimesh.base:Trimesh.face_adjacency": ["trimesh.graph.face_adjacency(mesh=P_self"],
        "trimesh.base:Trimesh.face_adjacency_edges": ["P_self._cache['face_adjacency_edges']"],
        "trimesh.base:Trimesh.edges": ["trimesh.geometry.faces_to_edges(P_self.faces"],
        "trimesh.base:Trimesh.edges_unique": ["trimesh.grouping.unique_rows(P_self.edges_sorted)"],
        "trimesh.base:Trimesh.edges_sorted": ["numpy.sort(P_self.edges"],
        "trimesh.base:Trimesh.edges_sparse": ["trimesh.graph.edges_to_coo(P_self.edges"],
        "trimesh.base:Trimesh.vertex_neighbors": ["trimesh.graph.neighbors(edges=P_self.edges_unique"],
        "trimesh.base:Trimesh.vertex_degree": ["P_self.faces_sparse.sum(axis=1)"],
        "trimesh.base:Trimesh.vertex_faces": ["trimesh.geometry.vertex_face_indices(faces=P_self.faces"],
        "trimesh.base:Trimesh.split": ["trimesh.graph.split(P_self"],
        "trimesh.graph:split": ["trimesh.graph.connected_components(edges="],
        "trimesh.graph:face_adjacency": ["trimesh.grouping.group_rows("],
        "trimesh.graph:is_watertight": ["trimesh.grouping.group_rows("],
        "trimesh.graph:connected_component_labels": ["scipy.sparse.csgraph.connected_components(trimesh.graph.edges_to_coo(P_edges"],
        "trimesh.graph:connected_components": ["PHI_components_csgraph", "networkx.connected_components(", "trimesh.grouping.group(", "PHI_components", "P_nodes", "PHI_nodes"],
        "trimesh.geometry:faces_to_edges": ["P_faces[:, ["],
    }
    n6 = 0
    for spec, cores in CORE.items():
        try:
            fi = ix.func(spec)
        except Exception:
            raise AnalysisError(f"anchor vanished: {spec}")
        pq = Prov(ix, fi)
        if spec == "trimesh.graph:connected_components":
            # the engines are nested functions: whatever they are called, a result that comes out of one of them is computed
            cores = cores + [f"PHI_{n_}" for n_ in fi.nested]
        for r in ast.walk(fi.node):
            if not isinstance(r, ast.Return) or pq.stmt_of_return(r) is None:
                continue
            n6 += 1
            val = pq.canon(r.value, r) if r.value is not None else "None"
            if any(_core_in(c, val) for c in cores):
                run.instance("R6", fi.where, f"{fi.qualname}: `return {val[:70]}` flows from the counting computation", True)
                continue
            g = pq.guards(r)
            ok = any(is_emptiness(x) for x in g)
            run.instance("R6", fi.where, f"{fi.qualname}: shortcut `return {val[:40]}` under {g}", ok)
            if not ok:
                run.violation("R6", fi.where, f"`{fi.qualname}` returns `{val[:60]}` under {g or ['no condition']} without going through its counting computation "
                                              f"({cores[0][:50]}...): only an emptiness test may decide the answer without looking at the edges",
                              key=key_of("C05-R6", spec, val[:40]))
    run.floor("returns of topological queries examined", n6, 24)
    # graph.neighbors: a neighbour is listed once however often the pair occurs (self-edges from repeated in-face indices included)
    fn = ix.func("trimesh.graph:neighbors")
    pn = Prov(ix, fn)
    defs = [st for st in ast.walk(fn.node) if isinstance(st, ast.Assign) and isinstance(st.targets[0], ast.Name) and st.targets[0].id == "neighbors"]
    txts = [pn.canon(st.value, st) for st in defs]
    adds = {c.func.attr for c in ast.walk(fn.node) if isinstance(c, ast.Call) and isinstance(c.func, ast.Attribute) and isinstance(c.func.value, ast.Subscript)
            and ast.unparse(c.func.value.value) == "neighbors"}
    dedup_later = any(isinstance(c, ast.Call) and ast.unparse(c.func) in ("set", "np.unique", "sorted(set") and "neighbors" in ast.unparse(c) for c in ast.walk(fn.node))
    ok = (txts == ["collections.defaultdict(set)"] and adds <= {"add", "update", "discard"}) or dedup_later
    run.instance("R6", fn.where, f"graph.neighbors collects neighbours in sets ({txts}, methods {sorted(adds)})", ok)
    if not ok:
        run.violation("R6", fn.where, f"graph.neighbors collects neighbours with {txts} / {sorted(adds)} and no later de-duplication: a vertex is listed more than once when an "
                                      f"edge repeats or a face repeats an index (self-edge), so vertex_neighbors differs from direct counting", key=key_of("C05-R6", "neighbors-set"))
    # graph.split: components are computed on face adjacency over all faces
    sp = ix.func("trimesh.graph:split")
    ps = Prov(ix, sp)
    cc = [(pv_st, c) for pv_st in ast.walk(sp.node) if isinstance(pv_st, ast.Assign) for c in [pv_st.value]
          if isinstance(c, ast.Call) and ps.callee(c.func) == "trimesh.graph.connected_components"]
    ok = len(cc) == 1
    if ok:
        st_, c_ = cc[0]
        _, a_, k_ = ps.canon_call(c_, st_)
        adj = ps.alternatives("adjacency", st_) if k_.get("edges") == "PHI_adjacency" else {k_.get("edges")}
        ok = adj is not None and adj <= {"P_adjacency", "P_mesh.face_adjacency"} and k_.get("nodes") == "numpy.arange(len(P_mesh.faces))"
    run.instance("R6", sp.where, "split = connected components of face adjacency over every face index", ok)
    if not ok:
        run.violation("R6", sp.where, "graph.split does not take connected components of the face adjacency over all faces", key=key_of("C05-R6", "split-core"))

    run.floor("consumers checked", len([i for i in run.instances if i["rule"] == "R3"]), 8)
    return {
        "explanation": "Extracts the column table and face-index construction of geometry.faces_to_edges and checks every "
        "consumer that regroups edges per face (reshape widths, child tables, joint production of edges and edges_face, "
        "pair grouping) plus the winding tests by finite evaluation of their slice constants. Decides the layout contract "
        "only - a necessary condition of every edge-based query; the combinatorial equalities themselves "
        "(adjacency, components, Euler number, angle defects) are values of vectorised grouping and are not decided.",
    }
