"""C20 - loading arbitrary bytes ends cleanly (narrow).

Decides the clauses whose truth is in the shape of the loader code:
 R1  every function that obtains a LoadSource from `_parse_file_args` reaches the
     `if arg.was_opened: arg.file_obj.close()` step on every path out of it, normal or exceptional
     (post-dominance on a CFG with exception edges); `_parse_file_args` cannot raise explicitly
     after it opened the file; every other open / temporary file in loader modules is a `with` item.
 R2  every `while` loop in the loader modules has one of four terminating shapes, each checked:
     stream loops leave the loop on every path once the stream is exhausted (constant propagation
     of the end-of-stream value); worklist loops pop on every iteration and only grow the list
     behind a visited-set test; consumption loops pop and never grow; chain loops advance on every path.
 R3  no registered loader can reach sys.exit / os._exit / os.abort.
 R4  binary STL / PLY: the header-versus-length test dominates the bulk read and is computed in
     Python integers (a fixed-width numpy product wraps and lets a short file through).
Time and memory proportionality in general, and the behaviour of third-party parsers, are not decided.
"""
from __future__ import annotations

import ast

from ..cfg import CFG
from ..effects import Effects
from ..eofeval import CONSUMES, GROWS, READS, EofEval
from ..index import FuncInfo, Index
from ..provenance import Prov
from ..report import AnalysisError, key_of

LEVEL = "other"

LOADER_PACKAGES = ("trimesh.exchange.", "trimesh.path.exchange.")
EXTRA_MODULES = ("trimesh.util", "trimesh.resolvers")

# raw opens that are not `with` items, each reviewed
OPEN_TABLE = {
    ("trimesh.exchange.load", "_parse_file_args"): "the one opener of the load path: records was_opened, closed by its callers (R1)",
    ("trimesh.exchange.export", "export_mesh"): "exporter, writes then closes its own handle (not a loader)",
    ("trimesh.path.exchange.export", "_write_export"): "exporter, writes then closes its own handle (not a loader)",
    ("trimesh.util", "decompress"): "wraps the caller's already-open file object in ZipFile / tarfile / bz2: no new descriptor",
}


def loader_functions(ix):
    out = {}
    for m in ix.modules.values():
        if not m.name.startswith(LOADER_PACKAGES):
            continue
        for st in ast.walk(m.tree):
            vals = []
            if isinstance(st, ast.Assign) and len(st.targets) == 1:
                t = st.targets[0]
                nm = t.id if isinstance(t, ast.Name) else (t.value.id if isinstance(t, ast.Subscript) and isinstance(t.value, ast.Name) else None)
                if nm and nm.endswith("_loaders"):
                    if isinstance(st.value, ast.Dict):
                        vals = [(const_key(k), v) for k, v in zip(st.value.keys, st.value.values)]
                    elif isinstance(t, ast.Subscript):
                        vals = [(const_key(t.slice), st.value)]
            for k, v in vals:
                r = ix.resolve_expr(m, v) if isinstance(v, (ast.Name, ast.Attribute)) else None
                if isinstance(r, FuncInfo):
                    out.setdefault(r, set()).add(k)
    return out


def funcs_of(ix, m):
    return [f for f in ix.all_functions if f.module is m]


def own_walk(fnode):
    """ast.walk that does not descend into nested function / class definitions"""
    stack = list(ast.iter_child_nodes(fnode))
    while stack:
        n = stack.pop()
        yield n
        if isinstance(n, (ast.FunctionDef, ast.AsyncFunctionDef, ast.ClassDef, ast.Lambda)):
            continue
        stack.extend(ast.iter_child_nodes(n))


def const_key(k):
    return k.value if isinstance(k, ast.Constant) else ast.unparse(k)


def check(run):
    ix = Index(run.repo)
    ef = Effects(ix)
    run.analysed.update(ix.stats())
    run.rule("R1", "a file opened by _parse_file_args is closed under `was_opened` on every path out of the caller, exceptional paths included; other opens are `with` items")
    run.rule("R2", "every while loop in loader modules has a terminating shape (stream loop leaves at end of stream; worklist / consumption / chain loops make progress on every path)")
    run.rule("R3", "no registered loader reaches sys.exit / os._exit / os.abort")
    run.rule("R4", "binary STL / PLY: header-versus-length test dominates the bulk read and is computed in Python integers")

    mods = [m for m in ix.modules.values() if m.name.startswith(LOADER_PACKAGES) or m.name in EXTRA_MODULES]
    run.floor("loader modules", len(mods), 20)

    # ------------------------------------------------------------------ R1 close discipline
    pfa = ix.func_by_role("trimesh.exchange.load:_parse_file_args",
                          lambda f_: any(isinstance(c_, ast.Call) and isinstance(c_.func, ast.Name) and c_.func.id == "open" for c_ in ast.walk(f_.node))
                          and any(isinstance(k_, ast.keyword) and k_.arg == "was_opened" for k_ in ast.walk(f_.node)),
                          "the function that opens the file and records `was_opened`")
    callers = []
    for m in ix.modules.values():
        for f in funcs_of(ix, m):
            for n in own_walk(f.node):
                if isinstance(n, ast.Call) and ix.resolve_expr(m, n.func) is pfa and f is not pfa:
                    callers.append((f, n))
    run.floor("callers of _parse_file_args", len(callers), 3)
    for f, call in callers:
        # the statement `arg = _parse_file_args(...)`
        owner = None
        for st in ast.walk(f.node):
            if isinstance(st, ast.Assign) and st.value is call and isinstance(st.targets[0], ast.Name):
                owner = st
        if owner is None:
            run.instance("R1", f.where, "result of _parse_file_args not bound to a local", False)
            run.violation("R1", f.where, f"`{f.qualname}` does not keep the LoadSource returned by _parse_file_args, so it cannot close the file it opened",
                          key=key_of("C20-R1", f.qualname, "unbound"))
            continue
        var = owner.targets[0].id
        cfg = CFG(f.node, exceptions=True)
        closers = []
        for n, st in cfg.stmt.items():
            if isinstance(st, ast.If) and cfg.kind[n] in ("if", "test", "branch", "stmt") and ast.unparse(st.test) == f"{var}.was_opened":
                if any(isinstance(b, ast.Expr) and ast.unparse(b.value) == f"{var}.file_obj.close()" for b in st.body):
                    closers.append(n)
        start = [s for n in cfg.nodes_of.get(id(owner), []) for s in cfg.g.successors(n) if s not in (cfg.raise_exit,)]
        leaks = []
        for s in start:
            for sink, label in ((cfg.exit, "return"), (cfg.raise_exit, "exception")):
                if s in closers:
                    continue
                if cfg.reachable_without(s, sink, set(closers)):
                    leaks.append(label)
        ok = bool(closers) and not leaks
        run.instance("R1", f.where, f"`{var}.file_obj.close()` under `{var}.was_opened` on every path after the call ({len(closers)} close site(s) in the CFG)", ok)
        if not ok:
            run.violation("R1", f.where, f"`{f.qualname}` can leave by {sorted(set(leaks)) or ['any path']} without closing the file _parse_file_args opened "
                                         f"(no `if {var}.was_opened: {var}.file_obj.close()` on that path): a failed or finished load leaks the handle",
                          key=key_of("C20-R1", f.qualname, "close"))
    # no explicit raise after the open inside _parse_file_args
    cfg = CFG(pfa.node, exceptions=False)
    opens = [n for n, st in cfg.stmt.items() if isinstance(st, ast.Assign) and isinstance(st.value, ast.Call) and ast.unparse(st.value.func) == "open"]
    if not opens:
        raise AnalysisError("anchor vanished: the open() call in _parse_file_args")
    raises = [n for n, st in cfg.stmt.items() if isinstance(st, ast.Raise)]
    bad = [cfg.stmt[r].lineno for o in opens for r in raises if cfg.reachable_without(o, r, set())]
    ok = not bad
    run.instance("R1", pfa.where, f"no `raise` statement is reachable after the open() in _parse_file_args ({len(raises)} raise statements examined)", ok)
    if not ok:
        run.violation("R1", pfa.where, f"_parse_file_args can raise (line {bad}) after it opened the file: the caller never receives the LoadSource and cannot close it",
                      key=key_of("C20-R1", "_parse_file_args", "raise-after-open"))
    # was_opened is set right after the open and nowhere else
    sets = [st for st in ast.walk(pfa.node) if isinstance(st, ast.Assign) and ast.unparse(st.targets[0]) == "was_opened" and ast.unparse(st.value) == "True"]
    ok = len(sets) == len(opens) and all(any(cfg.dominates(o, n) for n in cfg.nodes_of.get(id(s), [])) for s in sets for o in opens)
    run.instance("R1", pfa.where, "`was_opened = True` exactly where the file is opened", ok)
    if not ok:
        run.violation("R1", pfa.where, "`was_opened` is not set exactly on the path that opens the file", key=key_of("C20-R1", "_parse_file_args", "flag"))
    # every other open is a with-item
    n_open = 0
    for m in mods:
        for f in funcs_of(ix, m):
            with_calls = set()
            for n in own_walk(f.node):
                if isinstance(n, (ast.With, ast.AsyncWith)):
                    for it in n.items:
                        for c in ast.walk(it.context_expr):
                            with_calls.add(id(c))
            for n in own_walk(f.node):
                if not isinstance(n, ast.Call):
                    continue
                name = ast.unparse(n.func)
                r = ix.resolve_expr(m, n.func)
                dotted = r if isinstance(r, str) else ""
                is_open = name == "open" or dotted in ("tempfile.NamedTemporaryFile", "tempfile.TemporaryDirectory", "tempfile.TemporaryFile", "zipfile.ZipFile",
                                                       "tarfile.open", "bz2.open", "gzip.open", "io.open", "tempfile.mkstemp", "tempfile.mkdtemp")
                if not is_open:
                    continue
                n_open += 1
                top = f
                while getattr(top, "parent", None) is not None:
                    top = top.parent
                key = (m.name, top.name)
                if top is pfa:
                    key = ("trimesh.exchange.load", "_parse_file_args")  # the opener of the load path, by role (it may have been renamed)
                ok = id(n) in with_calls or key in OPEN_TABLE
                why = "with-item" if id(n) in with_calls else OPEN_TABLE.get(key, "NOT a with-item and not in the reviewed table")
                run.instance("R1", f.where, f"`{ast.unparse(n)[:60]}`: {why}", ok)
                if not ok:
                    run.violation("R1", f.where, f"`{ast.unparse(n)[:70]}` in `{f.qualname}` opens a file / temporary outside a `with` block: an exception while "
                                                 f"parsing leaves it open", key=key_of("C20-R1", m.name, f.qualname, "raw-open"))
    run.floor("open / tempfile sites in loader modules", n_open, 12)

    # ------------------------------------------------------------------ R2 while loops
    n_loops = 0
    shapes = {}
    for m in mods:
        for f in funcs_of(ix, m):
            for loop in [n for n in own_walk(f.node) if isinstance(n, ast.While)]:
                n_loops += 1
                shape = classify(run, m, f, loop)
                shapes[shape] = shapes.get(shape, 0) + 1
    run.floor("while loops in loader modules", n_loops, 5)
    run.analysed["while_loops"] = n_loops
    run.analysed["loop_shapes"] = shapes

    # ------------------------------------------------------------------ R2b for loops reachable from a loader iterate something finite
    loaders_all = loader_functions(ix)
    roots = set(loaders_all) | {ix.func(q) for q in ("trimesh.exchange.load:load_scene", "trimesh.path.exchange.load:load_path", "trimesh.util:decompress")}
    reach = set(roots)
    frontier = list(roots)
    depth = {f_: 0 for f_ in roots}
    while frontier:
        f_ = frontier.pop()
        if depth[f_] >= 6:
            continue
        for c in ast.walk(f_.node):
            if isinstance(c, ast.Call) and isinstance(c.func, (ast.Name, ast.Attribute)):
                r = ix.resolve_expr(f_.module, c.func)
                if isinstance(r, FuncInfo) and r not in reach:
                    reach.add(r)
                    depth[r] = depth[f_] + 1
                    frontier.append(r)
    UNBOUNDED = ("itertools.count", "itertools.cycle", "itertools.repeat")
    n_for = 0
    for f_ in sorted(reach, key=lambda x: x.where):
        pvf = None
        for lp in own_walk(f_.node):
            if not isinstance(lp, (ast.For, ast.AsyncFor)):
                continue
            n_for += 1
            it = lp.iter
            names = [it] + ([it] if not isinstance(it, ast.Name) else [])
            bad = None
            cand = [it]
            if isinstance(it, ast.Name):
                # the iterable is a local: look at what it may have been assigned
                if pvf is None:
                    pvf = Prov(ix, f_)
                alts = pvf.alternatives(it.id, lp) if pvf.cfg.nodes_of.get(id(lp)) else None
                for a_ in alts or ():
                    if any(a_.startswith(u + "(") for u in UNBOUNDED) and not (a_.startswith("itertools.repeat(") and "," in a_):
                        bad = a_
            elif isinstance(it, ast.Call):
                r = ix.resolve_expr(f_.module, it.func) if isinstance(it.func, (ast.Name, ast.Attribute)) else None
                if isinstance(r, str) and r in UNBOUNDED and not (r == "itertools.repeat" and len(it.args) > 1):
                    bad = ast.unparse(it)
                if isinstance(it.func, ast.Name) and it.func.id == "iter" and len(it.args) == 2:
                    bad = ast.unparse(it)
            if bad is not None:
                run.instance("R2", f"{f_.module.rel}:{lp.lineno} {f_.qualname}", f"for loop over `{bad[:50]}`", False)
                run.violation("R2", f"{f_.module.rel}:{lp.lineno} {f_.qualname}", f"`{f_.qualname}` (reachable from a loader) loops over `{bad[:60]}`, which never ends by itself: the loop "
                                                                               f"relies on its body to stop, so cyclic references in a file keep it running and growing", key=key_of("C20-R2", f_.qualname, "unbounded-for"))
    run.instance("R2", "trimesh/exchange/load.py loaders", f"{n_for} for loops in {len(reach)} functions reachable from the loader registries iterate finite iterables", True)
    run.floor("functions reachable from loaders", len(reach), 80)
    # DXF: a block definition is converted without access to the other blocks, so an INSERT is expanded one level only
    ld = ix.func("trimesh.path.exchange.dxf:load_dxf")
    pvd = Prov(ix, ld)
    cecalls = [c for c in ast.walk(ld.node) if isinstance(c, ast.Call) and pvd.callee(c.func) == "trimesh.path.exchange.dxf.convert_entities"]
    nested = []
    for c in cecalls:
        st = pvd.stmt_of(c)
        inside_loop = any(isinstance(lp, ast.For) and c in list(ast.walk(lp)) for lp in ast.walk(ld.node))
        kwb = next((k for k in c.keywords if k.arg == "blocks"), None)
        if inside_loop and (kwb is not None and ast.unparse(kwb.value) != "None" or len(c.args) > 2):
            nested.append(c.lineno)
    ok = bool(cecalls) and not nested
    run.instance("R4", ld.where, f"DXF block definitions are converted without a `blocks` table ({len(cecalls)} convert_entities calls; nested: {nested})", ok)
    if not ok:
        run.violation("R4", ld.where, f"load_dxf converts block definitions with access to the blocks collected so far (line {nested}): every INSERT deep-copies its block, so a chain of "
                                      f"blocks that each insert the previous one twice doubles the entities per level - memory and time exponential in the file size",
                      key=key_of("C20-R4", "dxf-nested-blocks"))

    # ------------------------------------------------------------------ R3 no interpreter exit
    loaders = loader_functions(ix)
    for q in ("trimesh.exchange.load:load", "trimesh.exchange.load:load_scene", "trimesh.exchange.load:load_mesh", "trimesh.exchange.load:_load_compressed",
              "trimesh.path.exchange.load:load_path", "trimesh.exchange.load:load_remote", "trimesh.util:decompress"):
        loaders.setdefault(ix.func(q), set()).add("(entry)")
    run.floor("registered loader functions", len(loaders), 18)
    for f, keys in sorted(loaders.items(), key=lambda kv: kv[0].where):
        s = ef.summary(f, None)
        ok = "EXITS" not in s.effects
        run.instance("R3", f.where, f"loader {f.qualname} {sorted(keys)}: no process-exit call reachable", ok)
        if not ok:
            run.violation("R3", f.where, f"loader `{f.qualname}` can reach {s.effect_sites.get('EXITS')}: a malformed file would bring the interpreter down",
                          key=key_of("C20-R3", f.qualname))
    # positive control: the effect is recognised at all
    for m in mods:
        for f in funcs_of(ix, m):
            for n in own_walk(f.node):
                if isinstance(n, ast.Call) and ast.unparse(n.func) in ("sys.exit", "os._exit", "os.abort", "exit", "quit"):
                    top = f
                    run.instance("R3", f.where, f"direct `{ast.unparse(n.func)}` in a loader module", False)
                    run.violation("R3", f.where, f"`{ast.unparse(n)[:60]}` inside loader module function `{f.qualname}`", key=key_of("C20-R3", "direct", f.qualname))

    # ------------------------------------------------------------------ R4 header guards
    stl = ix.func("trimesh.exchange.stl:load_stl_binary")
    guard_rule(run, ix, stl, bulk=lambda c: "frombuffer" in ast.unparse(c.func) and any("read()" in ast.unparse(a) for a in c.args),
               what="np.frombuffer(file_obj.read(), ...)", exc="HeaderError")
    pb = ix.func_by_role("trimesh.exchange.ply:_ply_binary",
                         lambda f_: f_.parent is None and any(isinstance(c_, ast.Call) and ast.unparse(c_.func) == "populate_data" for c_ in ast.walk(f_.node)),
                         "the binary PLY reader that calls populate_data")
    guard_rule(run, ix, pb, bulk=lambda c: ast.unparse(c.func) == "populate_data", what="populate_data(file_obj, elements)", exc="ValueError", nested=True)
    # ------------------------------------------------------------------ R5 regular expressions
    run.rule("R5", "no regular expression used by a loader nests an unbounded repetition inside another (the shape that backtracks exponentially)")
    import re._parser as rp  # regex syntax trees only; nothing is matched
    n_re = 0
    for m in mods:
        for f in funcs_of(ix, m):
            for n in own_walk(f.node):
                if isinstance(n, ast.Call) and isinstance(n.func, ast.Attribute) and ast.unparse(n.func.value) == "re" \
                        and n.func.attr in ("compile", "split", "sub", "subn", "match", "search", "findall", "finditer", "fullmatch") and n.args:
                    pat = n.args[0]
                    if not (isinstance(pat, ast.Constant) and isinstance(pat.value, (str, bytes))):
                        run.instance("R5", f.where, f"`{ast.unparse(n)[:60]}`: pattern is not a literal (not decided)", True, nontrivial=False)
                        continue
                    n_re += 1
                    try:
                        tree = rp.parse(pat.value)
                    except Exception as ex:
                        raise AnalysisError(f"{f.where}: cannot parse regex {pat.value!r}: {ex}")
                    depth = star_height(tree)
                    ok = depth <= 1
                    run.instance("R5", f.where, f"regex {pat.value!r}: unbounded repetitions nest {depth} deep", ok)
                    if not ok:
                        run.violation("R5", f.where, f"regex {pat.value!r} in `{f.qualname}` nests an unbounded repetition inside another: matching time can "
                                                     f"grow exponentially with the input", key=key_of("C20-R5", f.qualname, repr(pat.value)))
    run.floor("literal regular expressions in loader modules", n_re, 3)
    # ------------------------------------------------------------------ R6 strided windows over file bytes are bounded
    run.rule("R6", "every np.lib.stride_tricks.as_strided window over file bytes lies inside a buffer whose size numpy itself checked: the base is "
                   "np.frombuffer(..., count=N) with N == sum((shape_i - 1) * stride_i) + 1 (polynomial identity), or an explicit test of that very span against len(data) "
                   "dominates it - otherwise a corrupted count reads past the end of the bytes object (segfault, not an exception)")
    import sympy as _sp

    from ..dag import Values
    n6 = 0
    for f in ix.all_functions:
        if not f.module.name.startswith(("trimesh.exchange.", "trimesh.path.exchange.")):
            continue
        calls = [c for c in ast.walk(f.node) if isinstance(c, ast.Call) and ast.unparse(c.func).endswith("as_strided")]
        if not calls or any(n_.node is not f.node and any(c in list(ast.walk(n_.node)) for c in calls) for n_ in f.nested.values()):
            continue
        V6 = Values(ix, f)
        syms = {}

        def to_sym(node):
            n_ = V6.dag.node(node) if isinstance(node, ast.Name) else node
            if isinstance(n_, ast.Constant) and isinstance(n_.value, (int, float)) and not isinstance(n_.value, bool):
                return _sp.nsimplify(n_.value)
            if isinstance(n_, ast.BinOp) and isinstance(n_.op, (ast.Add, ast.Sub, ast.Mult)):
                a_, b_ = to_sym(n_.left), to_sym(n_.right)
                return a_ + b_ if isinstance(n_.op, ast.Add) else (a_ - b_ if isinstance(n_.op, ast.Sub) else a_ * b_)
            key_ = V6.dag._ident(node) if isinstance(node, ast.Name) else ast.unparse(n_)
            return syms.setdefault(key_, _sp.Symbol(f"q{len(syms)}", positive=True))

        for c in calls:
            st_ = V6.pv.stmt_of(c)
            if st_ is None or len(c.args) < 3:
                continue
            n6 += 1
            where = f"{f.module.rel}:{c.lineno} {f.qualname}"
            base, shape, strides = V6.value(c.args[0], st_), c.args[1], c.args[2]
            if not (isinstance(shape, (ast.List, ast.Tuple)) and isinstance(strides, (ast.List, ast.Tuple)) and len(shape.elts) == len(strides.elts)):
                run.instance("R6", where, "as_strided with a shape / strides that are not literal lists - NOT decided", True, nontrivial=False)
                run.assume(f"{f.qualname}: as_strided shape / strides not literal")
                continue
            span = _sp.Integer(1)
            for sh_, sd_ in zip(shape.elts, strides.elts):
                span += (to_sym(V6.value(sh_, st_)) - 1) * to_sym(V6.value(sd_, st_))
            fb = V6.match("numpy.frombuffer(_e_data, count=_e_N, dtype=numpy.uint8, offset=_e_off)", base) or V6.match("numpy.frombuffer(_e_data, count=_e_N, dtype=numpy.uint8)", base)
            bounded = fb is not None and _sp.expand(to_sym(ast.Name(id=fb["_e_N"], ctx=ast.Load()) if fb["_e_N"] in V6.dag.defs else ast.parse(fb["_e_N"], mode="eval").body) - span) == 0
            guard = False
            if not bounded:
                # an explicit comparison of offset + span with len(data) that every path to the call passes (assert / raise)
                fb2 = fb or V6.match("numpy.frombuffer(_e_data, dtype=numpy.uint8, offset=_e_off)", base) or V6.match("numpy.frombuffer(_e_data, dtype=numpy.uint8)", base)
                off = to_sym(ast.parse(fb2["_e_off"], mode="eval").body if fb2 and "_e_off" in fb2 and fb2["_e_off"] not in V6.dag.defs else
                             (ast.Name(id=fb2["_e_off"], ctx=ast.Load()) if fb2 and "_e_off" in fb2 else ast.Constant(value=0)))
                for g_ in ast.walk(f.node):
                    tests_ = [g_.test] if isinstance(g_, ast.Assert) else []
                    for t_ in tests_:
                        if not isinstance(t_, ast.Compare):
                            continue
                        terms = [t_.left] + list(t_.comparators)
                        for (l_, o_, r_) in zip(terms, t_.ops, terms[1:]):
                            if isinstance(o_, (ast.LtE, ast.Lt)) and isinstance(r_, ast.Call) and ast.unparse(r_.func) == "len":
                                lv = to_sym(V6.value(l_, g_))
                                if _sp.expand(lv - (off + span)) == 0 or _sp.expand(lv - (off + span - 1)) == 0:
                                    guard = True
            ok = bounded or guard
            run.instance("R6", where, f"as_strided window spans {span} bytes of its base; base = frombuffer(count=that span): {bounded}; explicit span test: {guard}", ok)
            if not ok:
                run.violation("R6", where, f"`{f.qualname}` builds an as_strided window of {span} bytes (q* = values read from the file) over a buffer that is neither created with that "
                                           f"`count` nor tested against that span: a corrupted element count / stride reads past the end of the file bytes and can crash the interpreter",
                              key=key_of("C20-R6", f.qualname, "as_strided"))
    run.instance("R6", "trimesh/exchange", f"{n6} as_strided windows examined", True, nontrivial=False)

    # ------------------------------------------------------------------ R7 a caller's accumulator is not dropped when it is empty
    run.rule("R7", "a parameter that a function fills in place on behalf of its caller (memo of names seen, counts) is defaulted with `is None`, never with `or`: an EMPTY "
                   "container is falsy, `p = p or {}` replaces the caller's dict by a private one on every call and the memo never grows (quadratic loading of many "
                   "same-named items)")
    n7 = 0
    for f in ix.all_functions:
        if not f.module.name.startswith("trimesh."):
            continue
        params = set(f.params)
        if not params:
            continue
        filled = set()
        for n_ in ast.walk(f.node):
            if isinstance(n_, (ast.Assign, ast.AugAssign)):
                for t_ in (n_.targets if isinstance(n_, ast.Assign) else [n_.target]):
                    if isinstance(t_, ast.Subscript) and isinstance(t_.value, ast.Name) and t_.value.id in params:
                        filled.add(t_.value.id)
            elif isinstance(n_, ast.Call) and isinstance(n_.func, ast.Attribute) and isinstance(n_.func.value, ast.Name) and n_.func.value.id in params \
                    and n_.func.attr in ("add", "append", "update", "setdefault", "extend"):
                filled.add(n_.func.value.id)
        for p_ in sorted(filled):
            n7 += 1
            bad = [st_ for st_ in ast.walk(f.node) if isinstance(st_, ast.Assign) and len(st_.targets) == 1 and isinstance(st_.targets[0], ast.Name) and st_.targets[0].id == p_
                   and isinstance(st_.value, ast.BoolOp) and isinstance(st_.value.op, ast.Or) and isinstance(st_.value.values[0], ast.Name) and st_.value.values[0].id == p_
                   and isinstance(st_.value.values[-1], (ast.Dict, ast.List, ast.Set, ast.Call))]
            ok = not bad
            if not ok or f.module.name.startswith(("trimesh.exchange", "trimesh.util", "trimesh.path.exchange")):
                run.instance("R7", f.where, f"{f.qualname}: parameter `{p_}` is filled in place for the caller; defaulted by truthiness: {bool(bad)}", ok)
            if not ok:
                run.violation("R7", f"{f.module.rel}:{bad[0].lineno} {f.qualname}", f"`{ast.unparse(bad[0])}` in `{f.qualname}`: the caller's `{p_}` is replaced whenever it is empty, so what this call records in it "
                                                                                    f"is lost and every later call starts from nothing", key=key_of("C20-R7", f.qualname, p_))
    run.instance("R7", "trimesh", f"{n7} parameters filled in place examined", True, nontrivial=False)

    run.assume("time / memory proportionality beyond the STL and PLY header guards, third-party parsers (lxml, json, PIL, collada, meshio), and "
               "RecursionError on cyclic references are not decided")
    # ------------------------------------------------------------------ R8 no allocation sized by the largest VALUE found in a file
    run.rule("R8", "no function on a load path allocates an array whose length is the largest value of file-supplied index data (`np.zeros(idx.max() + 1)`): memory must be "
                   "bounded by the size of the input, so a single huge index in a 200-byte file cannot ask for gigabytes before the range check that would reject it")
    reach = {}
    frontier = [f for m in mods for f in funcs_of(ix, m)]
    for f in frontier:
        reach[id(f)] = f
    for _ in range(2):
        nxt = []
        for f in frontier:
            for n in own_walk(f.node):
                if isinstance(n, ast.Call):
                    try:
                        r = ix.resolve_expr(f.module, n.func)
                    except Exception:
                        r = None
                    if hasattr(r, "qualname") and hasattr(r, "node") and id(r) not in reach and isinstance(r.node, (ast.FunctionDef, ast.AsyncFunctionDef)):
                        reach[id(r)] = r
                        nxt.append(r)
        frontier = nxt
    ALLOC = {"zeros", "ones", "empty", "full", "arange"}
    n8 = 0
    for f in reach.values():
        for n in own_walk(f.node):
            if not (isinstance(n, ast.Call) and ast.unparse(n.func).split(".")[-1] in ALLOC and ast.unparse(n.func).split(".")[0] in ("np", "numpy") and n.args):
                continue
            size = n.args[0]
            # local definitions of names in the size expression (one step)
            exprs = [size]
            for nm in ast.walk(size):
                if isinstance(nm, ast.Name):
                    for st in own_walk(f.node):
                        if isinstance(st, ast.Assign) and len(st.targets) == 1 and isinstance(st.targets[0], ast.Name) and st.targets[0].id == nm.id:
                            exprs.append(st.value)
            maxes = [c for e in exprs for c in ast.walk(e) if isinstance(c, ast.Call) and isinstance(c.func, ast.Attribute) and c.func.attr == "max" and not c.args
                     and not any(isinstance(x, ast.Attribute) and x.attr in ("shape",) for x in ast.walk(c.func.value))]
            maxes += [c for e in exprs for c in ast.walk(e) if isinstance(c, ast.Call) and ast.unparse(c.func) in ("np.max", "numpy.max", "max", "np.amax") and len(c.args) == 1
                      and not isinstance(c.args[0], (ast.List, ast.Tuple))]
            if not maxes:
                continue
            subj = ast.unparse(maxes[0].func.value) if isinstance(maxes[0].func, ast.Attribute) and not maxes[0].args else ast.unparse(maxes[0].args[0])
            # a bounds test of that very maximum against a length / count earlier in the function
            bounded = False
            for c in own_walk(f.node):
                if isinstance(c, ast.Compare) and c.lineno <= n.lineno and "max" in ast.unparse(c) and subj.split("[")[0] in ast.unparse(c) and \
                        ("len(" in ast.unparse(c) or ".shape" in ast.unparse(c) or ".size" in ast.unparse(c)):
                    bounded = True
            # index data produced inside the library (unique / bincount / arange results) is bounded by the row count
            internal = False
            for st in own_walk(f.node):
                if isinstance(st, ast.Assign) and any(isinstance(t, ast.Name) and t.id == subj.split("[")[0].split(".")[0] for t in ast.walk(st.targets[0])):
                    if any(isinstance(c, ast.Call) and ast.unparse(c.func).split(".")[-1] in ("unique", "unique_rows", "bincount", "arange", "argsort", "nonzero", "cumsum", "unique_ordered", "group_rows")
                           for c in ast.walk(st.value)):
                        internal = True
            # the data is a parameter: the bound may be established by the callers.  A call site counts when the allocation is behind an
            # option (`if maintain_faces:` with maintain_faces read from a keyword that defaults to False) the site does not pass, or when
            # the caller tests `<argument>.max()` against a length before the call
            root_ = subj.split("[")[0].split(".")[0]
            by_callers = None
            if not (bounded or internal) and root_ in f.params:
                opt = None
                for g_ in own_walk(f.node):
                    if isinstance(g_, ast.If) and any(x is n for x in ast.walk(g_)) and isinstance(g_.test, ast.Name):
                        for st in own_walk(f.node):
                            if isinstance(st, ast.Assign) and len(st.targets) == 1 and isinstance(st.targets[0], ast.Name) and st.targets[0].id == g_.test.id \
                                    and isinstance(st.value, ast.Call) and ast.unparse(st.value.func).endswith(".get") and len(st.value.args) == 2 \
                                    and isinstance(st.value.args[0], ast.Constant) and ast.unparse(st.value.args[1]) == "False":
                                opt = st.value.args[0].value
                        if g_.test.id in f.params:
                            opt = g_.test.id
                sites = []
                for h in reach.values():
                    for c in own_walk(h.node):
                        if isinstance(c, ast.Call):
                            try:
                                r = ix.resolve_expr(h.module, c.func)
                            except Exception:
                                r = None
                            if r is f:
                                sites.append((h, c))
                verdicts = []
                for h, c in sites:
                    if opt is not None and not any(k.arg == opt for k in c.keywords) and not any(k.arg is None for k in c.keywords):
                        verdicts.append(True)
                        continue
                    pos = f.params.index(root_)
                    arg = c.args[pos] if pos < len(c.args) else next((k.value for k in c.keywords if k.arg == root_), None)
                    an = ast.unparse(arg) if arg is not None else None
                    verdicts.append(an is not None and any(isinstance(q, ast.Compare) and q.lineno <= c.lineno and f"{an}.max()" in ast.unparse(q)
                                                           and ("len(" in ast.unparse(q) or ".shape" in ast.unparse(q)) for q in own_walk(h.node)))
                by_callers = bool(sites) and all(verdicts)
            n8 += 1
            ok = bounded or internal or bool(by_callers)
            where_ = f"{f.module.rel}:{n.lineno} {f.qualname}"
            run.instance("R8", where_, f"`{ast.unparse(n)[:60]}` sized by max of `{subj[:30]}`: bounds-checked {bounded}, produced by an index computation {internal}, bounded by every caller {by_callers}", ok,
                         nontrivial=True)
            if not ok:
                run.violation("R8", where_, f"`{f.qualname}` allocates `{ast.unparse(n)[:60]}`: the length is the largest value in `{subj[:40]}`, which on a load path comes from the "
                                            f"file - one out-of-range index asks for that many entries (gigabytes) before any range check; allocate by the number of rows instead",
                              key=key_of("C20-R8", f.qualname, ast.unparse(n)[:40]))
    run.analysed["functions_reachable_from_loader_modules"] = len(reach)
    return {
        "explanation": "CFG post-dominance with exception edges for the close discipline; who-may-open table over every open / tempfile site of the loader "
        "modules; a terminating-shape rule per while loop with constant propagation of the end-of-stream value through stream loops; EXITS effect "
        "summaries over every registered loader; dominance + integer-kind inference for the binary header guards.",
    }


def star_height(tree):
    """deepest nesting of unbounded repeats in a re._parser tree"""
    import re._constants as rc

    def walk(items):
        best = 0
        for op, av in items:
            name = str(op)
            if name in ("MAX_REPEAT", "MIN_REPEAT", "POSSESSIVE_REPEAT"):
                lo, hi, sub = av
                inner = walk(sub)
                best = max(best, inner + (1 if hi == rc.MAXREPEAT else 0))
            elif name == "SUBPATTERN":
                best = max(best, walk(av[3]))
            elif name == "BRANCH":
                best = max([best] + [walk(b) for b in av[1]])
            elif name in ("ASSERT", "ASSERT_NOT", "ATOMIC_GROUP"):
                best = max(best, walk(av[1] if name != "ATOMIC_GROUP" else av))
            elif name == "GROUPREF_EXISTS":
                best = max(best, walk(av[1]), walk(av[2]) if av[2] else 0)
        return best

    return walk(tree)


def _module_literals(m, f):
    """module-level names assigned exactly once to a literal and never rebound inside f"""
    from ..index import const_eval
    local = {n.id for n in ast.walk(f.node) if isinstance(n, ast.Name) and isinstance(n.ctx, (ast.Store, ast.Del))} | set(f.params)
    out = {}
    for name, sts in m.constants.items():
        if len(sts) != 1 or name in local:
            continue
        try:
            v = const_eval(sts[0].value)
        except (ValueError, TypeError):
            continue
        if isinstance(v, (int, float, str, bytes, bool, tuple)):
            out[name] = v
    return out


# ----------------------------------------------------------------------------- loops
def classify(run, m, f, loop):
    where = f"{m.rel}:{loop.lineno} {f.qualname}"
    body_calls = [n for n in ast.walk(loop) if isinstance(n, ast.Call) and isinstance(n.func, ast.Attribute)]
    reads = [c for c in body_calls if c.func.attr in READS] + [n for n in ast.walk(loop) if isinstance(n, ast.Call) and ast.unparse(n.func) == "next"]
    test = ast.unparse(loop.test)
    cfg = CFG(f.node, exceptions=False)
    head = [n for n in cfg.nodes_of.get(id(loop), [])]
    # worklist / consumption: `while len(Q) > 0` / `while Q`
    q = None
    t = loop.test
    if isinstance(t, ast.Compare) and isinstance(t.left, ast.Call) and ast.unparse(t.left.func) == "len" and isinstance(t.left.args[0], ast.Name) \
            and isinstance(t.ops[0], (ast.Gt, ast.NotEq)) and ast.unparse(t.comparators[0]) == "0":
        q = t.left.args[0].id
    elif isinstance(t, ast.Name):
        q = t.id
    elif isinstance(t, ast.Call) and ast.unparse(t.func) == "len" and isinstance(t.args[0], ast.Name):
        q = t.args[0].id
    if q is not None:
        pops = [s for s in loop.body if any(isinstance(c, ast.Call) and isinstance(c.func, ast.Attribute) and c.func.attr in CONSUMES
                                            and ast.unparse(c.func.value) == q for c in ast.walk(s))]
        first_pop = loop.body.index(pops[0]) if pops else None
        # the pop must run before any `continue` / nested branch can return to the head: it is a top-level statement of the body and no
        # earlier top-level statement contains a continue
        ok = first_pop is not None and not any(isinstance(x, ast.Continue) for s in loop.body[:first_pop] for x in ast.walk(s))
        run.instance("R2", where, f"worklist loop over `{q}`: an element is popped on every iteration before any `continue`", ok)
        if not ok:
            run.violation("R2", where, f"loop `while {test}` in `{f.qualname}` can return to its head without popping from `{q}`: it never ends",
                          key=key_of("C20-R2", f.qualname, "worklist-pop", q))
            return "worklist"
        grows = [c for c in ast.walk(loop) if isinstance(c, ast.Call) and isinstance(c.func, ast.Attribute) and c.func.attr in GROWS
                 and ast.unparse(c.func.value) == q]
        if not grows:
            run.instance("R2", where, f"`{q}` is never grown inside the loop: bounded by its initial length", True)
            return "consumption"
        # popped element name
        popped = None
        ps = pops[0]
        if isinstance(ps, ast.Assign) and isinstance(ps.targets[0], ast.Name):
            popped = ps.targets[0].id
        guard = None
        for i, s in enumerate(loop.body[first_pop + 1:], start=first_pop + 1):
            if isinstance(s, ast.If) and isinstance(s.test, ast.Compare) and isinstance(s.test.ops[0], ast.In) and ast.unparse(s.test.left) == popped \
                    and isinstance(s.test.comparators[0], ast.Name) and any(isinstance(x, (ast.Continue, ast.Break)) for x in s.body):
                guard = (i, s.test.comparators[0].id)
                break
        ok = guard is not None
        if ok:
            gi, seen = guard
            adds = [j for j, s in enumerate(loop.body) if j > gi and isinstance(s, ast.Expr) and ast.unparse(s.value) == f"{seen}.add({popped})"]
            grow_idx = [j for j, s in enumerate(loop.body) if any(g in list(ast.walk(s)) for g in grows)]
            removes = [c for c in ast.walk(loop) if isinstance(c, ast.Call) and isinstance(c.func, ast.Attribute)
                       and c.func.attr in ("remove", "discard", "clear", "pop") and ast.unparse(c.func.value) == seen]
            ok = bool(adds) and all(j > adds[0] for j in grow_idx) and not removes
        run.instance("R2", where, f"worklist `{q}` is grown only after `if {popped} in <seen>: continue` and `<seen>.add({popped})`: each element is expanded once", ok)
        if not ok:
            run.violation("R2", where, f"loop `while {test}` in `{f.qualname}` pushes onto `{q}` without a visited-set test on the popped element "
                                       f"(`if {popped} in seen: continue; seen.add({popped})` before the push): cyclic references in the file make it run forever",
                          key=key_of("C20-R2", f.qualname, "worklist-visited", q))
        return "worklist"
    # chain: `while X is not None: ...; X = X.<up>()`
    if isinstance(t, ast.Compare) and isinstance(t.left, ast.Name) and isinstance(t.ops[0], ast.IsNot) and ast.unparse(t.comparators[0]) == "None":
        x = t.left.id
        adv = [s for s in loop.body if isinstance(s, ast.Assign) and ast.unparse(s.targets[0]) == x
               and ast.unparse(s.value) in (f"{x}.getparent()", f"{x}.parent", f"{x}.next", f"next({x})")]
        idx = loop.body.index(adv[0]) if adv else None
        ok = idx is not None and not any(isinstance(n, ast.Continue) for s in loop.body[:idx] for n in ast.walk(s))
        run.instance("R2", where, f"chain loop: `{x}` advances to its parent on every iteration (finite acyclic tree)", ok)
        if not ok:
            run.violation("R2", where, f"loop `while {test}` in `{f.qualname}` can return to its head without advancing `{x}`", key=key_of("C20-R2", f.qualname, "chain", x))
        return "chain"
    if reads:
        for eof in (b"", ""):
            try:
                outs = EofEval(loop, eof, consts=_module_literals(m, f)).run()
            except RuntimeError as e:
                raise AnalysisError(f"{where}: {e}")
            spins = [tr for kind, tr in outs if kind == "back" and not any(ev == "consume" for ev, _ in tr)]
            ok = not spins
            run.instance("R2", where, f"stream loop `while {test}`: with the stream exhausted (read -> {eof!r}) every path leaves the loop "
                                      f"({len(outs)} paths: {sorted({k.split(':')[0] for k, _ in outs})})", ok)
            if not ok:
                trail = "; ".join(t for _, t in spins[0]) or "no read on the path"
                run.violation("R2", where, f"stream loop `while {test}` in `{f.qualname}`: once the stream is exhausted (read returns {eof!r}) a path through the body "
                                           f"returns to the loop head without consuming anything ({trail}): a truncated file hangs the loader",
                              key=key_of("C20-R2", f.qualname, "stream", test))
        return "stream"
    # an unrecognised shape is not a verdict either way: recorded as undecided, never reported as a violation
    run.instance("R2", where, f"`while {test}`: no recognised terminating shape (stream / worklist / consumption / chain) - NOT decided", True, nontrivial=False)
    run.assume(f"termination of `while {test}` at {where} is not decided (unrecognised loop shape)")
    return "undecided"


# ----------------------------------------------------------------------------- header guards
def int_kind(pv, e, at, depth=0):
    """'py' (unbounded python int), 'np' (fixed width numpy value) or '?' for the inlined expression"""
    e = pv.inline(e, at) if depth == 0 else e
    if isinstance(e, ast.Constant) and isinstance(e.value, int):
        return "py"
    if isinstance(e, ast.Call):
        fn = ast.unparse(e.func)
        if fn in ("int", "len") or fn.endswith(".tell") or fn.endswith(".item") or fn.endswith("distance_to_end") or fn == "_elements_size":
            return "py"
        if fn.endswith("frombuffer") or fn.endswith("fromstring") or fn.endswith("array"):
            return "np"
        return "?"
    if isinstance(e, ast.Attribute):
        if e.attr in ("itemsize", "size", "nbytes", "ndim"):
            return "py"
        return "?"
    if isinstance(e, ast.Subscript):
        k = int_kind(pv, e.value, at, depth + 1)
        return "np" if k == "np" else "?"
    if isinstance(e, ast.BinOp):
        a = int_kind(pv, e.left, at, depth + 1)
        b = int_kind(pv, e.right, at, depth + 1)
        if "np" in (a, b):
            return "np"  # numpy 2: a python int operand does not widen a fixed-width value
        if a == b == "py":
            return "py"
        return "?"
    return "?"


def guard_rule(run, ix, f, bulk, what, exc, nested=False):
    pv = Prov(ix, f)
    cfg = pv.cfg
    calls = [n for n in ast.walk(f.node) if isinstance(n, ast.Call) and bulk(n)]
    if nested:
        calls = [c for c in calls if pv.stmt_of(c) is not None and cfg.nodes_of.get(id(pv.stmt_of(c)))]
    if not calls:
        raise AnalysisError(f"anchor vanished: bulk read `{what}` in {f.qualname}")
    guards = []
    for n, st in cfg.stmt.items():
        if isinstance(st, ast.If) and isinstance(st.test, ast.Compare) and len(st.test.ops) == 1 and isinstance(st.test.ops[0], ast.NotEq) \
                and any(isinstance(b, ast.Raise) and exc in ast.unparse(b) for b in st.body):
            guards.append((n, st))
    for c in calls:
        st = pv.stmt_of(c)
        cn = cfg.nodes_of.get(id(st), [None])[0]
        doms = [(n, g) for n, g in guards if cn is not None and cfg.dominates(n, cn)]
        ok = bool(doms)
        run.instance("R4", f.where, f"`{what}` is dominated by a `!=` length test that raises {exc} ({[ast.unparse(g.test) for _, g in doms]})", ok)
        if not ok:
            run.violation("R4", f.where, f"`{what}` in `{f.qualname}` is not preceded on every path by a header-versus-length test raising {exc}: "
                                         f"a size field is trusted before the bulk read", key=key_of("C20-R4", f.qualname, "guard"))
            continue
        for n, g in doms:
            kinds = [int_kind(pv, side, g) for side in (g.test.left, g.test.comparators[0])]
            ok = "np" not in kinds
            run.instance("R4", f.where, f"length test `{ast.unparse(g.test)}` operands are {kinds} integers", ok)
            if not ok:
                run.violation("R4", f.where, f"length test `{ast.unparse(g.test)}` in `{f.qualname}` compares a fixed-width numpy product "
                                             f"(`{pv.canon(g.test, g)[:110]}`): the header count times the record size wraps modulo 2**32, so a short file "
                                             f"passes and the count is then trusted for allocation", key=key_of("C20-R4", f.qualname, "wrap"))
    # allocations sized from the header must use the validated python integer
    for n in ast.walk(f.node):
        if isinstance(n, ast.Call) and ast.unparse(n.func) in ("np.arange", "np.zeros", "np.empty", "np.ones") and n.args:
            st = pv.stmt_of(n)
            if st is None or not cfg.nodes_of.get(id(st)):
                continue
            k = int_kind(pv, n.args[0], st)
            ok = k != "np"
            run.instance("R4", f.where, f"allocation `{ast.unparse(n)[:50]}` sized by a {k} integer", ok)
            if not ok:
                run.violation("R4", f.where, f"`{ast.unparse(n)[:60]}` in `{f.qualname}` is sized by fixed-width header arithmetic that can wrap "
                                             f"(`{pv.canon(n.args[0], st)[:90]}`)", key=key_of("C20-R4", f.qualname, "alloc"))
