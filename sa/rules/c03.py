"""C03 - mass properties equal the exact integrals (polynomial identities).

The bodies of triangles.mass_properties / cross / area, inertia.transform_inertia
and Trimesh.moment_inertia_frame are translated node by node (E3) into sympy
polynomials over the coordinates of a symbolic tetrahedron / triangle and compared
with references obtained by exact integration over the simplex.  A closed,
consistently wound surface is a sum of boundaries of origin-free tetrahedra whose
shared faces cancel provided the per-triangle functional is antisymmetric under
orientation reversal and invariant under cyclic relabelling - both are obligations.
"""
from __future__ import annotations

import ast
import re
from math import factorial

import numpy as np
import sympy as sp

from ..alg import Interp, Namespace, Unsupported, arr, is_zero, symbols_array
from ..index import Index
from ..report import AnalysisError, key_of

LEVEL = "proof"

MONOMIALS = [(0, 0, 0), (1, 0, 0), (0, 1, 0), (0, 0, 1), (2, 0, 0), (0, 2, 0), (0, 0, 2), (1, 1, 0), (0, 1, 1), (1, 0, 1)]
MONO_NAMES = ["1", "x", "y", "z", "x^2", "y^2", "z^2", "xy", "yz", "xz"]


def simplex_integral(poly, uvw):
    """exact integral of a polynomial in u,v,w over the unit simplex (Dirichlet formula)"""
    P = sp.Poly(sp.expand(poly), *uvw)
    tot = sp.Integer(0)
    for (a, b, c), coeff in P.terms():
        tot += coeff * sp.Rational(factorial(a) * factorial(b) * factorial(c), factorial(a + b + c + 3))
    return tot


def tetra_reference(P):
    """exact integrals of the ten monomials over the tetrahedron with vertex rows P (4,3),
    signed by its orientation (det of the edge matrix)"""
    u, v, w = sp.symbols("u v w")
    J = sp.Matrix([[P[1][k] - P[0][k], P[2][k] - P[0][k], P[3][k] - P[0][k]] for k in range(3)])
    det = J.det()
    pos = [P[0][k] + J[k, 0] * u + J[k, 1] * v + J[k, 2] * w for k in range(3)]
    out = []
    for (a, b, c) in MONOMIALS:
        f = pos[0] ** a * pos[1] ** b * pos[2] ** c
        out.append(sp.expand(det * simplex_integral(f, (u, v, w))))
    return out, det


def tol_namespace():
    return Namespace("ToleranceMesh", zero=sp.Symbol("tol_zero", positive=True), merge=sp.Symbol("tol_merge", positive=True),
                     planar=sp.Symbol("tol_planar", positive=True), strict=False)


def check(run):
    ix = Index(run.repo)
    run.analysed.update(ix.stats())
    run.rule("O1", "sum over the four outward faces of a symbolic tetrahedron of the k-th accumulator / divisor == exact integral of the k-th monomial (x det)")
    run.rule("O2", "each accumulator is antisymmetric under orientation reversal and invariant under cyclic relabelling of the triangle")
    run.rule("O3", "assembly: volume, mass, centre of mass and the inertia tensor about the centre of mass from the ten integrals; linear in density")
    run.rule("O4", "an overridden centre of mass is returned and used in the parallel-axis terms")
    run.rule("O5", "triangles.cross == (b-a)x(c-a) and area^2 == |cross|^2 / 4")
    run.rule("O6", "transform_inertia: rotation law and parallel-axis law; moment_inertia_frame == inertia about the frame origin in frame axes")
    run.rule("O7", "Trimesh forwards: mass_properties/area/volume/center_mass/moment_inertia read the same triangles, cross products and overrides")

    f_mp = ix.func("trimesh.triangles:mass_properties")
    f_cross = ix.func("trimesh.triangles:cross")
    f_area = ix.func("trimesh.triangles:area")
    f_ti = ix.func("trimesh.inertia:transform_inertia")
    f_frame = ix.func("trimesh.base:Trimesh.moment_inertia_frame")

    consts = {"trimesh.constants.tol": tol_namespace()}
    tol_syms = {v for v in consts["trimesh.constants.tol"].__dict__.values() if isinstance(v, sp.Basic)}
    decisions = {}
    assumptions = set()
    degenerate_tests = []

    def decider(frame, test):
        """`|volume| < threshold` guards: generic position (branch not taken) is a legitimate assumption only when
        the threshold is a constant tolerance; a threshold that depends on the input makes the degenerate branch
        reachable for valid solids"""
        # (the guard may sit in mass_properties itself or in a private helper it was split into: any function of triangles.py reached from it)
        if frame.fi.module.name != "trimesh.triangles" or not (isinstance(test, ast.Compare) and len(test.ops) == 1):
            return None
        lhs, rhs = frame.ev(test.left), frame.ev(test.comparators[0])
        small, bound = (lhs, rhs) if isinstance(test.ops[0], (ast.Lt, ast.LtE)) else (rhs, lhs)
        if not isinstance(test.ops[0], (ast.Lt, ast.LtE, ast.Gt, ast.GtE)):
            return None
        if not (isinstance(small, sp.Basic) and small.has(sp.Abs)):
            return None
        free = set(sp.sympify(bound).free_symbols) if isinstance(bound, sp.Basic) else {x for e in np.asarray(bound, dtype=object).flat for x in sp.sympify(e).free_symbols}
        constant = free <= tol_syms
        degenerate_tests.append((ast.unparse(test), constant, test.lineno))
        return isinstance(test.ops[0], (ast.Gt, ast.GtE)) if False else (not isinstance(test.ops[0], (ast.Lt, ast.LtE)))

    def interp(overrides=None):
        it = Interp(ix, decisions=decisions, overrides=overrides or {}, symbols=dict(consts))
        it.decider = decider
        return it

    def oblig(rule, where, what, expr):
        try:
            ok = is_zero(expr)
        except Exception as e:  # noqa
            raise AnalysisError(f"normal form failed for {what}: {e}")
        run.obligation(rule, where, what, ok)
        return ok

    # ---------------------------------------------------------------- O1
    P = symbols_array("p", (4, 3))
    faces = [(0, 2, 1), (0, 1, 3), (0, 3, 2), (1, 2, 3)]
    T = np.empty((4, 3, 3), dtype=object)
    for i, f in enumerate(faces):
        for j, v in enumerate(f):
            T[i, j, :] = P[v]
    ref, det = tetra_reference(P.tolist())
    M = np.array([sp.Symbol(f"M{k}") for k in range(10)], dtype=object)
    it = interp({("mass_properties", "integrated"): M})
    try:
        res = it.call(f_mp, [T], {"density": sp.Symbol("rho")})
    except Unsupported as e:
        raise AnalysisError(f"E3 cannot translate triangles.mass_properties: {e}")
    assumptions.update(it.assumptions)
    integrated = it.captured.get(("mass_properties", "integrated"))
    if integrated is None or len(integrated) != 10:
        raise AnalysisError("anchor vanished: `integrated` (ten accumulators) in triangles.mass_properties")
    for k in range(10):
        ok = oblig("O1", f_mp.where, f"integral of {MONO_NAMES[k]} over the tetrahedron", integrated[k] - ref[k])
        if not ok:
            run.violation("O1", f_mp.where,
                          f"accumulator {k} summed over the faces of a tetrahedron is not the exact integral of {MONO_NAMES[k]} "
                          f"(divisor or sub-expression wrong)", key=key_of("C03-O1", k))

    # ---------------------------------------------------------------- O3 assembly (uses M symbols)
    rho = sp.Symbol("rho")
    Q = sp.Matrix([[M[4], M[7], M[9]], [M[7], M[5], M[8]], [M[9], M[8], M[6]]])

    def inertia_ref(c, density):
        c = sp.Matrix(c)
        I3 = sp.eye(3)
        return density * ((Q.trace() * I3 - Q) - M[0] * ((c.T * c)[0] * I3 - c * c.T))

    def check_assembly(res, density, c_expected, tag, rule):
        bad = []
        if not oblig(rule, f_mp.where, f"{tag}: volume == M0", res.volume - M[0]):
            bad.append("volume")
        if not oblig(rule, f_mp.where, f"{tag}: mass == density * volume", res.mass - density * M[0]):
            bad.append("mass")
        if not oblig(rule, f_mp.where, f"{tag}: density reported", sp.sympify(res.density) - density):
            bad.append("density")
        cm = arr(res.center_mass)
        for i in range(3):
            if not oblig(rule, f_mp.where, f"{tag}: center_mass[{i}]", cm[i] - c_expected[i]):
                bad.append(f"center_mass[{i}]")
        Iref = inertia_ref(c_expected, density)
        I = arr(res.inertia)
        for i in range(3):
            for j in range(3):
                if not oblig(rule, f_mp.where, f"{tag}: inertia[{i},{j}]", I[i, j] - Iref[i, j]):
                    bad.append(f"inertia[{i},{j}]")
        for b in bad:
            run.violation(rule, f_mp.where, f"{tag}: `{b}` is not assembled from the integrals as the exact law requires",
                          key=key_of("C03-" + rule, tag, b))

    c_nat = [M[1] / M[0], M[2] / M[0], M[3] / M[0]]
    check_assembly(res, rho, c_nat, "density given", "O3")
    it2 = interp({("mass_properties", "integrated"): M})
    res2 = it2.call(f_mp, [T], {})
    check_assembly(res2, sp.Integer(1), c_nat, "default density", "O3")
    # skip_inertia path returns the same scalar fields
    it3 = interp({("mass_properties", "integrated"): M})
    res3 = it3.call(f_mp, [T], {"density": rho, "skip_inertia": True})
    ok = is_zero(res3.volume - M[0]) and is_zero(res3.mass - rho * M[0]) and res3.inertia is None
    run.obligation("O3", f_mp.where, "skip_inertia: volume/mass as before, inertia omitted", ok)
    if not ok:
        run.violation("O3", f_mp.where, "skip_inertia path changes volume or mass", key=key_of("C03-O3", "skip"))
    # ---------------------------------------------------------------- O4 override
    c_over = [sp.Symbol(f"c{i}") for i in range(3)]
    it4 = interp({("mass_properties", "integrated"): M})
    res4 = it4.call(f_mp, [T], {"density": rho, "center_mass": np.array(c_over, dtype=object)})
    check_assembly(res4, rho, c_over, "centre of mass overridden", "O4")

    # ---------------------------------------------------------------- O2 per-triangle symmetry
    A = symbols_array("t", (3, 3))

    def per_triangle(order):
        Tt = np.empty((1, 3, 3), dtype=object)
        for j, v in enumerate(order):
            Tt[0, j, :] = A[v]
        itx = interp({("mass_properties", "integrated"): M})
        itx.call(f_mp, [Tt], {"skip_inertia": True})
        return itx.captured[("mass_properties", "integrated")]

    base = per_triangle((0, 1, 2))
    rev = per_triangle((0, 2, 1))
    cyc = per_triangle((1, 2, 0))
    for k in range(10):
        ok = oblig("O2", f_mp.where, f"accumulator {k} ({MONO_NAMES[k]}): I(a,c,b) == -I(a,b,c)", rev[k] + base[k])
        if not ok:
            run.violation("O2", f_mp.where, f"accumulator {k} is not antisymmetric under orientation reversal: shared faces would not cancel",
                          key=key_of("C03-O2", "antisym", k))
        ok = oblig("O2", f_mp.where, f"accumulator {k} ({MONO_NAMES[k]}): I(b,c,a) == I(a,b,c)", cyc[k] - base[k])
        if not ok:
            run.violation("O2", f_mp.where, f"accumulator {k} depends on which vertex of the triangle is listed first",
                          key=key_of("C03-O2", "cyclic", k))

    # ---------------------------------------------------------------- O5 cross / area
    Tt = np.empty((1, 3, 3), dtype=object)
    Tt[0] = A
    itc = interp()
    cr = arr(itc.call(f_cross, [Tt]))
    a_, b_, c_ = [sp.Matrix(A[i].tolist()) for i in range(3)]
    cref = (b_ - a_).cross(c_ - a_)
    for i in range(3):
        ok = oblig("O5", f_cross.where, f"cross[{i}] == ((b-a)x(c-a))[{i}]", cr[0, i] - cref[i])
        if not ok:
            run.violation("O5", f_cross.where, f"triangles.cross component {i} is not the edge cross product", key=key_of("C03-O5", "cross", i))
    X = symbols_array("x", (1, 3))
    ita = interp()
    ar = arr(ita.call(f_area, [], {"crosses": X}))
    ok = oblig("O5", f_area.where, "area(crosses)^2 * 4 == |cross|^2", sp.expand(ar[0] ** 2 * 4) - (X[0, 0] ** 2 + X[0, 1] ** 2 + X[0, 2] ** 2))
    if not ok:
        run.violation("O5", f_area.where, "triangles.area is not half the norm of the cross product", key=key_of("C03-O5", "area"))
    ita2 = interp()
    ar2 = arr(ita2.call(f_area, [Tt]))
    ok = oblig("O5", f_area.where, "area(triangles)^2 * 4 == |(b-a)x(c-a)|^2", sp.expand(ar2[0] ** 2 * 4) - sp.expand(cref.dot(cref)))
    if not ok:
        run.violation("O5", f_area.where, "triangles.area(triangles) does not use the triangle's own cross product", key=key_of("C03-O5", "area-tri"))

    # ---------------------------------------------------------------- O6 transform_inertia
    R = symbols_array("r", (3, 3))
    Isym = np.empty((3, 3), dtype=object)
    names = {}
    for i in range(3):
        for j in range(3):
            Isym[i, j] = sp.Symbol(f"I{min(i, j)}{max(i, j)}")
    a = [sp.Symbol(f"a{i}") for i in range(3)]
    m = sp.Symbol("m")
    Rm, Im = sp.Matrix(R.tolist()), sp.Matrix(Isym.tolist())
    # (a) pure rotation of a body: R I R^T
    iti = interp()
    out = arr(iti.call(f_ti, [R, Isym]))
    refm = Rm * Im * Rm.T
    bad = [(i, j) for i in range(3) for j in range(3) if not oblig("O6", f_ti.where, f"rotation law [{i},{j}]", out[i, j] - refm[i, j])]
    if bad:
        run.violation("O6", f_ti.where, f"transform_inertia(parallel_axis=False) is not R I R^T (entries {bad})", key=key_of("C03-O6", "rotation"))
    # (b) parallel axis with a 4x4 transform
    T4 = np.empty((4, 4), dtype=object)
    T4[...] = sp.Integer(0)
    T4[:3, :3] = R
    T4[:3, 3] = a
    T4[3, 3] = sp.Integer(1)
    itp = interp()
    out = arr(itp.call(f_ti, [T4, Isym], {"parallel_axis": True, "mass": m}))
    av = sp.Matrix(a)
    refm = Rm.T * (Im + m * ((av.T * av)[0] * sp.eye(3) - av * av.T)) * Rm
    bad = [(i, j) for i in range(3) for j in range(3) if not oblig("O6", f_ti.where, f"parallel axis law [{i},{j}]", out[i, j] - refm[i, j])]
    if bad:
        run.violation("O6", f_ti.where, f"transform_inertia(parallel_axis=True) is not R^T (I + m(|a|^2 1 - a a^T)) R (entries {bad})",
                      key=key_of("C03-O6", "parallel"))
    # (c) 3x3 transform with parallel axis: no translation
    itq = interp()
    out = arr(itq.call(f_ti, [R, Isym], {"parallel_axis": True, "mass": m}))
    refm = Rm.T * Im * Rm
    bad = [(i, j) for i in range(3) for j in range(3) if not oblig("O6", f_ti.where, f"3x3 frame [{i},{j}]", out[i, j] - refm[i, j])]
    if bad:
        run.violation("O6", f_ti.where, "transform_inertia with a 3x3 frame and parallel_axis adds a translation term", key=key_of("C03-O6", "parallel3"))
    # (d) end to end: moment_inertia_frame(T) == inertia about frame origin t in frame axes, from raw second moments
    S2 = sp.Matrix(3, 3, lambda i, j: sp.Symbol(f"S{min(i, j)}{max(i, j)}"))  # integral rho r r^T
    c = sp.Matrix([sp.Symbol(f"k{i}") for i in range(3)])  # centre of mass
    t = sp.Matrix(a)
    I_c = (S2.trace() - m * (c.T * c)[0]) * sp.eye(3) - (S2 - m * c * c.T)
    # every field of the record is present (mass and volume are different symbols: the density need not be one)
    props = Namespace("MassProperties", center_mass=np.array(list(c), dtype=object), inertia=np.array(I_c.tolist(), dtype=object), mass=m,
                      volume=sp.Symbol("vol", positive=True), density=sp.Symbol("rho", positive=True))
    selfobj = Namespace("Trimesh", mass_properties=props)
    itf = interp()
    try:
        out = arr(itf.call(f_frame, [selfobj, T4]))
    except Unsupported as e:
        raise AnalysisError(f"E3 cannot translate Trimesh.moment_inertia_frame: {e}")
    S_t = S2 - m * (c * t.T + t * c.T) + m * t * t.T  # integral rho (r-t)(r-t)^T
    I_t = S_t.trace() * sp.eye(3) - S_t
    refm = Rm.T * I_t * Rm
    bad = [(i, j) for i in range(3) for j in range(3)
           if not oblig("O6", f_frame.where, f"frame inertia [{i},{j}] from raw second moments", out[i, j] - refm[i, j])]
    if bad:
        run.violation("O6", f_frame.where,
                      f"moment_inertia_frame is not the inertia about the frame origin expressed in frame axes (entries {bad})",
                      key=key_of("C03-O6", "frame"))

    # ---------------------------------------------------------------- degenerate-volume guard
    run.rule("O8", "the zero-volume fallback is guarded by a constant tolerance only (not by a quantity derived from the input)")
    seen = set()
    for txt, constant, line in degenerate_tests:
        if txt in seen:
            continue
        seen.add(txt)
        run.obligation("O8", f"{f_mp.module.rel}:{line} mass_properties", f"guard `{txt}` compares |volume| with a constant tolerance", constant)
        if not constant:
            run.violation("O8", f"{f_mp.module.rel}:{line} mass_properties",
                          f"the degenerate-volume branch `{txt}` uses a threshold that depends on the input: valid closed solids "
                          f"(small volume relative to that quantity) get the fallback centre of mass instead of the exact integral",
                          key=key_of("C03-O8", "data-dependent-threshold"))
    if not seen:
        raise AnalysisError("anchor vanished: `np.abs(volume) < tol.zero` guard in triangles.mass_properties")

    # ---------------------------------------------------------------- O9 the polynomials are evaluated in float64
    run.rule("O9", "mass_properties / area evaluate their polynomials on a float64 copy of the input: every arithmetic use of `triangles` sees the dtype=float64 conversion")
    from ..provenance import Prov
    for spec, pname in (("trimesh.triangles:mass_properties", "triangles"),):
        f_ = ix.func(spec)
        pv = Prov(ix, f_)
        n9 = 0
        for n in ast.walk(f_.node):
            if not (isinstance(n, ast.Name) and n.id == pname and isinstance(n.ctx, ast.Load)):
                continue
            st = pv.stmt_of(n)
            if st is None or not pv.cfg.nodes_of.get(id(st)):
                continue
            ds = pv.defs_at(st, pname) or []
            # the conversion statement itself reads the raw argument
            if isinstance(st, ast.Assign) and isinstance(st.targets[0], ast.Name) and st.targets[0].id == pname and isinstance(st.value, ast.Call) \
                    and ast.unparse(st.value.func) in ("np.asanyarray", "np.asarray", "np.array", "np.ascontiguousarray"):
                continue
            n9 += 1
            conv = []
            for d in ds:
                dst = pv.cfg.stmt[d] if d != pv.cfg.entry else None
                ok_d = isinstance(dst, ast.Assign) and isinstance(dst.value, ast.Call) and ast.unparse(dst.value.func) in ("np.asanyarray", "np.asarray", "np.array", "np.ascontiguousarray") \
                    and any(k.arg == "dtype" and ast.unparse(k.value) in ("np.float64", "float64", "float") for k in dst.value.keywords)
                conv.append(ok_d)
            ok = bool(conv) and all(conv)
            run.obligation("O9", f"{f_.module.rel}:{n.lineno} {f_.qualname}", f"`{pname}` used at line {n.lineno} is the float64 conversion of the argument", ok)
            if not ok:
                run.violation("O9", f_.where, f"`{f_.qualname}` uses `{pname}` at line {n.lineno} without a dtype=float64 conversion reaching it: integer or float32 input is "
                                              f"pushed through cubic polynomials in its own dtype (wrap-around / 1e-6 relative error), so the integrals are not the exact ones",
                              key=key_of("C03-O9", f_.qualname, "dtype"))
                break
        run.floor(f"uses of `{pname}` in {f_.qualname}", n9, 3)
    f_ar = ix.func("trimesh.triangles:area")
    pva = Prov(ix, f_ar)
    cr = [(st, st.value) for st in ast.walk(f_ar.node) if isinstance(st, ast.Assign) and isinstance(st.targets[0], ast.Name) and st.targets[0].id == "crosses"]
    okc = bool(cr)
    for st, v in cr:
        txt = pva.canon(v, st, strip=False)
        okc = okc and ("dtype=numpy.float64" in txt or "dtype=float" in txt)
    f_cr = ix.func("trimesh.triangles:cross")
    cross_converts = any(isinstance(st, ast.Assign) and isinstance(st.value, ast.Call) and ast.unparse(st.value.func) in ("np.asanyarray", "np.asarray", "np.array")
                         and any(k.arg == "dtype" and "float64" in ast.unparse(k.value) for k in st.value.keywords) for st in ast.walk(f_cr.node))
    ok = okc or cross_converts
    run.obligation("O9", f_ar.where, f"area(): cross products are taken of a float64 conversion (in area: {okc}; inside cross: {cross_converts})", ok)
    if not ok:
        run.violation("O9", f_ar.where, "triangles.area computes cross products in the caller's dtype", key=key_of("C03-O9", "area", "dtype"))

    # ---------------------------------------------------------------- O7 forwards
    _forwards(run, ix)

    # ---------------------------------------------------------------- O10 the overrides are the mesh's own objects
    run.rule("O10", "override setters store their own copy: the array kept as `center_mass` is built by a copying constructor, not the caller's array "
                    "(an array the caller can still write to changes the override behind the content hash: the centre reported and the cached "
                    "mass / inertia then belong to different overrides)")
    import re as _re

    from ..idioms import keyed_stores
    T_ = ix.cls("trimesh.base.Trimesh")
    n10 = 0
    for name_ in ("center_mass",):
        st_ = T_.setters.get(name_)
        if st_ is None:
            continue
        for key_, val_, where_ in keyed_stores(ix, st_, container=f"{st_.params[0]}._data", strip=False):
            if key_ != name_:
                continue
            n10 += 1
            fresh = (_re.match(r"numpy\.array\(", val_) and "copy=False" not in val_) or val_.endswith(".copy()") \
                or _re.match(r"(numpy\.copy|copy\.deepcopy|copy\.copy)\(", val_)
            alias = _re.fullmatch(r"(?:numpy\.(?:asanyarray|asarray|ascontiguousarray|require|asfarray)\()?P_\w+(?:, [^()]*)?\)?", val_) is not None \
                or (_re.match(r"numpy\.array\(", val_) and "copy=False" in val_)
            if fresh:
                run.instance("O10", where_, f"`{name_}` override stored as a copy: `{val_[:80]}`", True)
            elif alias:
                run.instance("O10", where_, f"`{name_}` override stored as `{val_[:80]}`", False)
                run.violation("O10", where_, f"the `{name_}` setter stores `{val_[:90]}`: for a float64 array that is the caller's own array (no copy), so a later "
                                             f"write by the caller changes the override without the mesh noticing - center_mass and the cached mass "
                                             f"properties then disagree", key=key_of("C03-O10", name_, "alias"))
            else:
                run.instance("O10", where_, f"`{name_}` override stored as `{val_[:80]}` - form not recognised, NOT decided", True, nontrivial=False)
                run.assume(f"{name_} setter: stored value `{val_[:60]}` not classified as copy or alias")
    if n10 == 0:
        run.instance("O10", T_.where, "no store of the center_mass override found in its setter - NOT decided", True, nontrivial=False)
        run.assume("center_mass setter: store of the override not found (shape not recognised)")

    for a_ in sorted(assumptions | set(it.assumptions) | set(itf.assumptions)):
        run.assume(a_)
    run.assume("real arithmetic (floating-point rounding is outside the claim)")
    run.assume("closed consistently wound surface = integer 2-cycle; decomposition into tetrahedra coned from a point, "
               "interior faces cancel by O2 (antisymmetry + cyclic invariance)")
    run.floor("obligations", run.obligations, 100)
    return {
        "explanation": "Polynomial-identity proof: E3 translates the AST of triangles.mass_properties, cross, area, "
        "inertia.transform_inertia and Trimesh.moment_inertia_frame into sympy polynomials; each obligation is "
        "expand(lhs - rhs) == 0 against references from exact simplex integration. Covers every closed oriented mesh "
        "by linearity + cancellation (O2). Floating-point rounding and the |volume| < tol.zero branch are outside the claim.",
        "trusted_base": ["sympy expand/Poly/together normal forms", "E3 transfer functions in sa/alg.py (numpy object arrays as tensor container)",
                         "Dirichlet formula for monomial integrals over the unit simplex",
                         "chain-decomposition argument stated in DESIGN.md C03"],
        "checker_cmd": f"./check C03 --tier {run.tier}",
    }


def _forwards(run, ix):
    """structural: the Trimesh properties hand the same triangles / crosses / overrides to the checked functions"""
    f = ix.func("trimesh.base:Trimesh.mass_properties")
    call = None
    for n in ast.walk(f.node):
        if isinstance(n, ast.Call) and ast.unparse(n.func) == "triangles.mass_properties":
            call = n
    if call is None:
        raise AnalysisError("anchor vanished: triangles.mass_properties(...) call in Trimesh.mass_properties")
    from ..provenance import Prov
    pv = Prov(ix, f)

    def norm(t):
        # dict.get(k, None) is dict.get(k)
        return re.sub(r"\.get\(('[^']*'), None\)", r".get(\1)", t) if t is not None else t

    callee, pos, kws = pv.canon_call(call, pv.stmt_of(call))
    pnames = ix.func("trimesh.triangles:mass_properties").params
    for i, v in enumerate(pos):
        if i < len(pnames):
            kws.setdefault(pnames[i], v)
    expect = {
        "triangles": ["P_self.triangles"],
        "crosses": ["P_self.triangles_cross"],
        "density": ["P_self._data.data.get('density')", "P_self._data.get('density')", "P_self._data['density']"],
        "center_mass": ["P_self._data.data.get('center_mass')", "P_self._data.get('center_mass')", "P_self._data['center_mass']"],
    }
    for k, allowed in expect.items():
        v = norm(kws.get(k))
        ok = v in allowed
        run.obligation("O7", f.where, f"mass_properties passes {k}={v}", ok)
        if not ok:
            run.violation("O7", f.where, f"Trimesh.mass_properties hands `{k}={v}` to triangles.mass_properties (expected one of {allowed})",
                          key=key_of("C03-O7", "mp", k))
    sk = kws.get("skip_inertia", "False")
    ok = sk == "False"
    run.obligation("O7", f.where, f"skip_inertia={sk}", ok)
    if not ok:
        run.violation("O7", f.where, "Trimesh.mass_properties skips the inertia tensor", key=key_of("C03-O7", "skip"))
    simple = {
        "trimesh.base:Trimesh.triangles_cross": ["trimesh.triangles.cross(P_self.triangles)", "trimesh.triangles.cross(triangles=P_self.triangles)"],
        "trimesh.base:Trimesh.area_faces": ["trimesh.triangles.area(crosses=P_self.triangles_cross)", "trimesh.triangles.area(P_self.triangles)",
                                            "trimesh.triangles.area(triangles=P_self.triangles)",
                                            "trimesh.triangles.area(crosses=P_self.triangles_cross, triangles=P_self.triangles)"],
        "trimesh.base:Trimesh.volume": ["P_self.mass_properties.volume", "P_self.mass_properties['volume']"],
        "trimesh.base:Trimesh.mass": ["P_self.mass_properties.mass", "P_self.mass_properties['mass']"],
        "trimesh.base:Trimesh.center_mass": ["P_self.mass_properties.center_mass", "P_self.mass_properties['center_mass']"],
        "trimesh.base:Trimesh.moment_inertia": ["P_self.mass_properties.inertia", "P_self.mass_properties['inertia']"],
        "trimesh.base:Trimesh.triangles": ["P_self.vertices.view(numpy.ndarray)[P_self.faces]", "P_self.vertices[P_self.faces]"],
    }
    for spec, allowed in simple.items():
        fi = ix.func(spec)
        pf = Prov(ix, fi)
        rets = [pf.canon(r.value, r) for r in ast.walk(fi.node) if isinstance(r, ast.Return) and r.value is not None and pf.stmt_of_return(r) is not None]
        ok = len(rets) >= 1 and all(r in allowed for r in rets)
        run.obligation("O7", fi.where, f"returns {rets}", ok)
        if not ok:
            run.violation("O7", fi.where, f"{spec.split(':')[1]} returns {rets}; expected the forward {allowed[0]}", key=key_of("C03-O7", spec))
    fi = ix.func("trimesh.base:Trimesh.area")
    pf = Prov(ix, fi)
    rets = [pf.canon(r.value, r) for r in ast.walk(fi.node) if isinstance(r, ast.Return) and r.value is not None]
    ok = bool(rets) and all(r in ("P_self.area_faces.sum()", "numpy.sum(P_self.area_faces)", "sum(P_self.area_faces)") for r in rets)
    run.obligation("O7", fi.where, "area == sum of face areas", ok)
    if not ok:
        run.violation("O7", fi.where, "Trimesh.area is not the sum of area_faces", key=key_of("C03-O7", "area"))
