"""C06 - row grouping primitives (narrow): the bit-packing of integer rows in
`grouping.hashable_rows` is injective for every admitted value and column count,
no intermediate leaves its integer dtype, the void fallback views exactly the row
bytes, and every row-grouping entry point reaches row equality only through it.

Abstract interpretation over integer intervals of the packing block (values are
never enumerated): column count ranges over the guard's admitted set, element
values over the interval the range guard admits.
"""
from __future__ import annotations

import ast
import re
import math

from ..index import Index
from ..interval import Interp, Iv as IIv, Path
from ..report import AnalysisError, key_of

LEVEL = "other"

def _find_pack_block(fn):
    """the `if ... shape[1] <= K:` block that contains the range guard"""
    for st in fn.body:
        if isinstance(st, ast.If) and "shape[1]" in ast.unparse(st.test):
            for inner in ast.walk(st):
                if isinstance(inner, ast.If) and inner is not st and "d_m" in ast.unparse(inner.test) or (
                    isinstance(inner, ast.If) and inner is not st and any(isinstance(x, ast.For) for x in inner.body)
                ):
                    return st, inner
    return None, None


def _expand_shape_aliases(fnode):
    """a local bound once to a shape read (`cols = a.shape[1]`, `nd = a.ndim`) is replaced by that read at every use, so
    that the tests the packing depends on are about the array again (in place: the rewrite keeps behaviour)"""
    import copy

    stores = {}
    for n in ast.walk(fnode):
        if isinstance(n, ast.Name) and isinstance(n.ctx, (ast.Store, ast.Del)):
            stores[n.id] = stores.get(n.id, 0) + 1
    alias = {}
    for st in fnode.body:
        if isinstance(st, ast.Assign) and len(st.targets) == 1 and isinstance(st.targets[0], ast.Name) and stores.get(st.targets[0].id) == 1:
            t = ast.unparse(st.value).replace(" ", "")
            if re.fullmatch(r"[A-Za-z_]\w*\.(shape\[[01]\]|ndim)|len\([A-Za-z_]\w*\.shape\)", t):
                base = t.split(".")[0].replace("len(", "")
                if stores.get(base, 0) <= 1:  # the array itself is not rebound afterwards
                    alias[st.targets[0].id] = st.value
    if not alias:
        return

    class R(ast.NodeTransformer):
        def visit_Name(self, node):
            if isinstance(node.ctx, ast.Load) and node.id in alias:
                return ast.copy_location(copy.deepcopy(alias[node.id]), node)
            return node

    for i, st in enumerate(fnode.body):
        fnode.body[i] = R().visit(st)


def _admitted_columns(test):
    """parse `... and X.shape[1] <= K` / `< K` / `== K` -> sorted list of column counts (>=1)"""
    conj = test.values if isinstance(test, ast.BoolOp) and isinstance(test.op, ast.And) else [test]
    for c in conj:
        if isinstance(c, ast.Compare) and len(c.ops) == 1 and "shape[1]" in ast.unparse(c.left):
            k = c.comparators[0]
            if isinstance(k, ast.Constant) and isinstance(k.value, int):
                if isinstance(c.ops[0], ast.LtE):
                    return list(range(1, k.value + 1))
                if isinstance(c.ops[0], ast.Lt):
                    return list(range(1, k.value))
                if isinstance(c.ops[0], ast.Eq):
                    return [k.value]
    return None


def _packed_array(fi):
    for st in fi.node.body:
        if isinstance(st, ast.Assign) and isinstance(st.value, ast.Call) and "float_to_int" in ast.unparse(st.value.func):
            return st.targets[0].id
    raise AnalysisError("anchor vanished: `as_int = float_to_int(...)` in hashable_rows")


def _seed(fi, it, p0, outer):
    """initial abstract state at the packing block: the packed array is any int64 array"""
    arr = _packed_array(fi)
    p0.env[arr] = IIv(-(2**63), 2**63 - 1, "int64")
    return p0


def _static_test(test, cols, ndim):
    """three-valued evaluation of a test that only inspects the array's shape"""
    if isinstance(test, ast.BoolOp):
        vals = [_static_test(v, cols, ndim) for v in test.values]
        if isinstance(test.op, ast.And):
            if any(v is False for v in vals):
                return False
            return True if all(v is True for v in vals) else None
        if any(v is True for v in vals):
            return True
        return False if all(v is False for v in vals) else None
    if isinstance(test, ast.Compare) and len(test.ops) == 1 and isinstance(test.comparators[0], ast.Constant):
        left = ast.unparse(test.left).replace(" ", "")
        k = test.comparators[0].value
        val = None
        if left.startswith("len(") and left.endswith(".shape)"):
            val = ndim
        elif left.endswith(".shape[1]"):
            val = cols
        elif left.endswith(".ndim"):
            val = ndim
        if val is None or not isinstance(k, int):
            return None
        import operator as o

        fn = {ast.Eq: o.eq, ast.NotEq: o.ne, ast.Lt: o.lt, ast.LtE: o.le, ast.Gt: o.gt, ast.GtE: o.ge}.get(type(test.ops[0]))
        return fn(val, k) if fn else None
    return None


def check(run):
    ix = Index(run.repo)
    run.analysed.update(ix.stats())
    fi = ix.func("trimesh.grouping:hashable_rows")
    mod = fi.module
    run.rule("R1", "on every path, range guard => every shifted field lies inside its own bit range (fields disjoint)")
    run.rule("R2", "no integer-array intermediate of a bit packing leaves its dtype (no wrap-around, no OverflowError), in any function of grouping.py")
    run.rule("R3", "top bit used by the packed word <= 63")
    run.rule("R4", "the void-dtype fallback views exactly cols*itemsize bytes per row; packing returns only under its range guard")
    run.rule("R5", "row-grouping entry points reach row equality only through hashable_rows")
    run.rule("R6", "float_to_int returns int64 on every path (the packing arithmetic assumes it)")

    for _once in (0,):
        _expand_shape_aliases(fi.node)
        outer, inner = _find_pack_block(fi.node)
        if outer is None:
            # the packing was re-shaped beyond what the interval interpreter is anchored on (helper returning None when the values do not fit,
            # inverted range guard ...): not a verdict either way
            for r_ in ("R1", "R2", "R3", "R4"):
                run.instance(r_, fi.where, "bit-packing block of hashable_rows not in the recognised form (`if ... shape[1] <= K:` holding the range guard) - NOT decided", True, nontrivial=False)
            run.assume("hashable_rows: bit-packing block not recognised; R1-R4 not decided on this tree")
            break
        cols_list = _admitted_columns(outer.test)
        if not cols_list:
            raise AnalysisError(f"cannot read admitted column counts from `{ast.unparse(outer.test)}`")
        early = []
        for st in fi.node.body:
            if st is outer:
                break
            if isinstance(st, ast.If) and any(isinstance(x, ast.Return) for x in st.body) and not st.orelse:
                for c in list(cols_list):
                    if _static_test(st.test, cols=c, ndim=2) is True:
                        early.append(c)
        cols_list = [c for c in cols_list if c not in early]
        run.analysed["admitted_columns"] = cols_list
        run.analysed["columns_returned_before_packing"] = early
        run.assume("column count >= 1 (a zero-column array has no row content to compare)")
        run.floor("packed column counts", len(cols_list), 3)

        n_paths = 0
        packed_returns = set()
        for cols in cols_list:
            it = Interp(cols=cols)
            p0 = Path({})
            it.run(outer.body, _seed(fi, it, p0, outer))
            packed_paths = [q for q in it.finished if any(e.kind == "shift" and e.loop is not None for e in q.events)]
            where0 = f"{fi.where} [columns={cols}]"
            if not packed_paths:
                raise AnalysisError(f"{where0}: no path through the packing block reaches a shift; analysis lost the anchor")
            for q in it.finished:
                for e in q.events:
                    if e.kind == "overflow" or (e.kind == "shift" and not e.ok):
                        run.obligation("R2", where0, e.text, False)
                        run.violation("R2", f"{mod.rel}:{e.node.lineno} hashable_rows [columns={cols}]",
                                      f"for {cols} column(s) under guards {q.guards}: {e.text}",
                                      key=key_of("C06-R2", "hashable_rows", cols, ast.unparse(e.node)))
            for q in packed_paths:
                n_paths += 1
                if getattr(q, "returned", None):
                    packed_returns.add(id(q.returned[0]))
                where = f"{fi.where} [columns={cols}; guards: {' & '.join(q.guards)}]"
                bad = [e for e in q.events if e.kind == "overflow" or (e.kind == "shift" and not e.ok)]
                run.obligation("R2", where, "all intermediates stay inside int64/uint64", not bad)
                shifts = [e for e in q.events if e.kind == "shift" and e.loop is not None]
                fields = {}
                for e in shifts:
                    if e.amount.lo != e.amount.hi:
                        raise AnalysisError(f"{where}: shift amount is not constant per column")
                    fields[e.loop[1]] = (e.amount.lo, e.operand)
                combs = [e for e in q.events if e.kind == "combine" and e.loop is not None]
                combiner_ok = bool(combs) and all(e.fn in ("bitwise_xor", "bitwise_or", "add", "BitXor", "BitOr", "Add") for e in combs)
                order = sorted(fields, key=lambda k: fields[k][0])
                detail = []
                ok1 = len(fields) == cols and len({v[0] for v in fields.values()}) == cols and combiner_ok
                for pos, k in enumerate(order):
                    sh, opnd = fields[k]
                    nxt = fields[order[pos + 1]][0] if pos + 1 < len(order) else 64
                    width = nxt - sh
                    fits_ = opnd.lo >= 0 and opnd.hi < (1 << width)
                    detail.append(f"col{k}: shift {sh}, width {width}, values [{opnd.lo}, {opnd.hi}] fits={fits_}")
                    ok1 = ok1 and fits_
                run.obligation("R1", where, "; ".join(detail), ok1)
                if not ok1:
                    run.violation("R1", where,
                                  f"packing is not injective for {cols} column(s) under guards {q.guards}: a field can spill into its "
                                  f"neighbour or columns share a shift ({'; '.join(detail)}; combiner ok={combiner_ok})",
                                  key=key_of("C06-R1", "overlap", cols, " & ".join(q.guards)))
                top = max(((opnd.hi << sh).bit_length() for sh, opnd in fields.values()), default=0)
                ok3 = top <= 64
                run.obligation("R3", where, f"highest bit used: {top - 1}", ok3)
                if not ok3:
                    run.violation("R3", where, f"packed word needs bit {top - 1} > 63 for {cols} column(s)",
                                  key=key_of("C06-R3", "topbit", cols))
                # the path that packs must be bounded on both sides
                arr = _packed_array(fi)
                a = q.env.get(arr)
        run.floor("packing paths analysed", n_paths, 3)

        # ---- R2 for every other function of the module that shifts integer arrays
        n_other = 0
        for name, f in sorted(mod.functions.items()):
            if f is fi:
                continue
            if not any(isinstance(n, ast.BinOp) and isinstance(n.op, (ast.LShift,)) for n in ast.walk(f.node)) and \
                    "left_shift" not in ast.unparse(f.node):
                continue
            n_other += 1
            it = Interp(cols=None)
            p0 = Path({})
            rest = it.run(f.node.body, p0)
            for q in it.finished + rest:
                for e in q.events:
                    if e.kind == "overflow" or (e.kind == "shift" and not e.ok):
                        run.obligation("R2", f.where, e.text, False)
                        run.violation("R2", f"{mod.rel}:{e.node.lineno} {name}",
                                      f"bit packing in {name} under guards {q.guards}: {e.text}",
                                      key=key_of("C06-R2", name, ast.unparse(e.node)))
                    elif e.kind == "shift":
                        run.obligation("R2", f.where, f"`{ast.unparse(e.node)}` stays inside {e.operand.dtype}", True)
        run.analysed["other_functions_with_shifts"] = n_other

        # ---- R4 void fallback
        arr = _packed_array(fi)
        voids = []
        for st in ast.walk(fi.node):
            if isinstance(st, ast.Assign) and "np.void" in ast.unparse(st.value):
                # names with one definition in the function are replaced by that definition (a named width `row_bytes = ...`)
                class _Sub(ast.NodeTransformer):
                    def visit_Name(self, n_):
                        ds = [a_.value for a_ in ast.walk(fi.node) if isinstance(a_, ast.Assign) and len(a_.targets) == 1 and isinstance(a_.targets[0], ast.Name)
                              and a_.targets[0].id == n_.id]
                        if len(ds) == 1 and n_.id != arr and isinstance(n_.ctx, ast.Load):
                            return self.visit(ast.parse(ast.unparse(ds[0]), mode="eval").body)
                        return n_
                import copy as _copy
                txt = ast.unparse(_Sub().visit(_copy.deepcopy(st.value))).replace(" ", "")
                voids.append((f"{arr}.dtype.itemsize*{arr}.shape[1]" in txt) or (f"{arr}.shape[1]*{arr}.dtype.itemsize" in txt))
        ok4 = bool(voids) and all(voids)
        run.obligation("R4", fi.where, "void dtype width == itemsize * shape[1]", ok4)
        if not ok4:
            run.violation("R4", fi.where, "the void-dtype fallback does not view exactly one row (itemsize * columns bytes) per element",
                          key=key_of("C06-R4", "void-width"))
        # fallback must be reached when the guard fails: the guarded block returns only inside the guard
        # (a return of the packing block that is not nested in the range guard is acceptable only when no packing path ends
        # there: what it returns is then not a packed word - the paths that pack are bounded by R1 whatever the layout)
        rets_outside_guard = [r for r in ast.walk(outer) if isinstance(r, ast.Return)
                              and not any(r in ast.walk(x) for x in [inner])]
        ok4b = not [r for r in rets_outside_guard if id(r) in packed_returns]
        run.obligation("R4", fi.where, "packing block returns only under the range guard (otherwise falls through to the exact fallback)", ok4b)
        if not ok4b:
            run.violation("R4", fi.where, "hashable_rows returns a packed value outside the range guard",
                          key=key_of("C06-R4", "return-outside-guard"))

        # every return OUTSIDE the guarded packing block hands back row content unchanged (the void view, the converted input itself): a value
        # accumulated by arithmetic there (multiply-add / xor folds) is a lossy hash of the row, not the row
        ARITH_FN = {"multiply", "add", "subtract", "bitwise_xor", "bitwise_or", "left_shift", "dot", "sum", "matmul", "mod", "remainder"}
        in_outer = {id(x) for x in ast.walk(outer)}
        for r in ast.walk(fi.node):
            if not isinstance(r, ast.Return) or r.value is None or id(r) in in_outer:
                continue
            names = {n_.id for n_ in ast.walk(r.value) if isinstance(n_, ast.Name)}
            writers = []
            for st in ast.walk(fi.node):
                if id(st) in in_outer:
                    continue
                if isinstance(st, ast.AugAssign) and isinstance(st.target, ast.Name) and st.target.id in names and isinstance(st.op, (ast.Mult, ast.Add, ast.BitXor, ast.LShift, ast.BitOr, ast.Mod)):
                    writers.append(st)
                if isinstance(st, ast.Call) and getattr(st.func, "attr", getattr(st.func, "id", "")) in ARITH_FN:
                    outs = [k_.value for k_ in st.keywords if k_.arg == "out"]
                    if any(isinstance(o_, ast.Name) and o_.id in names for o_ in outs):
                        writers.append(st)
                if isinstance(st, ast.Assign) and len(st.targets) == 1 and isinstance(st.targets[0], ast.Name) and st.targets[0].id in names:
                    if any(isinstance(b_, ast.BinOp) and isinstance(b_.op, (ast.Mult, ast.BitXor, ast.LShift, ast.Mod)) and
                           any(isinstance(n_, ast.Name) and n_.id in names | {arr} for n_ in ast.walk(b_)) for b_ in ast.walk(st.value)):
                        writers.append(st)
            direct = any(isinstance(b_, ast.BinOp) and isinstance(b_.op, (ast.Mult, ast.BitXor, ast.LShift, ast.Mod, ast.Add)) for b_ in ast.walk(r.value)) \
                or any(isinstance(c_, ast.Call) and getattr(c_.func, "attr", "") in ARITH_FN for c_ in ast.walk(r.value))
            lossy = bool(writers) or direct
            run.obligation("R4", f"{fi.module.rel}:{r.lineno} {fi.qualname}", f"return `{ast.unparse(r.value)[:50]}` outside the guarded packing is row content unchanged (no arithmetic fold)", not lossy)
            if lossy:
                w_ = writers[0] if writers else r
                run.violation("R4", f"{fi.module.rel}:{w_.lineno} {fi.qualname}", f"hashable_rows returns `{ast.unparse(r.value)[:40]}` outside the range-guarded bit packing, and that value is accumulated by "
                              f"arithmetic (`{ast.unparse(w_)[:70]}`): a multiply-add / xor fold of the columns is not injective (it wraps modulo 2^64), so different rows "
                              f"receive the same key and unique_rows / group_rows merge them", key=key_of("C06-R4", "lossy-fold"))

    # ---- R6 float_to_int returns int64 everywhere
    f2 = ix.func("trimesh.grouping:float_to_int")
    rets = [r for r in ast.walk(f2.node) if isinstance(r, ast.Return)]
    for r in rets:
        txt = ast.unparse(r.value)
        ok = txt.endswith(".astype(np.int64)") or txt.endswith(".astype(int64)")
        if not ok and isinstance(r.value, ast.Name):
            # `return data` is allowed under `if data.dtype == np.int64`
            for st in ast.walk(f2.node):
                if isinstance(st, ast.If) and r in st.body and ast.unparse(st.test) in (
                        f"{txt}.dtype == np.int64", f"{txt}.dtype == int64"):
                    ok = True
        run.obligation("R6", f"{f2.module.rel}:{r.lineno} float_to_int", f"return `{txt}` is int64", ok)
        if not ok:
            run.violation("R6", f"{f2.module.rel}:{r.lineno} float_to_int",
                          f"float_to_int can return a non-int64 array (`{txt}`): the bit packing assumes 64-bit lanes",
                          key=key_of("C06-R6", txt))
    run.floor("float_to_int returns", len(rets), 3)

    # ---- R5 funnel
    funnel = {"unique_rows": "hashable_rows", "group_rows": "hashable_rows"}
    for name, must in funnel.items():
        f = ix.func(f"trimesh.grouping:{name}")
        calls = [c for c in ast.walk(f.node) if isinstance(c, ast.Call) and getattr(c.func, "id", getattr(c.func, "attr", "")) == must]
        # every occurrence of the parameter `data` must be a direct argument of the funnel call
        direct = set()
        for c in calls:
            for a in list(c.args) + [k.value for k in c.keywords]:
                if isinstance(a, ast.Name) and a.id == f.params[0]:
                    direct.add(id(a))
        uses = [n for n in ast.walk(f.node) if isinstance(n, ast.Name) and n.id == f.params[0] and isinstance(n.ctx, ast.Load)]
        ok = bool(calls) and bool(uses) and all(id(n) in direct for n in uses)
        run.obligation("R5", f.where, f"`data` flows only into {must}()", ok)
        if not ok:
            run.violation("R5", f.where, f"{name} compares rows by a route other than {must}()", key=key_of("C06-R5", name))
    # callers in the mesh bookkeeping use the funnel functions, not ad-hoc row equality
    callers = 0
    for m in ix.modules.values():
        for c in ast.walk(m.tree):
            if isinstance(c, ast.Call) and getattr(c.func, "attr", getattr(c.func, "id", "")) in ("unique_rows", "group_rows", "hashable_rows"):
                callers += 1
    run.analysed["call_sites_of_row_grouping"] = callers
    run.floor("call sites of unique_rows/group_rows/hashable_rows", callers, 20)
    # ------------------------------------------------------------------ R7 quantise, then compare
    run.rule("R7", "a function with a `digits` parameter compares only quantised values: its raw data argument is read only to be converted (float_to_int / hashable_rows / asanyarray) or measured (len)")
    from ..provenance import Prov
    ALLOWED = {"trimesh.grouping.float_to_int", "trimesh.grouping.hashable_rows", "numpy.asanyarray", "numpy.asarray", "numpy.array", "len",
               "numpy.ascontiguousarray"}
    gm = ix.modules["trimesh.grouping"]
    n7 = 0
    for f in ix.all_functions:
        if f.module is not gm or "digits" not in f.params or f.parent is not None or f.name == "float_to_int":
            continue
        pv = Prov(ix, f)
        first = f.params[0]
        parent_of = {}
        for n in ast.walk(f.node):
            for ch in ast.iter_child_nodes(n):
                parent_of[id(ch)] = n
        for n in ast.walk(f.node):
            if not (isinstance(n, ast.Name) and n.id == first and isinstance(n.ctx, ast.Load)):
                continue
            st = pv.stmt_of(n)
            if st is None or not pv.cfg.nodes_of.get(id(st)):
                continue
            if pv.cfg.entry not in (pv.defs_at(st, first) or []):
                continue  # refers to a converted rebinding, not to the raw argument
            n7 += 1
            par = parent_of.get(id(n))
            ctx = None
            if isinstance(par, ast.Call) and n in par.args:
                ctx = pv.callee(par.func) or (par.func.id if isinstance(par.func, ast.Name) else ast.unparse(par.func))
            if isinstance(par, ast.keyword):
                gp = parent_of.get(id(par))
                ctx = pv.callee(gp.func) if isinstance(gp, ast.Call) else None
            ok = ctx in ALLOWED
            run.instance("R7", f.where, f"{f.qualname}: raw `{first}` read at line {n.lineno} as argument of {ctx}", ok)
            if not ok:
                run.violation("R7", f.where, f"`{f.qualname}` reads its raw argument `{first}` in `{ast.unparse(st)[:70]}` (line {n.lineno}) after / beside the quantised copy: "
                                             f"values that are equal at `digits` precision are compared unrounded there", key=key_of("C06-R7", f.qualname, ast.unparse(st)[:40]))
    run.floor("raw-argument reads in digits functions", n7, 6)
    # ------------------------------------------------------------------ R8 integer neighbours are compared exactly
    run.rule("R8", "group(): sorted neighbours are compared through a difference only for floats; integers (whose difference can wrap) and other types use exact inequality")
    fg = ix.func("trimesh.grouping:group")
    pg = Prov(ix, fg)
    # the boundary mask is whatever reaches numpy.nonzero(...) in the computation of the run starts (its name is irrelevant)
    nz = [c for c in ast.walk(fg.node) if isinstance(c, ast.Call) and pg.callee(c.func) in ("numpy.nonzero", "numpy.flatnonzero", "numpy.where") and len(c.args) == 1]
    defs = []
    for c in nz:
        a0 = c.args[0]
        if isinstance(a0, ast.Name):
            defs += [(st, st.value) for st in ast.walk(fg.node) if isinstance(st, ast.Assign) and len(st.targets) == 1
                     and isinstance(st.targets[0], ast.Name) and st.targets[0].id == a0.id]
        else:
            defs.append((pg.stmt_of(c), a0))
    if not defs:
        raise AnalysisError("anchor vanished: the neighbour-comparison mask handed to numpy.nonzero in grouping.group")
    SORTED = r"(?P<S>(?P<X>.+)\[(?P=X)\.argsort\((?:kind='\w+')?\)\]|numpy\.sort\((?P<X2>.+)\))"
    for st, val in defs:
        txt = pg.canon(val, st)
        g = pg.guards(st)
        arithmetic = "numpy.diff(" in txt or " - " in txt
        if arithmetic:
            float_only = any(re.fullmatch(r"(.+)\.dtype\.kind == 'f'|'f' == (.+)\.dtype\.kind|numpy\.issubdtype\((.+)\.dtype, numpy\.floating\)", x) for x in g)
            ok = float_only
        else:
            ok = any(re.fullmatch(f, txt) for f in (SORTED + r"\[1:\] != (?P=S)\[:-1\]", SORTED + r"\[:-1\] != (?P=S)\[1:\]",
                                                     r"numpy\.not_equal\(" + SORTED + r"\[1:\], (?P=S)\[:-1\]\)"))
        run.instance("R8", fg.where, f"neighbour mask := `{txt[:70]}` under {g}", ok)
        if not ok:
            run.violation("R8", fg.where, f"group() decides its neighbour mask by `{txt[:80]}` under {g or ['no condition']}: "
                                          + ("a difference of integer neighbours wraps when they are 2**63 or more apart, merging distinct values into one group"
                                             if arithmetic else "not an exact inequality of sorted neighbours"),
                          key=key_of("C06-R8", "nondupe", "arith" if arithmetic else "form"))
    run.floor("neighbour-mask definitions in group()", len(defs), 2)
    # ------------------------------------------------------------------ R9 a sort applied on top of a sort must be stable
    run.rule("R9", "grouping.py: an argsort of data that was already permuted by another argsort (a two-key sort done in two passes) asks for a stable sort; "
                   "np.lexsort / a single sort need nothing")
    n9 = 0
    for f in ix.all_functions:
        if f.module is not mod:
            continue
        pf = None
        for c in ast.walk(f.node):
            if not isinstance(c, ast.Call):
                continue
            fn_txt = ast.unparse(c.func)
            is_fn = fn_txt in ("np.argsort", "numpy.argsort") and c.args
            is_m = isinstance(c.func, ast.Attribute) and c.func.attr == "argsort" and not fn_txt.startswith(("np.", "numpy."))
            if not (is_fn or is_m):
                continue
            pf = pf or Prov(ix, f)
            st_ = pf.stmt_of(c)
            if st_ is None:
                continue
            subject = pf.canon(c.args[0] if is_fn else c.func.value, st_)
            n9 += 1
            # the sorted data is `X[<an argsort>]`: the order produced by the first pass must survive the second
            chained = re.search(r"\[[^\[\]]*argsort\(", subject) is not None
            kind = next((ast.unparse(k.value) for k in c.keywords if k.arg == "kind"), None)
            stable = kind in ("'stable'", "'mergesort'")
            ok = (not chained) or stable
            run.instance("R9", f"{f.module.rel}:{c.lineno} {f.qualname}", f"argsort of `{subject[:60]}`: chained on another argsort: {chained}, kind={kind}", ok)
            if not ok:
                run.violation("R9", f"{f.module.rel}:{c.lineno} {f.qualname}",
                              f"`{ast.unparse(c)[:70]}` sorts data that an earlier argsort had ordered, with the default (unstable) algorithm: equal keys of the "
                              f"second pass lose the order of the first, so 'first element of each group' is no longer its minimum / the groups are no longer ordered",
                              key=key_of("C06-R9", f.qualname, "unstable-chained-argsort"))
    run.floor("argsort calls in grouping.py", n9, 3)
    # ------------------------------------------------------------------ R10 nobody else packs rows by hand
    run.rule("R10", "package-wide: row identity (np.unique / argsort / searchsorted / isin ... ) is never established on a key packed by hand from two "
                    "index columns in the array's own dtype (`a[:, 0] * n + a[:, 1]`): hashable_rows is the one place that packs, under the range guard of R1-R3")
    from ..idioms import hand_packed_keys
    n10 = 0
    for f in ix.all_functions:
        if f.parent is not None:
            continue
        src_ = ast.unparse(f.node)
        if not any(k_ in src_ for k_ in ("unique", "argsort", "bincount", "searchsorted", "isin", "in1d", "lexsort")):
            continue
        n10 += 1
        hits = hand_packed_keys(ix, f)
        run.instance("R10", f.where, f"{f.qualname}: hand-packed row keys: {len(hits)}", not hits)
        for c_, key_, why_ in hits:
            run.violation("R10", f"{f.module.rel}:{c_.lineno} {f.qualname}", f"{why_}: the product is computed in the index dtype and wraps for 32-bit input, two "
                                 f"different rows then compare equal; row identity has to go through grouping.hashable_rows / unique_rows",
                          key=key_of("C06-R10", f.qualname, "hand-packed"))
    run.floor("functions that sort / de-duplicate", n10, 100)
    run.assume("element values are bounded only by the range guard read from the source; row count is irrelevant to the packing")
    run.assume("np.bitwise_xor/or/add of fields occupying disjoint bit ranges is injective (arithmetic fact)")
    # ------------------------------------------------------------------ R11 the default precision is read when the call is made
    run.rule("R11", "grouping.py: the default number of digits follows the live setting `tol.merge` - it is read inside the function at call time, never "
                    "frozen at import (module-level constant or default argument derived from `tol.*`)")
    gm = ix.modules["trimesh.grouping"]
    n11 = 0
    frozen = []
    for st in gm.tree.body:
        if isinstance(st, (ast.FunctionDef, ast.ClassDef, ast.Import, ast.ImportFrom)):
            continue
        for x in ast.walk(st):
            if isinstance(x, ast.Attribute) and isinstance(x.value, ast.Name) and x.value.id == "tol":
                frozen.append((st, f"module-level `{ast.unparse(st)[:70]}`"))
    for f in ix.all_functions:
        if f.module is not gm:
            continue
        a_ = f.node.args
        for d_ in list(a_.defaults) + [k_ for k_ in a_.kw_defaults if k_ is not None]:
            if any(isinstance(x, ast.Attribute) and isinstance(x.value, ast.Name) and x.value.id == "tol" for x in ast.walk(d_)):
                frozen.append((f.node, f"default argument `{ast.unparse(d_)[:40]}` of {f.qualname}"))
        if "digits" in f.params or any(p_.startswith("digits") for p_ in f.params):
            live = any(isinstance(x, ast.Attribute) and isinstance(x.value, ast.Name) and x.value.id == "tol" for x in ast.walk(f.node))
            n11 += 1
            run.instance("R11", f.where, f"{f.qualname}: reads tol.* at call time: {live}", True, nontrivial=live)
    for st, what in frozen:
        names = [t.id for t in getattr(st, "targets", []) if isinstance(t, ast.Name)]
        used = [f.qualname for f in ix.all_functions if f.module is gm and any(isinstance(x, ast.Name) and x.id in names for x in ast.walk(f.node))] if names else ["(default)"]
        run.instance("R11", f"{gm.rel}:{st.lineno} <module>", f"{what} is evaluated once at import; used by {used[:4]}", not used)
        if used:
            run.violation("R11", f"{gm.rel}:{st.lineno} <module>", f"{what} freezes the merge tolerance at import time, and {', '.join(used[:4])} use(s) it where the tolerance was "
                          f"read per call: after `trimesh.tol.merge = x` the grouping primitives called with digits=None still round to the old number of digits, while "
                          f"merge_runs / the path code follow the new setting", key=key_of("C06-R11", "frozen-tol", names[0] if names else what[:30]))
    run.floor("grouping functions with a digits parameter", n11, 3)
    return {
        "explanation": "Interval abstract interpretation of the bit-packing block of grouping.hashable_rows for each "
        "column count admitted by its guard: fields disjoint, no dtype overflow on any intermediate, top bit <= 63; "
        "plus exact-width check of the void fallback, int64 return discipline of float_to_int, and the call-graph "
        "funnel of unique_rows/group_rows. Decides injectivity of row hashing for all integer inputs; does not decide "
        "group/blocks/merge_runs/group_min/boolean_rows value semantics or float quantisation.",
    }
