"""C06 - row grouping primitives (narrow): the bit-packing of integer rows in
`grouping.hashable_rows` is injective for every admitted value and column count,
no intermediate leaves its integer dtype, the void fallback views exactly the row
bytes, and every row-grouping entry point reaches row equality only through it.

Abstract interpretation over integer intervals of the packing block (values are
never enumerated): column count ranges over the guard's admitted set, element
values over the interval the range guard admits.
"""
from __future__ import annotations

import ast
import math

from ..index import Index
from ..report import AnalysisError, key_of

LEVEL = "other"

INT64 = (-(2**63), 2**63 - 1)
UINT64 = (0, 2**64 - 1)


class Iv:
    """integer interval with a dtype tag (None = python int, unbounded)"""

    def __init__(self, lo, hi, dtype=None):
        self.lo, self.hi, self.dtype = lo, hi, dtype

    def __repr__(self):
        return f"[{self.lo}, {self.hi}]{':' + self.dtype if self.dtype else ''}"


class Overflow(Exception):
    pass


def _fits(lo, hi, dtype):
    r = {"int64": INT64, "uint64": UINT64}[dtype]
    return r[0] <= lo and hi <= r[1]


class Interp:
    """evaluates the handful of expression forms the packing block uses"""

    def __init__(self, env, mod):
        self.env = env
        self.mod = mod
        self.notes = []

    def ev(self, e):
        if isinstance(e, ast.Constant) and isinstance(e.value, (int, float)):
            return e.value
        if isinstance(e, ast.Name):
            if e.id in self.env:
                return self.env[e.id]
            raise AnalysisError(f"C06 interval evaluator: unbound name {e.id}")
        if isinstance(e, ast.UnaryOp) and isinstance(e.op, ast.USub):
            v = self.ev(e.operand)
            return Iv(-v.hi, -v.lo, v.dtype) if isinstance(v, Iv) else -v
        if isinstance(e, ast.BinOp):
            a, b = self.ev(e.left), self.ev(e.right)
            return self.binop(e.op, a, b, e)
        if isinstance(e, ast.Attribute):
            if e.attr == "T":
                return self.ev(e.value)
            if e.attr == "shape":
                return ("shape", self.ev(e.value))
        if isinstance(e, ast.Subscript):
            v = self.ev(e.value)
            if isinstance(v, tuple) and v[0] == "shape":
                idx = e.slice.value if isinstance(e.slice, ast.Constant) else None
                if idx == 1:
                    return self.env["__cols__"]
                if idx == 0:
                    return self.env["__rows__"]
            if isinstance(v, Iv):
                return v
        if isinstance(e, ast.Call):
            f = e.func
            fname = f.attr if isinstance(f, ast.Attribute) else getattr(f, "id", None)
            if fname == "int" and len(e.args) == 1:
                return int(self.ev(e.args[0]))
            if fname in ("floor", "ceil", "round", "trunc") and len(e.args) == 1:
                v = self.ev(e.args[0])
                return {"floor": math.floor, "ceil": math.ceil, "round": round, "trunc": math.trunc}[fname](v)
            if fname == "astype" and isinstance(f, ast.Attribute):
                v = self.ev(f.value)
                dt = ast.unparse(e.args[0]).split(".")[-1]
                if not isinstance(v, Iv):
                    raise AnalysisError("C06: astype on a non-array value")
                if dt in ("uint64", "int64"):
                    if not _fits(v.lo, v.hi, dt):
                        raise Overflow(f"astype({dt}) of values in [{v.lo}, {v.hi}] wraps around")
                    return Iv(v.lo, v.hi, dt)
                raise AnalysisError(f"C06: astype to unsupported dtype {dt}")
            if fname in ("min", "max") and isinstance(f, ast.Attribute) and not e.args:
                v = self.ev(f.value)
                if isinstance(v, Iv):
                    return ("extreme", fname, v)
            if fname == "len" and len(e.args) == 1:
                return self.env["__rows__"]
            if fname in ("zeros",):
                dt = None
                for k in e.keywords:
                    if k.arg == "dtype":
                        dt = ast.unparse(k.value).split(".")[-1]
                return Iv(0, 0, dt or "float64")
        raise AnalysisError(f"C06 interval evaluator: unsupported expression `{ast.unparse(e)}`")

    def binop(self, op, a, b, node):
        if not isinstance(a, Iv) and not isinstance(b, Iv):
            import operator as o

            fn = {ast.Add: o.add, ast.Sub: o.sub, ast.Mult: o.mul, ast.Div: o.truediv, ast.FloorDiv: o.floordiv,
                  ast.Pow: o.pow, ast.LShift: o.lshift, ast.Mod: o.mod}.get(type(op))
            if fn is None:
                raise AnalysisError(f"C06: unsupported operator in `{ast.unparse(node)}`")
            return fn(a, b)
        # array op scalar / array op array
        ia = a if isinstance(a, Iv) else Iv(a, a)
        ib = b if isinstance(b, Iv) else Iv(b, b)
        dt = ia.dtype or ib.dtype
        # numpy 2: a python int operand must be representable in the array dtype
        for s in (a, b):
            if not isinstance(s, Iv) and dt in ("int64", "uint64") and not _fits(s, s, dt):
                raise Overflow(f"python int {s} in `{ast.unparse(node)}` is not representable in {dt} "
                               f"(numpy raises OverflowError)")
        if isinstance(op, ast.Add):
            lo, hi = ia.lo + ib.lo, ia.hi + ib.hi
        elif isinstance(op, ast.Sub):
            lo, hi = ia.lo - ib.hi, ia.hi - ib.lo
        elif isinstance(op, ast.Mult):
            c = [ia.lo * ib.lo, ia.lo * ib.hi, ia.hi * ib.lo, ia.hi * ib.hi]
            lo, hi = min(c), max(c)
        elif isinstance(op, ast.LShift):
            if ib.lo < 0 or ia.lo < 0:
                raise Overflow(f"shift of/by a possibly negative value in `{ast.unparse(node)}`")
            if dt in ("int64", "uint64") and ib.hi >= 64:
                raise Overflow(f"shift count {ib.hi} >= 64 in `{ast.unparse(node)}`")
            lo, hi = ia.lo << ib.lo, ia.hi << ib.hi
        else:
            raise AnalysisError(f"C06: unsupported array operator in `{ast.unparse(node)}`")
        if dt in ("int64", "uint64") and not _fits(lo, hi, dt):
            raise Overflow(f"`{ast.unparse(node)}` can reach [{lo}, {hi}], outside {dt}")
        return Iv(lo, hi, dt)


def _find_pack_block(fn):
    """the `if ... shape[1] <= K:` block that contains the range guard"""
    for st in fn.body:
        if isinstance(st, ast.If) and "shape[1]" in ast.unparse(st.test):
            for inner in ast.walk(st):
                if isinstance(inner, ast.If) and inner is not st and "d_m" in ast.unparse(inner.test) or (
                    isinstance(inner, ast.If) and inner is not st and any(isinstance(x, ast.For) for x in inner.body)
                ):
                    return st, inner
    return None, None


def _admitted_columns(test):
    """parse `... and X.shape[1] <= K` / `< K` / `== K` -> sorted list of column counts (>=1)"""
    conj = test.values if isinstance(test, ast.BoolOp) and isinstance(test.op, ast.And) else [test]
    for c in conj:
        if isinstance(c, ast.Compare) and len(c.ops) == 1 and "shape[1]" in ast.unparse(c.left):
            k = c.comparators[0]
            if isinstance(k, ast.Constant) and isinstance(k.value, int):
                if isinstance(c.ops[0], ast.LtE):
                    return list(range(1, k.value + 1))
                if isinstance(c.ops[0], ast.Lt):
                    return list(range(1, k.value))
                if isinstance(c.ops[0], ast.Eq):
                    return [k.value]
    return None


def _guard_bounds(test, it):
    """range guard: conjunction of comparisons between d_min/d_max (extremes of the
    data) and constant expressions.  Returns (lo, hi) admitted for every element,
    or None if a side is unbounded."""
    conj = test.values if isinstance(test, ast.BoolOp) and isinstance(test.op, ast.And) else [test]
    lo = hi = None
    for c in conj:
        if not (isinstance(c, ast.Compare) and len(c.ops) == 1):
            continue
        L, R, op = c.left, c.comparators[0], c.ops[0]

        def ext(e):
            try:
                v = it.ev(e)
            except AnalysisError:
                return None
            return v if isinstance(v, tuple) and v[0] == "extreme" else None

        def cst(e):
            v = it.ev(e)
            if isinstance(v, (int, float)) and not isinstance(v, bool):
                return v
            raise AnalysisError(f"C06: guard bound `{ast.unparse(e)}` is not a constant")

        el, er = ext(L), ext(R)
        if el is not None and er is None:
            kind, b = el[1], cst(R)
        elif er is not None and el is None:
            kind, b = er[1], cst(L)
            op = {ast.Lt: ast.Gt, ast.LtE: ast.GtE, ast.Gt: ast.Lt, ast.GtE: ast.LtE}[type(op)]()
        else:
            continue
        # the maximum bounds every element from above, the minimum from below
        if kind == "max" and isinstance(op, ast.Lt):
            hi = b - 1 if hi is None else min(hi, b - 1)
        elif kind == "max" and isinstance(op, ast.LtE):
            hi = b if hi is None else min(hi, b)
        elif kind == "min" and isinstance(op, ast.Gt):
            lo = b + 1 if lo is None else max(lo, b + 1)
        elif kind == "min" and isinstance(op, ast.GtE):
            lo = b if lo is None else max(lo, b)
    if lo is None or hi is None:
        return None
    return lo, hi


def _static_test(test, cols, ndim):
    """three-valued evaluation of a test that only inspects the array's shape"""
    if isinstance(test, ast.BoolOp):
        vals = [_static_test(v, cols, ndim) for v in test.values]
        if isinstance(test.op, ast.And):
            if any(v is False for v in vals):
                return False
            return True if all(v is True for v in vals) else None
        if any(v is True for v in vals):
            return True
        return False if all(v is False for v in vals) else None
    if isinstance(test, ast.Compare) and len(test.ops) == 1 and isinstance(test.comparators[0], ast.Constant):
        left = ast.unparse(test.left).replace(" ", "")
        k = test.comparators[0].value
        val = None
        if left.startswith("len(") and left.endswith(".shape)"):
            val = ndim
        elif left.endswith(".shape[1]"):
            val = cols
        elif left.endswith(".ndim"):
            val = ndim
        if val is None or not isinstance(k, int):
            return None
        import operator as o

        fn = {ast.Eq: o.eq, ast.NotEq: o.ne, ast.Lt: o.lt, ast.LtE: o.le, ast.Gt: o.gt, ast.GtE: o.ge}.get(type(test.ops[0]))
        return fn(val, k) if fn else None
    return None


def check(run):
    ix = Index(run.repo)
    run.analysed.update(ix.stats())
    fi = ix.func("trimesh.grouping:hashable_rows")
    mod = fi.module
    run.rule("R1", "range guard => every shifted field lies inside its own bit range (fields disjoint)")
    run.rule("R2", "no intermediate of the packing leaves int64/uint64 (no wrap-around, no OverflowError)")
    run.rule("R3", "top bit used by the packed word <= 63")
    run.rule("R4", "the void-dtype fallback views exactly cols*itemsize bytes per row")
    run.rule("R5", "row-grouping entry points reach row equality only through hashable_rows")
    run.rule("R6", "float_to_int returns int64 on every path (the packing arithmetic assumes it)")

    outer, inner = _find_pack_block(fi.node)
    if outer is None:
        raise AnalysisError("anchor vanished: bit-packing block (`if ... shape[1] <= K`) in grouping.hashable_rows")
    cols_list = _admitted_columns(outer.test)
    if not cols_list:
        raise AnalysisError(f"cannot read admitted column counts from `{ast.unparse(outer.test)}`")
    # column counts that return before the packing block is reached
    # (`if len(X.shape) == 2 and X.shape[1] == c: return ...`) are not packed
    early = []
    for st in fi.node.body:
        if st is outer:
            break
        if isinstance(st, ast.If) and any(isinstance(x, ast.Return) for x in st.body) and not st.orelse:
            for c in list(cols_list):
                if _static_test(st.test, cols=c, ndim=2) is True:
                    early.append(c)
    cols_list = [c for c in cols_list if c not in early]
    run.analysed["admitted_columns"] = cols_list
    run.analysed["columns_returned_before_packing"] = early
    run.assume("column count >= 1 (a zero-column array has no row content to compare)")
    # the array variable that is packed: `X = float_to_int(...)`
    arr = None
    for st in fi.node.body:
        if isinstance(st, ast.Assign) and isinstance(st.value, ast.Call) and "float_to_int" in ast.unparse(st.value.func):
            arr = st.targets[0].id
    if arr is None:
        raise AnalysisError("anchor vanished: `as_int = float_to_int(...)` in hashable_rows")

    n_obl = 0
    for cols in cols_list:
        where = f"{fi.where} [columns={cols}]"
        env = {"__cols__": cols, "__rows__": 1000, arr: Iv(INT64[0], INT64[1], "int64")}
        it = Interp(env, mod)
        try:
            # statements of the outer block before the guard: constants
            for st in outer.body:
                if st is inner:
                    break
                if isinstance(st, ast.Assign):
                    tg = st.targets[0]
                    if isinstance(tg, ast.Tuple):
                        vals = [it.ev(v) for v in st.value.elts]
                        for t, v in zip(tg.elts, vals):
                            env[t.id] = v
                    else:
                        env[tg.id] = it.ev(st.value)
            bounds = _guard_bounds(inner.test, it)
            if bounds is None:
                run.obligation("R1", where, "range guard bounds the data on both sides", False)
                run.violation("R1", where, f"range guard `{ast.unparse(inner.test)}` does not bound the data on both sides",
                              key=key_of("C06-R1", "guard-unbounded", cols))
                continue
            lo, hi = bounds
            env[arr] = Iv(int(lo), int(hi), "int64")
            fields = []
            loop = None
            acc_name = None
            combiner_ok = True
            for st in inner.body:
                if isinstance(st, ast.Assign):
                    env[st.targets[0].id] = it.ev(st.value)
                elif isinstance(st, ast.For):
                    # for offset, column in enumerate(bitbang): one field per column
                    loop = st
                    tgt = st.target
                    if not (isinstance(st.iter, ast.Call) and getattr(st.iter.func, "id", "") == "enumerate"
                            and isinstance(tgt, ast.Tuple) and len(tgt.elts) == 2):
                        raise AnalysisError(f"C06: unsupported packing loop `{ast.unparse(st.iter)}`")
                    src = it.ev(st.iter.args[0])
                    for off in range(cols):
                        env[tgt.elts[0].id] = off
                        env[tgt.elts[1].id] = src
                        for b in st.body:
                            call = b.value if isinstance(b, ast.Expr) else (b.value if isinstance(b, (ast.Assign, ast.AugAssign)) else None)
                            shifted = None
                            if isinstance(b, ast.Expr) and isinstance(call, ast.Call):
                                fname = ast.unparse(call.func).split(".")[-1]
                                if fname not in ("bitwise_xor", "bitwise_or", "add"):
                                    combiner_ok = False
                                acc_name = ast.unparse(call.args[0])
                                shifted = it.ev(call.args[1])
                            elif isinstance(b, ast.AugAssign):
                                if not isinstance(b.op, (ast.BitXor, ast.BitOr, ast.Add)):
                                    combiner_ok = False
                                acc_name = ast.unparse(b.target)
                                shifted = it.ev(b.value)
                            else:
                                raise AnalysisError(f"C06: unsupported statement in packing loop `{ast.unparse(b)}`")
                            # shift amount of this field
                            fields.append((off, shifted))
            if not fields:
                raise AnalysisError("C06: no packing loop found inside the guarded block")
            prec = env.get("precision")
            # R2 held if we got here without Overflow
            run.obligation("R2", where, f"all intermediates stay inside int64/uint64 for values in [{lo}, {hi}]", True)
            n_obl += 1
            # R1: field k occupies [shift_k, shift_k + width) ; derive shift from lower bound structure
            # widths: field value range / 2**shift must be < 2**(next shift - shift)
            # recompute shifts by evaluating with src = [1,1]
            shifts = []
            for off in range(cols):
                env2 = dict(env)
                it2 = Interp(env2, mod)
                env2[loop.target.elts[0].id] = off
                env2[loop.target.elts[1].id] = Iv(1, 1, "uint64")
                b = loop.body[0]
                expr = b.value.args[1] if isinstance(b, ast.Expr) else b.value
                v = it2.ev(expr)
                if v.lo != v.hi or v.lo & (v.lo - 1):
                    raise AnalysisError("C06: packed field is not `column << constant`")
                shifts.append(v.lo.bit_length() - 1)
            order = sorted(range(cols), key=lambda k: shifts[k])
            ok1 = True
            detail = []
            for pos, k in enumerate(order):
                raw_hi = fields[k][1].hi >> shifts[k]
                raw_lo = fields[k][1].lo >> shifts[k]
                nxt = shifts[order[pos + 1]] if pos + 1 < cols else 64
                width = nxt - shifts[k]
                fits = raw_lo >= 0 and raw_hi < (1 << width)
                detail.append(f"col{k}: shift {shifts[k]}, width {width}, value range [{raw_lo}, {raw_hi}] fits={fits}")
                ok1 = ok1 and fits
            ok1 = ok1 and len(set(shifts)) == cols and combiner_ok
            run.obligation("R1", where, "; ".join(detail), ok1)
            n_obl += 1
            if not ok1:
                run.violation("R1", where,
                              f"packing is not injective for {cols} column(s): a field can spill into its neighbour "
                              f"({'; '.join(detail)}; combiner ok={combiner_ok})",
                              key=key_of("C06-R1", "overlap", cols))
            top = max(f[1].hi for f in fields).bit_length()
            ok3 = top <= 64
            run.obligation("R3", where, f"highest bit used: {top - 1}", ok3)
            n_obl += 1
            if not ok3:
                run.violation("R3", where, f"packed word needs bit {top - 1} > 63 for {cols} column(s)",
                              key=key_of("C06-R3", "topbit", cols))
        except Overflow as e:
            run.obligation("R2", where, str(e), False)
            n_obl += 1
            run.violation("R2", where, f"for {cols} column(s): {e}", key=key_of("C06-R2", "overflow", cols))
    run.floor("packed column counts", len(cols_list), 3)

    # ---- R4 void fallback
    ok4 = False
    for st in fi.node.body:
        if isinstance(st, ast.Assign) and "np.void" in ast.unparse(st.value):
            txt = ast.unparse(st.value).replace(" ", "")
            ok4 = (f"{arr}.dtype.itemsize*{arr}.shape[1]" in txt) or (f"{arr}.shape[1]*{arr}.dtype.itemsize" in txt)
    run.obligation("R4", fi.where, "void dtype width == itemsize * shape[1]", ok4)
    if not ok4:
        run.violation("R4", fi.where, "the void-dtype fallback does not view exactly one row (itemsize * columns bytes) per element",
                      key=key_of("C06-R4", "void-width"))
    # fallback must be reached when the guard fails: the guarded block returns only inside the guard
    rets_outside_guard = [r for r in ast.walk(outer) if isinstance(r, ast.Return)
                          and not any(r in ast.walk(x) for x in [inner])]
    ok4b = not rets_outside_guard
    run.obligation("R4", fi.where, "packing block returns only under the range guard (otherwise falls through to the exact fallback)", ok4b)
    if not ok4b:
        run.violation("R4", fi.where, "hashable_rows returns a packed value outside the range guard",
                      key=key_of("C06-R4", "return-outside-guard"))

    # ---- R6 float_to_int returns int64 everywhere
    f2 = ix.func("trimesh.grouping:float_to_int")
    rets = [r for r in ast.walk(f2.node) if isinstance(r, ast.Return)]
    for r in rets:
        txt = ast.unparse(r.value)
        ok = txt.endswith(".astype(np.int64)") or txt.endswith(".astype(int64)")
        if not ok and isinstance(r.value, ast.Name):
            # `return data` is allowed under `if data.dtype == np.int64`
            for st in ast.walk(f2.node):
                if isinstance(st, ast.If) and r in st.body and ast.unparse(st.test) in (
                        f"{txt}.dtype == np.int64", f"{txt}.dtype == int64"):
                    ok = True
        run.obligation("R6", f"{f2.module.rel}:{r.lineno} float_to_int", f"return `{txt}` is int64", ok)
        if not ok:
            run.violation("R6", f"{f2.module.rel}:{r.lineno} float_to_int",
                          f"float_to_int can return a non-int64 array (`{txt}`): the bit packing assumes 64-bit lanes",
                          key=key_of("C06-R6", txt))
    run.floor("float_to_int returns", len(rets), 3)

    # ---- R5 funnel
    funnel = {"unique_rows": "hashable_rows", "group_rows": "hashable_rows"}
    for name, must in funnel.items():
        f = ix.func(f"trimesh.grouping:{name}")
        calls = [c for c in ast.walk(f.node) if isinstance(c, ast.Call) and getattr(c.func, "id", getattr(c.func, "attr", "")) == must]
        # every occurrence of the parameter `data` must be a direct argument of the funnel call
        direct = set()
        for c in calls:
            for a in list(c.args) + [k.value for k in c.keywords]:
                if isinstance(a, ast.Name) and a.id == f.params[0]:
                    direct.add(id(a))
        uses = [n for n in ast.walk(f.node) if isinstance(n, ast.Name) and n.id == f.params[0] and isinstance(n.ctx, ast.Load)]
        ok = bool(calls) and bool(uses) and all(id(n) in direct for n in uses)
        run.obligation("R5", f.where, f"`data` flows only into {must}()", ok)
        if not ok:
            run.violation("R5", f.where, f"{name} compares rows by a route other than {must}()", key=key_of("C06-R5", name))
    # callers in the mesh bookkeeping use the funnel functions, not ad-hoc row equality
    callers = 0
    for m in ix.modules.values():
        for c in ast.walk(m.tree):
            if isinstance(c, ast.Call) and getattr(c.func, "attr", getattr(c.func, "id", "")) in ("unique_rows", "group_rows", "hashable_rows"):
                callers += 1
    run.analysed["call_sites_of_row_grouping"] = callers
    run.floor("call sites of unique_rows/group_rows/hashable_rows", callers, 20)
    run.assume("element values are bounded only by the range guard read from the source; row count is irrelevant to the packing")
    run.assume("np.bitwise_xor/or/add of fields occupying disjoint bit ranges is injective (arithmetic fact)")
    return {
        "explanation": "Interval abstract interpretation of the bit-packing block of grouping.hashable_rows for each "
        "column count admitted by its guard: fields disjoint, no dtype overflow on any intermediate, top bit <= 63; "
        "plus exact-width check of the void fallback, int64 return discipline of float_to_int, and the call-graph "
        "funnel of unique_rows/group_rows. Decides injectivity of row hashing for all integer inputs; does not decide "
        "group/blocks/merge_runs/group_min/boolean_rows value semantics or float quantisation.",
    }
