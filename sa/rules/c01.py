"""C01 - derived mesh values never go stale (cache is history independent).

Decides the per-mutator obligation the history quantifier collapses to: after every
function that keeps memo entries across a change of hashed mesh data (exclude sets,
`with cache:` locks, id_set, surgery on Cache.cache) no surviving entry depends on the
data that was written, unless the function re-assigned it; plus memo soundness (every
cached producer reads hashed state only), the verify-before-use protocol, companion
keys, and query structures keyed on the mesh hash.
"""
from __future__ import annotations

import ast

from ..cachesim import CacheSim
from ..rawreads import raw_reads
from ..preserve import COUNT_PRESERVING, check_surgery
from ..cfg import CFG
from ..effects import Effects
from ..index import Index
from ..report import AnalysisError, key_of

LEVEL = "other"


# (key, data field, write kind) -> reason.  Frozen judgements confirmed by reading / measurement (DESIGN.md C01).
INVARIANCE = {
    ("face_normals", "faces", "fliplr"): "transported: invert / apply_transform store the negated or mapped normals themselves (checked by R5)",
    ("vertex_normals", "faces", "fliplr"): "as face_normals",
}


TRANSPORT = {
    "face_normals": "mapped by the linear part under the rotation + conformality guards (R5), negated by invert",
    "vertex_normals": "as face_normals",
}


def hashed_data(path):
    """Trimesh family: hashed state is the DataStore `_data`"""
    if path and path[0] == "_data":
        return path[1].strip("[]") if len(path) > 1 and path[1].startswith("[") else "*"
    return None


def rhs_kind(st, sim):
    """classify direct assignments `self.<field> = <expr>` into count-preserving kinds"""
    if not isinstance(st, ast.Assign) or not isinstance(st.targets[0], ast.Attribute):
        return None
    field = st.targets[0].attr
    defs = {}
    for n in ast.walk(sim.fi.node):
        if isinstance(n, ast.Assign) and isinstance(n.targets[0], ast.Name):
            defs.setdefault(n.targets[0].id, []).append(n.value)

    def unwrap(e, depth=0):
        if depth > 4:
            return e
        if isinstance(e, ast.Name) and e.id in defs and len(defs[e.id]) == 1:
            return unwrap(defs[e.id][0], depth + 1)
        if isinstance(e, ast.Call) and getattr(e.func, "attr", getattr(e.func, "id", "")) in ("ascontiguousarray", "asanyarray", "array") and e.args:
            return unwrap(e.args[0], depth + 1)
        if isinstance(e, ast.Subscript):
            if ast.unparse(e.slice).strip("()") == ":, ::-1" and ast.unparse(e.value) == f"self.{field}":
                return ast.Call(func=ast.Name(id="fliplr", ctx=ast.Load()), args=[e.value], keywords=[])  # column reversal written as a slice
            return unwrap(e.value, depth + 1)
        return e

    e = unwrap(st.value)
    if isinstance(e, ast.Call):
        fn = getattr(e.func, "attr", getattr(e.func, "id", ""))
        if fn == "transform_points":
            return {field: "transform"}
        if fn == "fliplr":
            return {field: "fliplr"}
    if isinstance(e, ast.BinOp) and isinstance(e.op, ast.Mult) and isinstance(e.right, (ast.Constant, ast.UnaryOp)):
        return {field: "negate"}
    return None


def cache_owners(ix):
    """classes constructing `self._cache = Cache(id_function=...)` -> id function expression"""
    out = []
    for m in ix.modules.values():
        for c in m.classes.values():
            for f in list(c.methods.values()):
                for st in ast.walk(f.node):
                    if isinstance(st, ast.Assign) and isinstance(st.targets[0], ast.Attribute) and st.targets[0].attr == "_cache" \
                            and isinstance(st.value, ast.Call) and ast.unparse(st.value.func).endswith("Cache"):
                        idf = st.value.args[0] if st.value.args else next((k.value for k in st.value.keywords if k.arg == "id_function"), None)
                        out.append((c, f, ast.unparse(idf) if idf is not None else None, st.lineno))
    return out


def producer_footprints(ix, ef, cls):
    """cache key -> (getter FuncInfo, set of (datafield, tag), set of other self-rooted reads)"""
    out = {}
    seen = set()
    for k in cls.mro:
        for name, g in k.getters.items():
            if name in seen:
                continue
            seen.add(name)
            if g.kind != "cached":
                continue
            s = ef.summary(g, cls)
            data, other = set(), set()
            sn = g.params[0]
            for (root, path, tag) in s.reads:
                if root != sn or not path:
                    continue
                if path[0] == "_cache":
                    continue
                lab = hashed_data(path)
                if lab is not None:
                    data.add((lab, tag))
                else:
                    other.add((path, tag))
            out[name] = (g, data, other, s)
    return out


def side_products(ix, ef, cls, fps):
    """memo keys stored as a by-product of another producer: key -> producing getter name"""
    out = {}
    for name, (g, data, other, s) in fps.items():
        for st in ast.walk(g.node):
            if isinstance(st, ast.Assign) and isinstance(st.targets[0], ast.Subscript):
                t = st.targets[0]
                if ast.unparse(t.value) in ("self._cache", "self._cache.cache") and isinstance(t.slice, ast.Constant) and t.slice.value != name:
                    out[t.slice.value] = name
    return out


def check(run):
    ix = Index(run.repo)
    ef = Effects(ix)
    run.analysed.update(ix.stats())
    run.rule("R1", "memo soundness: every cache_decorator producer reads only state covered by its cache's id function")
    run.rule("R2", "preservation: a memo entry that survives a mutator does not depend on data the mutator wrote, unless the mutator re-assigned it")
    run.rule("R2b", "no memo entry is read while verification is suspended (lock) after data it depends on was written")
    run.rule("R3", "protocol: cache_decorator and the Cache accessors reach verify() before touching the dict; verify replaces the dict when the id differs")
    run.rule("R4", "query structures about a mesh (ray, proximity) are keyed on the mesh hash or read only mesh properties")
    run.rule("R5", "normals are carried across a transform only by the function's own store, guarded by presence in the cache and the rotation test")
    run.rule("R6", "companion keys: a key whose getter relies on a by-product store of another producer is kept or dropped together with it")
    run.rule("R8", "a function that re-certifies memo entries verifies the cache before its first write of hashed data or lock entry")
    run.rule("R7", "memo entries are read from the raw dict (`x._cache.cache`) only after that cache was verified in the same function, with no write of x's hashed data in between")

    T = ix.cls("trimesh.base.Trimesh")
    fps = producer_footprints(ix, ef, T)
    run.floor("cached Trimesh producers", len(fps), 60)
    sp = side_products(ix, ef, T, fps)

    def footprint(key):
        if key in fps:
            return fps[key][1]
        if key in sp and sp[key] in fps:
            return fps[sp[key]][1]
        return None

    # ------------------------------------------------------------------ R1
    WRITE_ONCE = {}
    for name, (g, data, other, s) in sorted(fps.items()):
        bad = sorted({".".join(p) for p, tag in other if p[0] not in ("__class__",)})
        ok = not bad
        run.instance("R1", g.where, f"{name}: reads {sorted(data)}" + (f" and non-hashed state {bad}" if bad else ""), ok)
        if not ok:
            run.violation("R1", g.where,
                          f"cached property `{name}` depends on state the cache key does not cover: {bad}; "
                          f"a change of that state leaves the memo stale", key=key_of("C01-R1", "Trimesh", name))
    owners = cache_owners(ix)
    run.floor("Cache constructions", len(owners), 12)
    run.analysed["cache_owners"] = [f"{c.name} ({idf})" for c, f, idf, ln in owners]

    # ------------------------------------------------------------------ R6 companions
    for key, prod in sorted(sp.items()):
        g = fps[prod][0]
        getter = fps.get(key)
        relies = False
        if getter is not None:
            txt = ast.unparse(getter[0].node)
            relies = f"self.{prod}" in txt and f"self._cache['{key}']" in txt
        run.instance("R6", g.where, f"`{key}` is a by-product of `{prod}`" + (" and its getter relies on it" if relies else ""), True, nontrivial=relies)
    companions = {k: v for k, v in sp.items() if k in fps}

    # ------------------------------------------------------------------ R2 / R2b / R5 over every surgery function
    surgery = []
    for m in ix.modules.values():
        for f in ix.all_functions:
            pass
    cand = []
    for f in ix.all_functions:
        if f.module.name.startswith("trimesh.path") or f.module.name.startswith("trimesh.scene") or f.module.name.startswith("trimesh.voxel") \
                or f.module.name.startswith("trimesh.visual") or f.module.name == "trimesh.caching" or f.module.name == "trimesh.points":
            continue
        txt = ast.unparse(f.node)
        if "_cache" not in txt:
            continue
        cand.append(f)
    n_surgery = 0
    for f in cand:
        owner, cls = None, None
        if f.cls is not None and T in f.cls.mro and f.parent is None:
            owner, cls = f.params[0], f.cls
        elif "mesh" in f.params:
            owner, cls = "mesh", T
        else:
            continue
        if f.kind in ("cached", "property") and f.cls is not None:
            continue
        if f.name in ("__init__", "__setstate__", "__new__"):
            continue  # construction: the cache object is created here, nothing can predate it
        all_keys = set(fps) | set(sp)
        done = check_surgery(run, ef, f, cls if f.cls is not None else None, owner, hashed_data, rhs_kind, footprint, all_keys,
                             INVARIANCE, companions, (lambda f_, k_, d_, kind_: _translation_only_ok(f_, k_, d_, kind_, ix)), "C01", transport_ok=TRANSPORT)
        if done:
            n_surgery += 1
    run.floor("Trimesh-family surgery functions", n_surgery, 4)

    # ------------------------------------------------------------------ R7 raw reads of memo dicts, repo-wide
    raw_reads(run, ix, ef, 'R7', 'C01', floor=6)

    # ------------------------------------------------------------------ R9 normal salvage in the re-indexing funnels
    run.rule("R9", "update_faces / update_vertices salvage cached normals on the correct side of their data writes (a merge re-index outside a lock must drop vertex normals)")
    from .c07 import _ordered

    uvf = T.methods["update_vertices"]
    cfgv = CFG(uvf.node, exceptions=False)
    m_ = uvf.params[1]
    ok = _ordered(cfgv, ["self.faces = inverse[self.faces.reshape(-1)].reshape((-1, 3))", "cached_normals = self._cache['vertex_normals']",
                         f"self.vertices = self.vertices[{m_}]", f"self.vertex_normals = cached_normals[{m_}]"])
    run.instance("R9", uvf.where, "vertex normals fetched after the face re-index, stored after the vertex write", ok)
    if not ok:
        run.violation("R9", uvf.where,
                      "update_vertices fetches cached vertex normals before faces are re-indexed (or stores them before the vertex write): "
                      "outside a cache lock a merge then keeps the pre-merge normal of the first vertex of each group",
                      key=key_of("C01-R9", "update_vertices"))
    uff = T.methods["update_faces"]
    cfgf = CFG(uff.node, exceptions=False)
    ok = _ordered(cfgf, ["cached_normals = self._cache['face_normals']", "self.faces = faces[mask]", "self.face_normals = cached_normals[mask]"])
    run.instance("R9", uff.where, "face normals fetched before the face write and stored after it", ok)
    if not ok:
        run.violation("R9", uff.where, "update_faces reads or stores the salvaged face normals on the wrong side of the face write",
                      key=key_of("C01-R9", "update_faces"))

    # ------------------------------------------------------------------ R5 transport guard in apply_transform
    _transport_guard(run, ix)

    # ------------------------------------------------------------------ R3 protocol
    _protocol(run, ix)

    # ------------------------------------------------------------------ R4 dependents
    _dependents(run, ix, ef, owners)
    _stale_locals(run, ix)
    from ..memostore import memo_store_rule
    memo_store_rule(run, ix, "R13", "C01", module_filter=None, floor=20)
    _salvage_sites(run, ix, ef, T)

    run.extra["effect_engine"] = dict(ef.stats)
    run.assume("receiver typing by the repository's naming conventions (mesh -> Trimesh, ...); dynamic attribute tricks (setattr, eval_cached) are outside the model")
    run.assume("in-place edits of the tracked arrays move the data hash (decided separately by C02)")
    return {
        "explanation": "Footprint analysis (interprocedural read/write effects over access paths) + path-sensitive simulation of Cache "
        "surgery on the CFG of every function that keeps memo entries across a data change: each surviving entry is either "
        "re-assigned by the function or independent of what was written (size-only reads survive count-preserving writes). "
        "Decides history independence structurally; whether a transported value is numerically right is decided only for the "
        "guard structure (R5).",
    }


_TG_CACHE = {}


def _transport_facts(ix, f):
    """apply_transform, name-free (value graph, sa/dag.py): for each kind of normals the store that transports them, its value
    node and the value nodes of the tests that enclose it"""
    key = (id(ix), f.qualname)
    if key in _TG_CACHE:
        return _TG_CACHE[key]
    from ..dag import Values
    V = Values(ix, f)
    out = {"V": V, "stores": {}}
    for st in ast.walk(f.node):
        if isinstance(st, ast.Assign) and isinstance(st.targets[0], ast.Subscript) and isinstance(st.targets[0].slice, ast.Constant) \
                and st.targets[0].slice.value in ("face_normals", "vertex_normals") and ast.unparse(st.targets[0].value) in ("self._cache.cache", "self._cache"):
            guards = [(V.value(i.test, i), pos, i) for i, pos in V.pv.enclosing_tests(st)]
            out["stores"].setdefault(st.targets[0].slice.value, []).append((st, V.value(st.value, st), guards))
    _TG_CACHE[key] = out
    return out


def _is_rotation_test(V, node, k):
    """`<not allclose(M[:3, :3], I)> and '<k>' in self._cache` in either order"""
    for t in (f"_e_ROT and '{k}' in P_self._cache", f"'{k}' in P_self._cache and _e_ROT", f"_e_ROT and '{k}' in P_self._cache.cache", f"'{k}' in P_self._cache.cache and _e_ROT"):
        e = V.match(t, node)
        if e is not None:
            for ident in ("_IDENTITY3", "numpy.eye(3)"):
                for tol in ("atol=_k_t, ", ""):
                    if V.match(f"not trimesh.util.allclose(a=P_matrix[:3, :3], {tol}b={ident})", e["_e_ROT"]) is not None \
                            or V.match(f"not numpy.allclose(P_matrix[:3, :3], {ident}{', atol=_k_t' if tol else ''})", e["_e_ROT"]) is not None:
                        return True
    return False


def _is_conformal_test(V, node):
    """every alternative of the flag other than the constant True (the value it has when there is no rotation and nothing is
    transported) contains allclose(L L^T / s, I) with L the linear part of the matrix"""
    n = V.dag.node(node) if isinstance(node, (ast.Name, str)) else node
    alts = list(n.args) if isinstance(n, ast.Call) and isinstance(n.func, ast.Name) and n.func.id == "PHI" else [node]
    seen = False
    for a in alts:
        an = V.dag.node(a) if isinstance(a, ast.Name) else a
        if isinstance(an, ast.Constant) and an.value is True:
            continue
        hits = []
        for ident in ("_IDENTITY3", "numpy.eye(3)"):
            hits += V.dag.find(f"trimesh.util.allclose(a=numpy.dot(_e_L, _e_L.T) / _e_S, atol=_k_t, b={ident})", a)
            hits += V.dag.find(f"trimesh.util.allclose(a=numpy.dot(_e_L, _e_L.T) / _e_S, b={ident})", a)
        if not any(V.match("P_matrix[:3, :3]", h[0]["_e_L"]) is not None for h in hits):
            return False
        seen = True
    return seen


def _translation_only_ok(f, k, d, kind, ix=None):
    """face/vertex normals may be carried unchanged across a vertex transform on the paths where the transport store is
    skipped, provided that store exists and is guarded by `<rot> and "<k>" in self._cache` with <rot> := not allclose(M[:3,:3], I)"""
    if not (k in ("face_normals", "vertex_normals") and d == "vertices" and kind == "transform") or ix is None:
        return False
    facts = _transport_facts(ix, f)
    V = facts["V"]
    return any(any(pos and _is_rotation_test(V, g, k) for g, pos, _ in guards) for _, _, guards in facts["stores"].get(k, []))


def _transport_guard(run, ix):
    f = ix.func("trimesh.base:Trimesh.apply_transform")
    facts = _transport_facts(ix, f)
    V = facts["V"]
    for k in ("face_normals", "vertex_normals"):
        ok = _translation_only_ok(f, k, "vertices", "transform", ix)
        run.instance("R5", f.where, f"`{k}` transport store present and guarded by rotation flag + presence in cache", ok)
        if not ok:
            run.violation("R5", f.where,
                          f"apply_transform keeps `{k}` across the vertex write but does not itself re-assign it under "
                          f"`has_rotation and '{k}' in self._cache`", key=key_of("C01-R5", k))
        # the stored value must be computed from the old normals and the same matrix, without translation
        for st, val, guards in facts["stores"].get(k, []):
            ok2 = V.match(f"trimesh.util.unitize(vectors=trimesh.transformations.transform_points(matrix=P_matrix, points=P_self.{k}, translate=False))", val) is not None
            run.instance("R5", f.where, f"`{k}` transported as unitize(M_linear . old normals)", ok2)
            if not ok2:
                run.violation("R5", f.where, f"`{k}` is re-assigned from `{V.text(val, 4, 90)}`: not the old normals mapped by the "
                                             f"linear part of the same matrix", key=key_of("C01-R5", k, "formula"))
            # variance: mapping a normal by the linear part itself is only right for angle-preserving matrices
            ok3 = any(pos and _is_conformal_test(V, g) for g, pos, _ in guards)
            run.instance("R5", f.where, f"`{k}` transport happens only under a conformality test (L L^T / s == I)", ok3)
            if not ok3:
                run.violation("R5", f.where,
                              f"`{k}` is mapped by the matrix' linear part with no guard that the matrix preserves angles "
                              f"(L L^T proportional to I): under non-uniform scale or shear the kept normals are wrong",
                              key=key_of("C01-R5", k, "variance"))
    # every value naming the normals that can reach `exclude=` must be bound under the same test
    m = f.module

    def names_normals(e):
        if isinstance(e, (ast.Set, ast.List, ast.Tuple)):
            return any(isinstance(x, ast.Constant) and x.value in ("face_normals", "vertex_normals") for x in e.elts)
        if isinstance(e, ast.Call) and isinstance(e.func, ast.Name) and e.func.id in ("set", "frozenset", "list", "tuple") and len(e.args) == 1:
            return names_normals(e.args[0])
        if isinstance(e, ast.Name) and e.id in m.constants and len(m.constants[e.id]) == 1:
            return names_normals(m.constants[e.id][0].value)
        return False

    for st in ast.walk(f.node):
        if isinstance(st, ast.Assign) and names_normals(st.value):
            ok = any(pos and _is_conformal_test(V, V.value(i.test, i)) for i, pos in V.pv.enclosing_tests(st))
            run.instance("R5", f.where, "the keep-set naming the normals is built only under the conformality test", ok)
            if not ok:
                run.violation("R5", f.where,
                              "normals are put in the set of keys kept across the transform on a path that has not established that the "
                              "matrix preserves angles", key=key_of("C01-R5", "keepset-variance"))


def _protocol(run, ix):
    f = ix.func("trimesh.caching:cache_decorator")
    # the wrapper is the nested function that calls the decorated function (by role: its name is private to the decorator)
    par = f.node.args.args[0].arg if f.node.args.args else None
    wrappers = [g for g in f.nested.values()
                if any(isinstance(c, ast.Call) and isinstance(c.func, ast.Name) and c.func.id == par for c in ast.walk(g.node))]
    if len(wrappers) != 1:
        raise AnalysisError(f"anchor vanished: the wrapper inside cache_decorator that calls the decorated function ({len(wrappers)} candidates)")
    inner = wrappers[0]
    cfg = CFG(inner.node, exceptions=False)
    ver = [n for n, st in cfg.stmt.items() if st is not None and cfg.kind[n] == "stmt" and "._cache.verify()" in ast.unparse(st)]
    uses = [n for n, st in cfg.stmt.items() if st is not None and cfg.kind[n] in ("stmt", "test") and
            "._cache.cache" in ast.unparse(st if cfg.kind[n] == "stmt" else st.test)]
    ok = bool(ver) and bool(uses) and all(any(cfg.dominates(v, u) for v in ver) for u in uses)
    run.instance("R3", inner.where, f"verify() dominates all {len(uses)} direct uses of the memo dict", ok)
    if not ok:
        run.violation("R3", inner.where, "cache_decorator reads or fills the memo dict on a path that has not called verify()",
                      key=key_of("C01-R3", "cache_decorator"))
    # the value stored is the value computed and returned; key is the function name
    txt = ast.unparse(inner.node)
    ok = "name = function.__name__" in txt and "self._cache.cache[name] = value" in txt and "value = function(*args, **kwargs)" in txt
    run.instance("R3", inner.where, "memo key is the producer's own name; stored value is the computed value", ok)
    if not ok:
        run.violation("R3", inner.where, "cache_decorator does not store the computed value under the producer's name",
                      key=key_of("C01-R3", "cache_decorator-store"))
    C = ix.modules["trimesh.caching"].classes.get("Cache")
    if C is None:
        raise AnalysisError("anchor vanished: caching.Cache")
    for name in ("__getitem__", "__setitem__", "__contains__", "__len__"):
        m = C.methods.get(name)
        if m is None:
            raise AnalysisError(f"anchor vanished: Cache.{name}")
        cfg = CFG(m.node, exceptions=False)
        ver = [n for n, st in cfg.stmt.items() if st is not None and cfg.kind[n] == "stmt" and ast.unparse(st).strip() == "self.verify()"]
        uses = [n for n, st in cfg.stmt.items() if st is not None and cfg.kind[n] in ("stmt", "test") and
                "self.cache" in ast.unparse(st if cfg.kind[n] == "stmt" else st.test)]
        ok = bool(ver) and all(any(cfg.dominates(v, u) for v in ver) for u in uses)
        run.instance("R3", m.where, f"Cache.{name}: verify() dominates every use of self.cache", ok)
        if not ok:
            run.violation("R3", m.where, f"Cache.{name} touches the memo dict without verifying the id first", key=key_of("C01-R3", name))
    v = C.methods.get("verify")
    from ..pathsum import summaries
    from ..provenance import Prov
    pvv = Prov(ix, v)

    def cv(e, origin=None):
        st = pvv.stmt_of(origin if origin is not None else e)
        return pvv.canon(e, st) if st is not None else ast.unparse(e)

    SAME = "P_self._id_function() == P_self.id_current"
    SAME2 = "P_self.id_current == P_self._id_function()"
    n_paths = 0
    bad_dump = bad_keep = bad_early = None
    for ps in summaries(v.node, canon=cv):
        n_paths += 1
        same = ps.holds(SAME)
        if same is None:
            same = ps.holds(SAME2)
        dumps = ps.has_stmt(lambda s_: isinstance(s_, ast.Assign) and ast.unparse(s_.targets[0]) == "self.cache" and ast.unparse(s_.value) in ("{}", "dict()"))
        adopts = ps.has_stmt(lambda s_: isinstance(s_, ast.Assign) and ast.unparse(s_.targets[0]) == "self.id_current"
                             and cv(s_.value) == "P_self._id_function()")
        if same is False and not (dumps and adopts):
            bad_dump = ps
        if same is True and dumps:
            bad_keep = ps
        if same is None:
            # the id was not compared on this path: only the lock may end verify() early
            locked = any(t.replace(" ", "") in ("P_self._lock==0", "P_self._lock>0", "P_self._lock", "P_self._lock!=0") for t, p_ in ps.conds)
            if not locked:
                bad_early = ps
    ok = n_paths >= 2 and bad_dump is None and bad_keep is None
    run.instance("R3", v.where, f"verify(): on every path where the id differs the dict is replaced and the id adopted; kept when equal ({n_paths} paths)", ok)
    if not ok:
        run.violation("R3", v.where, "Cache.verify no longer dumps the memo dict whenever the id function's value changed", key=key_of("C01-R3", "verify"))
    ok = bad_early is None
    run.instance("R3", v.where, "verify(): a path that does not compare the id is an early return under the lock", ok)
    if not ok:
        run.violation("R3", v.where, f"Cache.verify ends without comparing the id under {sorted(bad_early.conds)}: only the lock may suspend verification",
                      key=key_of("C01-R3", "verify-early"))
    ex = C.methods.get("__exit__")
    txt = ast.unparse(ex.node)
    ok = "self._lock -= 1" in txt and "self.id_current = self._id_function()" in txt
    run.instance("R3", ex.where, "__exit__ releases the lock and adopts the current id", ok)
    if not ok:
        run.violation("R3", ex.where, "Cache.__exit__ protocol changed", key=key_of("C01-R3", "exit"))
    # DataStore.__setitem__ stores what it was given under the key (so the hash moves)
    ds = ix.func("trimesh.caching:DataStore.__setitem__")
    txt = ast.unparse(ds.node)
    ok = "self.data[key] = tracked" in txt
    run.instance("R3", ds.where, "DataStore.__setitem__ stores the (tracked) value under the key", ok)
    if not ok:
        run.violation("R3", ds.where, "DataStore.__setitem__ no longer stores the tracked value", key=key_of("C01-R3", "datastore-set"))
    # setters of hashed data go through the DataStore
    T = ix.cls("trimesh.base.Trimesh")
    for field in ("vertices", "faces", "center_mass", "density"):
        s = T.setters.get(field)
        if s is None:
            raise AnalysisError(f"anchor vanished: Trimesh.{field} setter")
        stores = [st for st in ast.walk(s.node) if isinstance(st, ast.Assign) and isinstance(st.targets[0], ast.Subscript)
                  and ast.unparse(st.targets[0].value) == "self._data" and isinstance(st.targets[0].slice, ast.Constant)
                  and st.targets[0].slice.value == field]
        cfg = CFG(s.node, exceptions=False)
        ok = bool(stores)
        run.instance("R3", s.where, f"setter stores into self._data['{field}']", ok)
        if not ok:
            run.violation("R3", s.where, f"Trimesh.{field} setter does not store through the hashed DataStore", key=key_of("C01-R3", "setter", field))
            continue
        # ... on EVERY path to a normal exit: a path that leaves without re-binding the entry (an in-place copy into the stored buffer, a
        # silent return) changes bytes that another tracked array may share without that array's flag being raised
        import networkx as _nx
        g2 = cfg.g.copy()
        g2.remove_nodes_from([n_ for st in stores for n_ in cfg.nodes_of.get(id(st), [])])
        bypass = cfg.exit in g2 and cfg.entry in g2 and _nx.has_path(g2, cfg.entry, cfg.exit)
        run.instance("R3", s.where, f"every path through the {field} setter re-binds self._data['{field}']", not bypass)
        if bypass:
            inplace = [st for st in ast.walk(s.node) if isinstance(st, ast.Assign) and isinstance(st.targets[0], ast.Subscript) and not ast.unparse(st.targets[0].value).startswith("self._data")]
            run.violation("R3", s.where, f"Trimesh.{field} setter has a path that returns without `self._data['{field}'] = ...`"
                          + (f" (it writes `{ast.unparse(inplace[0])[:50]}` into the array that is already stored)" if inplace else "")
                          + ": the stored buffer may be memory the caller - or a second mesh / path built on the same array - also tracks, and that other TrackedArray keeps its "
                            "memoised hash while its bytes change", key=key_of("C01-R3", "setter-bypass", field))


SALVAGE = {
    ("Trimesh.update_faces", "face_normals"): "rows of the cached normals selected by the same mask as the faces (R9 checks the side of the write)",
    ("Trimesh.update_vertices", "vertex_normals"): "rows selected by the same mask as the vertices; dropped when a merge re-indexes outside a lock (R9)",
    ("Trimesh.invert", "face_normals"): "negated: reversing the winding of every face negates every face normal",
    ("Trimesh.invert", "vertex_normals"): "negated together with the face normals",
    ("fix_inversion", "face_normals"): "rows of the flipped bodies negated, the rest unchanged",
    ("fill_holes", "face_normals"): "old faces keep their rows; normals of the appended faces are computed from the appended faces",
}


def _salvage_sites(run, ix, ef, T):
    """R11 / R12: values read from the memo before a data write and stored back after it"""
    import networkx as nx

    run.rule("R11", "a memo value read before a write of hashed data and stored back after it (a salvage) happens only at the reviewed sites; anywhere else the value must be recomputed")
    run.rule("R12", "normals assigned through the validating setters are assigned after the data write they belong to (the setter compares them with the current triangles and silently drops a mismatch)")

    def names(e):
        return {n.id for n in ast.walk(e) if isinstance(n, ast.Name) and isinstance(n.ctx, ast.Load)}

    found = set()
    n12 = 0
    for f in ix.all_functions:
        src = ast.unparse(f.node)
        if "_cache" not in src and "face_normals" not in src and "vertex_normals" not in src:
            continue
        owner = cls = None
        if f.cls is not None and T in getattr(f.cls, "mro", []):
            owner, cls = f.params[0], f.cls
        elif "mesh" in f.params:
            owner, cls = "mesh", T
        if owner is None or f.name in ("__init__", "__setstate__"):
            continue
        try:
            sim = CacheSim(ef, f, cls, owner, hashed_data, rhs_kind)
        except RecursionError:
            continue
        cfg, rd = sim.cfg, sim._rd
        writes = [n for n, fx in sim.fx.items() if fx.data_writes]
        if not writes:
            continue
        for n, fx in sim.fx.items():
            st = cfg.stmt[n]
            if not isinstance(st, ast.Assign):
                continue
            t = st.targets[0]
            key = None
            setter = isinstance(t, ast.Attribute) and t.attr in ("face_normals", "vertex_normals") and ast.unparse(t.value) == owner
            if setter:
                key = t.attr
            elif fx.memo_stores:
                key = ",".join(sorted(fx.memo_stores))
            if key is None:
                continue
            if setter:
                # R12: no write of the faces / vertices may follow the validated store on any path
                later = [w for w in writes if w != n and nx.has_path(cfg.g, n, w) and not nx.has_path(cfg.g, w, n)
                         and any(d[0] in ("faces", "vertices", "*") for d in sim.fx[w].data_writes)]
                n12 += 1
                ok = not later
                run.instance("R12", f.where, f"{f.qualname}: `{owner}.{key} = ...` (line {st.lineno}) is not followed by a write of faces / vertices", ok)
                if not ok:
                    run.violation("R12", f.where, f"`{f.qualname}` assigns `{owner}.{key}` at line {st.lineno} and writes the faces / vertices afterwards (line "
                                                  f"{cfg.stmt[later[0]].lineno}): the setter validates against the triangles as they are at the assignment, so the normals "
                                                  f"are either rejected or kept for data they do not belong to", key=key_of("C01-R12", f.qualname, key))
            for v in names(st.value):
                for (x, d) in rd[n]:
                    if x != v or d == cfg.entry or d not in sim.fx:
                        continue
                    dst = cfg.stmt[d]
                    reads_memo = bool(sim.fx[d].memo_reads) or "_cache.cache" in ast.unparse(dst) or any(
                        isinstance(a, ast.Attribute) and a.attr in ("face_normals", "vertex_normals") and ast.unparse(a.value) == owner and isinstance(a.ctx, ast.Load)
                        for a in ast.walk(dst))
                    if not reads_memo:
                        continue
                    if any(w != d and w != n and nx.has_path(cfg.g, d, w) and nx.has_path(cfg.g, w, n) for w in writes):
                        found.add((f, key))
    for f, key in sorted(found, key=lambda x: (x[0].where, x[1])):
        why = SALVAGE.get((f.qualname, key))
        ok = why is not None
        run.instance("R11", f.where, f"{f.qualname} salvages `{key}` across its data write: {why or 'NOT a reviewed salvage site'}", ok)
        if not ok:
            run.violation("R11", f.where, f"`{f.qualname}` reads `{key}` from the memo, writes hashed data (directly or through a callee) and stores the old value back: nothing "
                                          f"establishes that the value still belongs to the new data (not in the table of reviewed salvage sites)",
                          key=key_of("C01-R11", f.qualname, key))
    run.floor("reviewed salvage sites found", len([1 for f, k in found if (f.qualname, k) in SALVAGE]), 4)
    run.floor("validated normal stores", n12, 5)


def _stale_locals(run, ix):
    """R10: a value a function stores as normals / into a memo was derived from the FINAL state of the local arrays it was derived from"""
    import networkx as nx
    from ..cfg import reaching_defs

    run.rule("R10", "a value stored as face / vertex normals or into a memo dict is not derived from a local array that the function changes in place "
                    "between the derivation and the store (the faces stored would no longer be the faces the normals belong to)")
    MUT = {"sort", "fill", "put", "partition", "resize", "reverse", "append", "extend", "insert", "remove", "pop", "itemset", "byteswap"}

    def names(e):
        return {n.id for n in ast.walk(e) if isinstance(n, ast.Name) and isinstance(n.ctx, ast.Load)}

    n_sinks = 0
    for f in ix.all_functions:
        sinks = []
        for st in ast.walk(f.node):
            if isinstance(st, ast.Assign):
                t = st.targets[0]
                tt = ast.unparse(t)
                if (isinstance(t, ast.Attribute) and t.attr in ("face_normals", "vertex_normals")) or "_cache[" in tt or "_cache.cache[" in tt:
                    sinks.append(st)
        if not sinks:
            continue
        try:
            cfg = CFG(f.node, exceptions=False)
        except RecursionError:
            continue
        mut = {}
        for n, st in cfg.stmt.items():
            if st is None or cfg.kind[n] != "stmt":
                continue
            ms = set()
            if isinstance(st, (ast.Assign, ast.AugAssign)):
                for t in (st.targets if isinstance(st, ast.Assign) else [st.target]):
                    if isinstance(t, ast.Subscript) and isinstance(t.value, ast.Name):
                        ms.add(t.value.id)
            if isinstance(st, ast.Expr) and isinstance(st.value, ast.Call) and isinstance(st.value.func, ast.Attribute) \
                    and st.value.func.attr in MUT and isinstance(st.value.func.value, ast.Name):
                ms.add(st.value.func.value.id)
            if ms:
                mut[n] = ms
        rd = reaching_defs(cfg) if mut else None
        for st in sinks:
            ns = cfg.nodes_of.get(id(st))
            if not ns:
                continue
            n_sinks += 1
            bad = None
            if mut:
                n = ns[0]
                for v in names(st.value):
                    for (x, d) in rd[n]:
                        if x != v or d == cfg.entry:
                            continue
                        dst = cfg.stmt[d]
                        if not isinstance(dst, ast.Assign):
                            continue
                        srcs = names(dst.value)
                        for m, ms in mut.items():
                            for a in ms & srcs:
                                if d != m and nx.has_path(cfg.g, d, m) and nx.has_path(cfg.g, m, n) and not nx.has_path(cfg.g, m, d):
                                    bad = (v, dst.lineno, a, cfg.stmt[m].lineno)
            ok = bad is None
            run.instance("R10", f.where, f"{f.qualname}: `{ast.unparse(st.targets[0])[:40]}` is stored from values derived after the last in-place change of their sources", ok)
            if not ok:
                v, dl, a, ml = bad
                run.violation("R10", f.where, f"`{f.qualname}` stores `{ast.unparse(st.targets[0])[:40]}` from `{v}` (computed at line {dl} from `{a}`), but `{a}` is changed in place "
                                              f"at line {ml} afterwards: the stored value describes the array as it was before that change", key=key_of("C01-R10", f.qualname, v, a))
    run.floor("normal / memo stores examined", n_sinks, 25)


def _dependents(run, ix, ef, owners):
    """objects holding a cache about a mesh: id function must be the mesh hash"""
    n = 0
    for c, f, idf, ln in owners:
        if c.module.name.startswith("trimesh.ray"):
            n += 1
            ok = idf in ("self.mesh.__hash__",)
            run.instance("R4", f"{c.module.rel}:{ln} {c.name}.{f.name}", f"cache id function: {idf}", ok)
            if not ok:
                run.violation("R4", f"{c.module.rel}:{ln} {c.name}.{f.name}",
                              f"ray query cache is keyed on `{idf}` instead of the mesh content hash", key=key_of("C01-R4", c.name, f.name))
    run.floor("ray intersector caches", n, 3)
    # ProximityQuery holds no cache of its own: it must read through mesh properties only
    pq = ix.modules["trimesh.proximity"].classes.get("ProximityQuery")
    if pq is None:
        raise AnalysisError("anchor vanished: proximity.ProximityQuery")
    init = pq.methods["__init__"]
    fields = [st.targets[0].attr for st in ast.walk(init.node) if isinstance(st, ast.Assign) and isinstance(st.targets[0], ast.Attribute)]
    ok = fields == ["_mesh"] or set(fields) <= {"_mesh", "mesh"}
    run.instance("R4", init.where, f"ProximityQuery stores only a reference to the mesh ({fields})", ok)
    if not ok:
        run.violation("R4", init.where, f"ProximityQuery keeps state of its own ({fields}) that is not keyed on the mesh hash",
                      key=key_of("C01-R4", "ProximityQuery"))
    # triangles_tree / kdtree are cached properties of the mesh itself (covered by R1)
    T = ix.cls("trimesh.base.Trimesh")
    for name in ("triangles_tree", "kdtree"):
        ok = name in T.getters and T.getters[name].kind == "cached"
        run.instance("R4", T.where, f"{name} is a cache_decorator property of the mesh", ok)
        if not ok:
            run.violation("R4", T.where, f"{name} is no longer memoised under the mesh data hash", key=key_of("C01-R4", name))
