"""C07 - re-indexing keeps attached data aligned (narrow).

Decides: in the two re-indexing funnels (Trimesh.update_faces / update_vertices) and in the
visuals' update_* methods every per-face / per-vertex store is sliced by the same mask on
every path that reaches the data write; only classified functions change the number or order
of faces / vertices of an existing mesh; the merge key is built from raw attributes scaled by
positive constants only; stacking offsets count every vertex group; derived visual memos.
"""
from __future__ import annotations

import ast
import re

import networkx as nx

from ..cfg import CFG
from ..effects import Effects, Summary, _Analyzer
from ..index import Index
from ..report import AnalysisError, key_of

LEVEL = "other"

# functions allowed to change the number / order of faces or vertices of an existing mesh (frozen, reasoned)
COUNT_CHANGERS = {
    "trimesh.base:Trimesh.update_faces": "the face funnel",
    "trimesh.base:Trimesh.update_vertices": "the vertex funnel",
    "trimesh.base:Trimesh.faces@setter": "reassignment by the user / funnels",
    "trimesh.base:Trimesh.vertices@setter": "reassignment by the user / funnels",
    "trimesh.base:Trimesh.__init__": "construction",
    "trimesh.base:Trimesh.unmerge_vertices": "re-indexes through update_vertices, then sets incrementing faces",
    "trimesh.repair:fill_holes": "appends new faces / vertices after the originals and re-attaches colours and normals itself",
}
# same-count writers: change values of faces / vertices but neither count nor order
SAME_COUNT = {
    "trimesh.base:Trimesh.apply_transform": "moves vertices, reverses winding column-wise",
    "trimesh.base:Trimesh.invert": "reverses winding column-wise",
    "trimesh.repair:fix_winding": "reverses individual faces in place",
    "trimesh.repair:fix_inversion": "reverses faces of inverted bodies",
    "trimesh.repair:broken_faces": "no write (colour only)",
    "trimesh.units:_convert_units": "scales through apply_transform",
    "trimesh.smoothing:filter_laplacian": "moves vertices", "trimesh.smoothing:filter_humphrey": "moves vertices",
    "trimesh.smoothing:filter_taubin": "moves vertices", "trimesh.smoothing:filter_mut_dif_laplacian": "moves vertices",
    "trimesh.registration:nricp_amberg": "moves vertices of a copy", "trimesh.registration:nricp_sumner": "moves vertices of a copy",
    "trimesh.permutate:transform": "copy", "trimesh.permutate:noise": "copy", "trimesh.permutate:tessellation": "copy",
}


def _mask_slices(fnode, mask):
    """subscript expressions `X[mask]` in the function -> list of unparse(X)"""
    out = []
    for n in ast.walk(fnode):
        if isinstance(n, ast.Subscript) and isinstance(n.slice, ast.Name) and n.slice.id == mask and isinstance(n.ctx, ast.Load):
            out.append((ast.unparse(n.value), n))
    return out


def check(run):
    ix = Index(run.repo)
    ef = Effects(ix)
    run.analysed.update(ix.stats())
    run.rule("R1", "mask coverage: faces, face normals, face attributes and the visual (resp. vertices, vertex normals, vertex attributes, visual) are all sliced by the same mask, before/after the data write as the cache requires")
    run.rule("R2", "closed writer set: only the classified functions assign Trimesh faces / vertices of an existing mesh")
    run.rule("R3", "visuals: update_faces / update_vertices slice every stored per-element array with the mask they were given; derived colour memos do not outlive a change of mesh.faces")
    run.rule("R4", "merge key: vertex position, uv and normal enter the key only as the raw attribute times a positive constant, rounded once")
    run.rule("R5", "stacking: the index offset of every group counts the vertices of ALL preceding groups (also those without faces); face-index dtype is not narrowed")

    T = ix.cls("trimesh.base.Trimesh")
    # ------------------------------------------------------------------ R1 update_faces
    uf = T.methods["update_faces"]
    mask = uf.params[1]
    cfg = CFG(uf.node, exceptions=False)
    sl = _mask_slices(uf.node, mask)
    sliced = [s for s, _ in sl]
    need = {
        "faces": any(s in ("faces", "self.faces", "self._data['faces']") for s in sliced),
        "face_attributes": "value" in sliced and "for key, value in self.face_attributes.items()" in ast.unparse(uf.node)
        and "self.face_attributes[key] = value[mask]" in ast.unparse(uf.node),
        "face_normals": any(s == "cached_normals" for s in sliced) and "self.face_normals = cached_normals[mask]" in ast.unparse(uf.node),
        "visual": f"self.visual.update_faces({mask})" in ast.unparse(uf.node),
    }
    for what, ok in need.items():
        run.instance("R1", uf.where, f"update_faces: {what} re-indexed with `{mask}`", ok)
        if not ok:
            run.violation("R1", uf.where, f"update_faces does not apply the face mask to {what}: that per-face data no longer lines up with the faces",
                          key=key_of("C07-R1", "update_faces", what))
    # no slice with a modified mask (~mask, mask[...], other variables) on per-face data
    for n in ast.walk(uf.node):
        if isinstance(n, ast.Subscript) and isinstance(n.ctx, ast.Load) and ast.unparse(n.value) in ("faces", "value", "cached_normals"):
            ok = isinstance(n.slice, ast.Name) and n.slice.id == mask
            run.instance("R1", uf.where, f"`{ast.unparse(n)}` uses the mask itself", ok)
            if not ok:
                run.violation("R1", uf.where, f"`{ast.unparse(n)}` slices per-face data with something other than the mask `{mask}`",
                              key=key_of("C07-R1", "update_faces", "other-mask", ast.unparse(n.value)))
    # the cached normals must be read before faces are written, the data write must precede the normal store
    order_ok = _ordered(cfg, ["cached_normals = self._cache['face_normals']", "self.faces = faces[mask]", "self.face_normals = cached_normals[mask]"])
    run.instance("R1", uf.where, "normals fetched before the face write and stored after it", order_ok)
    if not order_ok:
        run.violation("R1", uf.where, "update_faces reads or stores the salvaged face normals on the wrong side of the face write "
                                      "(the write dumps the cache; a store before it is lost, a read after it returns nothing)",
                      key=key_of("C07-R1", "update_faces", "order"))
    # the mask handed to the funnel is not altered between the stores
    reass = [st for st in ast.walk(uf.node) if isinstance(st, ast.Assign) and any(isinstance(t, ast.Name) and t.id == mask for t in st.targets)]
    ok = all(ast.unparse(st.value) in (f"np.asanyarray({mask})", f"np.asarray({mask})") for st in reass)
    run.instance("R1", uf.where, f"the mask is only normalised ({[ast.unparse(s) for s in reass]})", ok)
    if not ok:
        run.violation("R1", uf.where, "update_faces changes the mask between the stores it applies it to", key=key_of("C07-R1", "update_faces", "mask-reassigned"))

    # ------------------------------------------------------------------ R1 update_vertices
    uv = T.methods["update_vertices"]
    mask = uv.params[1]
    txt = ast.unparse(uv.node)
    need = {
        "vertices": f"self.vertices = self.vertices[{mask}]" in txt,
        "vertex_attributes": f"self.vertex_attributes[key] = value[{mask}]" in txt and "for key, value in self.vertex_attributes.items()" in txt,
        "vertex_normals": f"self.vertex_normals = cached_normals[{mask}]" in txt,
        "visual": f"self.visual.update_vertices({mask})" in txt,
        "faces re-indexed through the inverse": "self.faces = inverse[self.faces.reshape(-1)].reshape((-1, 3))" in txt,
    }
    for what, ok in need.items():
        run.instance("R1", uv.where, f"update_vertices: {what}", ok)
        if not ok:
            run.violation("R1", uv.where, f"update_vertices does not carry {what} through the vertex mask", key=key_of("C07-R1", "update_vertices", what))
    # default inverse construction: boolean and integer masks
    # (decided per case on the function specialised to a boolean / an integer mask - sa/specialise.py - so that an
    # if / elif chain, a conditional expression or a pre-test `kind in ('b', 'i')` are all the same thing)
    from ..normalize import Folder
    from ..specialise import specialise
    inv_p = uv.params[2] if len(uv.params) > 2 else "inverse"
    got, sites = {}, 0
    for kind_, name_ in (("b", "bool"), ("i", "int64")):
        spec_, n_ = specialise(uv.node, {f"{mask}.dtype.kind": kind_, f"{mask}.dtype.name": name_})
        Folder().fold_function(spec_)
        sites += n_
        got[kind_] = sorted({ast.unparse(st_.value) for st_ in ast.walk(spec_) if isinstance(st_, ast.Assign)
                             and ast.unparse(st_.targets[0]) == f"{inv_p}[{mask}]"})
    want = {"b": [f"np.arange({mask}.sum())"], "i": [f"np.arange(len({mask}))"]}
    alt = {"b": [f"np.arange(np.count_nonzero({mask}))"], "i": want["i"]}
    if sites == 0 and not any(got.values()):
        run.instance("R1", uv.where, "default inverse: no test of the mask's dtype kind and no store into the inverse - NOT decided", True, nontrivial=False)
        run.assume("update_vertices: construction of the default inverse not in a recognised form")
    else:
        ok = all(got[k_] in (want[k_], alt[k_]) for k_ in ("b", "i"))
        run.instance("R1", uv.where, f"default inverse built for boolean and integer masks ({got})", ok)
        if not ok:
            run.violation("R1", uv.where, f"update_vertices builds the default inverse differently (boolean mask: {got['b']}, integer mask: {got['i']})",
                          key=key_of("C07-R1", "update_vertices", "inverse"))
    # salvage of vertex normals: fetched from the memo AFTER the face re-index (so that outside a cache lock a re-index
    # through a non-trivial inverse - a merge - drops them instead of keeping the first vertex' normal)
    cfgv = CFG(uv.node, exceptions=False)
    ok = _ordered(cfgv, ["self.faces = inverse[self.faces.reshape(-1)].reshape((-1, 3))", "cached_normals = self._cache['vertex_normals']",
                         f"self.vertices = self.vertices[{mask}]", f"self.vertex_normals = cached_normals[{mask}]"])
    run.instance("R1", uv.where, "vertex normals are fetched after faces were re-indexed and stored after the vertex write", ok)
    if not ok:
        run.violation("R1", uv.where,
                      "update_vertices fetches the cached vertex normals before the faces are re-indexed (or stores them before the vertex "
                      "write): after a merge the salvaged normals are those of the first vertex of each group, not those of the merged mesh",
                      key=key_of("C07-R1", "update_vertices", "normal-order"))

    # ------------------------------------------------------------------ R3 visuals
    _visuals(run, ix, ef)
    _submesh_selection(run, ix)

    # ------------------------------------------------------------------ R2 closed writer set
    n_w = 0
    for f in ix.all_functions:
        spec = f"{f.module.name}:{f.qualname}"
        if f.kind == "setter" and f.cls is not None:
            spec = f"{f.module.name}:{f.cls.name}.{f.name}@setter"
        txt = ast.unparse(f.node)
        if ".faces =" not in txt and ".vertices =" not in txt and "_data['faces']" not in txt and "_data['vertices']" not in txt:
            continue
        for st in ast.walk(f.node):
            tgt = None
            if isinstance(st, ast.Assign):
                for t in st.targets:
                    if isinstance(t, ast.Attribute) and t.attr in ("faces", "vertices"):
                        tgt = t
                    if isinstance(t, ast.Subscript) and ast.unparse(t.value).endswith("._data") and isinstance(t.slice, ast.Constant) \
                            and t.slice.value in ("faces", "vertices"):
                        tgt = t
            if tgt is None:
                continue
            recv = tgt.value if isinstance(tgt, ast.Attribute) else tgt.value.value
            rname = ast.unparse(recv)
            # only stores into an EXISTING mesh handed to / owning the function: self (Trimesh family) or a parameter named mesh
            is_trimesh_self = rname == "self" and f.cls is not None and T in f.cls.mro and f.parent is None
            is_param_mesh = rname in ("mesh",) and rname in f.params
            if not (is_trimesh_self or is_param_mesh):
                continue
            n_w += 1
            if spec in COUNT_CHANGERS:
                run.instance("R2", f"{f.module.rel}:{st.lineno} {f.qualname}", f"`{ast.unparse(st)[:60]}`: {COUNT_CHANGERS[spec]}", True)
                continue
            if spec in SAME_COUNT:
                run.instance("R2", f"{f.module.rel}:{st.lineno} {f.qualname}", f"`{ast.unparse(st)[:60]}`: same-count writer - {SAME_COUNT[spec]}", True)
                continue
            # a same-count expression is accepted anywhere: transform_points / fliplr / arithmetic on the same array
            v = ast.unparse(st.value)
            same = ("transform_points(" in v) or ("fliplr(" in v) or (f"{rname}.{tgt.attr if isinstance(tgt, ast.Attribute) else ''}" in v and "[" not in v)
            run.instance("R2", f"{f.module.rel}:{st.lineno} {f.qualname}", f"`{ast.unparse(st)[:70]}`: {'same-count expression' if same else 'UNCLASSIFIED'}", same)
            if not same:
                run.violation("R2", f"{f.module.rel}:{st.lineno} {f.qualname}",
                              f"`{ast.unparse(st)[:80]}` re-assigns {tgt.attr if isinstance(tgt, ast.Attribute) else 'data'} of an existing mesh outside "
                              f"the re-indexing funnels: colours, attributes and normals attached to the old elements are not re-indexed with it",
                              key=key_of("C07-R2", spec, ast.unparse(tgt)))
    run.floor("face/vertex writers examined", n_w, 10)

    # ------------------------------------------------------------------ R4 merge key
    mv = ix.func("trimesh.grouping:merge_vertices")
    from ..provenance import Prov
    pm = Prov(ix, mv)
    # the key is whatever list reaches numpy.column_stack: its literal elements and everything appended to it
    comps, acc = [], None
    for c in ast.walk(mv.node):
        if isinstance(c, ast.Call) and pm.callee(c.func) == "numpy.column_stack" and len(c.args) == 1:
            if isinstance(c.args[0], ast.Name):
                acc = c.args[0].id
            elif isinstance(c.args[0], (ast.List, ast.Tuple)):
                comps += list(c.args[0].elts)
    for st in ast.walk(mv.node):
        if acc and isinstance(st, ast.Assign) and isinstance(st.targets[0], ast.Name) and st.targets[0].id == acc and isinstance(st.value, (ast.List, ast.Tuple)):
            comps += list(st.value.elts)
        if acc and isinstance(st, ast.Call) and isinstance(st.func, ast.Attribute) and st.func.attr == "append" and ast.unparse(st.func.value) == acc:
            comps += list(st.args)
        if acc and isinstance(st, ast.AugAssign) and ast.unparse(st.target) == acc and isinstance(st.value, (ast.List, ast.Tuple)):
            comps += list(st.value.elts)
    if len(comps) < 3:
        raise AnalysisError("anchor vanished: the three components of the merge key in grouping.merge_vertices")
    for c in comps:
        ok = (isinstance(c, ast.BinOp) and isinstance(c.op, ast.Mult) and isinstance(c.left, (ast.Attribute, ast.Name))
              and isinstance(c.right, ast.BinOp) and isinstance(c.right.op, ast.Pow) and ast.unparse(c.right.left) == "10")
        run.instance("R4", mv.where, f"key component `{ast.unparse(c)}` is raw attribute x 10**digits", ok)
        if not ok:
            run.violation("R4", mv.where, f"merge key component `{ast.unparse(c)}` is not the raw attribute scaled by a positive constant: "
                                          f"distinct values can collapse (or equal ones separate) before rounding",
                          key=key_of("C07-R4", ast.unparse(c)))
    # pipeline, on canonical forms (local names do not matter): update_vertices(mask = nonzero(R)[0][U], inverse = V) with
    # U, I = unique_rows(KEY[R], keep_order=True), KEY = column_stack(...).round().astype(int64), V[R] = I
    KEY = r"numpy\.column_stack\(.+\)\.round\(\)\.astype\(numpy\.int64\)"
    UNI = r"trimesh\.grouping\.unique_rows\(" + KEY + r"\[L_(?P<R>\w+)\], keep_order=True\)"
    ok = False
    detail = "no update_vertices(mask=..., inverse=...) call"
    for c in ast.walk(mv.node):
        if isinstance(c, ast.Call) and isinstance(c.func, ast.Attribute) and c.func.attr == "update_vertices":
            stc = pm.stmt_of(c)
            kw = {k.arg: k.value for k in c.keywords}
            pnames = ["mask", "inverse"]
            for i_, a_ in enumerate(c.args[:2]):
                kw.setdefault(pnames[i_], a_)
            if "mask" not in kw or "inverse" not in kw:
                continue
            refs = [n.id for n in ast.walk(mv.node) if isinstance(n, ast.Name)]
            # which local plays the role of the referenced-vertex mask: the one numpy.nonzero is applied to
            rn = [x.args[0].id for x in ast.walk(mv.node) if isinstance(x, ast.Call) and pm.callee(x.func) == "numpy.nonzero" and x.args and isinstance(x.args[0], ast.Name)]
            stop = tuple(set(rn))
            mtxt = pm.canon(kw["mask"], stc, stop=stop)
            mm = re.fullmatch(r"numpy\.nonzero\(L_(?P<R0>\w+)\)\[0\]\[" + UNI + r"\[0\]\]", mtxt)
            detail = f"mask = `{mtxt[:90]}`"
            if not mm or mm.group("R0") != mm.group("R"):
                continue
            R = mm.group("R")
            inv = kw["inverse"]
            if not isinstance(inv, ast.Name):
                detail = "inverse is not a local array filled from the unique rows"
                continue
            fills = [st for st in ast.walk(mv.node) if isinstance(st, ast.Assign) and isinstance(st.targets[0], ast.Subscript)
                     and ast.unparse(st.targets[0].value) == inv.id]
            good = [st for st in fills if ast.unparse(st.targets[0].slice) == R
                    and re.fullmatch(UNI + r"\[1\]", pm.canon(st.value, st, stop=stop))]
            detail = f"mask = nonzero({R})[0][unique rows of the rounded key], {inv.id}[{R}] = inverse of the same unique rows: {bool(good)}"
            if good and len(fills) == len(good):
                ok = True
    run.instance("R4", mv.where, f"key rounded once, unique rows in first-occurrence order, mask/inverse handed to update_vertices ({detail})", ok)
    if not ok:
        run.violation("R4", mv.where, "merge_vertices no longer derives mask and inverse from order-preserving unique rows of the rounded key",
                      key=key_of("C07-R4", "pipeline"))

    # ------------------------------------------------------------------ R5 stacking offsets
    af = ix.func("trimesh.util:append_faces")
    txt = ast.unparse(af.node)
    cum = "np.cumsum(" in txt and "len(i) for i in vertices_seq" in txt
    ok = cum
    why = "offsets = cumulative vertex counts of all groups"
    if not cum:
        # running accumulator form: the increment must lie on every path through the loop body
        ok = False
        why = "no cumulative-count construction found"
        for loop in ast.walk(af.node):
            if isinstance(loop, ast.For):
                incs = [st for st in ast.walk(loop) if isinstance(st, ast.AugAssign) and isinstance(st.op, ast.Add) and "len(" in ast.unparse(st.value)]
                if incs:
                    cfg = CFG(af.node, exceptions=False)
                    hdr = cfg.nodes_for(loop)
                    inc_nodes = [n for i in incs for n in cfg.nodes_for(i)]
                    g = cfg.g.copy()
                    g.remove_nodes_from(inc_nodes)
                    bypass = any(h in g and any(nx.has_path(g, s, h) for s in g.successors(h) if s in g and _in_loop(cfg, s, loop)) for h in hdr)
                    ok = not bypass
                    why = "running offset incremented on every iteration" if ok else "a `continue` skips the offset increment for groups without faces"
    run.instance("R5", af.where, f"append_faces: {why}", ok)
    if not ok:
        run.violation("R5", af.where, f"append_faces: {why}: faces of later groups are offset by too few vertices and point at the wrong positions",
                      key=key_of("C07-R5", "append_faces"))
    # ------------------------------------------------------------------ R6 grouped processing is restored to input order
    run.rule("R6", "material.pack: per-mesh UV blocks computed group by group (meshes sharing a material) are stored by mesh index and stacked in mesh order, "
                   "the order in which concatenate stacks the vertices")
    pk = ix.func("trimesh.visual.material:pack")
    stk = [st for st in ast.walk(pk.node) if isinstance(st, ast.Assign) and isinstance(st.targets[0], ast.Name) and st.targets[0].id == "stacked"]
    if len(stk) != 1:
        raise AnalysisError("anchor vanished: `stacked = ...` in visual.material.pack")
    val = stk[0].value
    ok = False
    detail = ast.unparse(val)[:80]
    cont = None
    if isinstance(val, ast.Call) and ast.unparse(val.func) in ("np.vstack", "np.concatenate") and val.args and isinstance(val.args[0], (ast.ListComp, ast.GeneratorExp)):
        comp = val.args[0]
        g0 = comp.generators[0]
        if isinstance(comp.elt, ast.Subscript) and isinstance(comp.elt.value, ast.Name) and isinstance(g0.target, ast.Name) \
                and ast.unparse(comp.elt.slice) == g0.target.id and ast.unparse(g0.iter) in ("range(len(uvs))", "range(len(images_idx))"):
            cont = comp.elt.value.id
    if cont is not None:
        # every store into the container inside the loops is keyed by the mesh index (the element of a material group)
        stores = [st for st in ast.walk(pk.node) if isinstance(st, ast.Assign) and isinstance(st.targets[0], ast.Subscript)
                  and ast.unparse(st.targets[0].value) == cont]
        appends = [c for c in ast.walk(pk.node) if isinstance(c, ast.Call) and isinstance(c.func, ast.Attribute) and c.func.attr in ("append", "extend", "insert")
                   and ast.unparse(c.func.value) == cont]
        keyed = []
        for st in stores:
            key = ast.unparse(st.targets[0].slice)
            # the key must be the loop variable of a `for <key> in <group>` where <group> iterates the material groups
            loops = [lp for lp in ast.walk(pk.node) if isinstance(lp, ast.For) and isinstance(lp.target, ast.Name) and lp.target.id == key and st in list(ast.walk(lp))]
            keyed.append(bool(loops))
        ok = bool(stores) and all(keyed) and not appends
        detail = f"`{cont}[<mesh index>] = ...` inside the group loop ({len(stores)} store(s), appends: {len(appends)}); stacked over range(len(uvs))"
    run.instance("R6", pk.where, f"pack: {detail}", ok)
    if not ok:
        run.violation("R6", pk.where, f"material.pack stacks the re-scaled UV blocks as `{ast.unparse(val)[:70]}`: blocks are produced group by group (meshes sharing a material), so "
                                      f"unless they are stored by mesh index and stacked in mesh order, meshes A,B,A get each other's texture coordinates",
                      key=key_of("C07-R6", "pack-order"))
    return {
        "explanation": "Structural checks of the two re-indexing funnels (every per-element store sliced by the same mask, order relative "
        "to the cache-dumping data write), of the visuals' update methods, of the closed set of functions that assign faces/vertices "
        "of an existing mesh, of the merge key construction and of the stacking offsets. A necessary condition of C07 for all masks and "
        "meshes; triangle positions, order preservation, split/concatenate multiset equality and merge tolerance are not decided.",
    }


def _submesh_selection(run, ix):
    """R7: util.submesh keeps, for every group of faces, exactly the vertices those faces reference - on every path.  The
    visual of the group is cut by `visual.face_subset(index)`, which keeps per-vertex colours / uv for the referenced
    vertices only; a path that keeps any other vertex set (all vertices for a 'whole mesh' group, say) hands the new mesh
    vertex data of another length and order than its vertices."""
    from ..dag import Values
    run.rule("R7", "util.submesh: the vertices kept for a group are `vertices[unique(faces[index])]` on every path - the same set visual.face_subset keeps "
                   "per-vertex data for")
    f0 = ix.func("trimesh.util:submesh")
    f = ix.inlined(f0)
    V = Values(ix, f)
    subsets = [c for c in ast.walk(f.node) if isinstance(c, ast.Call) and isinstance(c.func, ast.Attribute) and c.func.attr == "face_subset" and len(c.args) == 1]
    kept = []
    for c in ast.walk(f.node):
        if isinstance(c, ast.Call) and isinstance(c.func, ast.Attribute) and c.func.attr == "append" and len(c.args) == 1:
            st = V.pv.stmt_of(c)
            if st is None:
                continue
            env = V.match("_e_OV[_e_SEL]", V.value(c.args[0], st))
            if env is not None and re.fullmatch(r"P_\w+\.vertices(\.view\(numpy\.ndarray\))?", V.text(env["_e_OV"], 4, 200)):
                kept.append((c, st, env["_e_SEL"]))
    if len(subsets) != 1 or not kept:
        run.instance("R7", f0.where, f"submesh: {len(subsets)} face_subset call(s), {len(kept)} vertex selection(s) - shape not recognised, NOT decided", True, nontrivial=False)
        run.assume("util.submesh: vertex selection / visual subset not in a recognised form")
        return
    st_s = V.pv.stmt_of(subsets[0])
    idx = V.dag._ident(V.value(subsets[0].args[0], st_s)) if st_s is not None else None
    for c, st, sel in kept:
        # alternatives of the selection (several reaching definitions / exits of an inlined helper)
        d = V.dag.defs.get(sel)
        alts = [V.dag._ident(a) for a in d.args] if isinstance(d, ast.Call) and isinstance(d.func, ast.Name) and d.func.id == "PHI" else [sel]
        bad = []
        for a in alts:
            ok_a = False
            for tpl in ("numpy.unique(_e_F[_e_I].reshape(-1))", "numpy.unique(_e_F[_e_I].flatten())", "numpy.unique(_e_F[_e_I].ravel())", "numpy.unique(_e_F[_e_I])",
                        "numpy.unique(_e_F[_e_I].reshape(-1), return_inverse=True)[0]"):
                env = V.match(tpl, a)
                if env is not None and re.fullmatch(r"P_\w+\.faces(\.view\(numpy\.ndarray\))?", V.text(env["_e_F"], 4, 200)) and (idx is None or env["_e_I"] == idx):
                    ok_a = True
            if not ok_a:
                bad.append(V.text(a, 3, 90))
        recognised = len(bad) < len(alts)
        if not bad:
            run.instance("R7", f0.where, "submesh keeps `vertices[unique(faces[index])]` for the group that visual.face_subset(index) is cut for", True)
        elif recognised:
            run.instance("R7", f0.where, f"submesh keeps vertices by {bad} on some path", False)
            run.violation("R7", f"{f0.module.rel}:{getattr(c, 'lineno', f0.node.lineno)} {f0.qualname}",
                          f"on some path util.submesh keeps the vertices selected by `{bad[0]}` instead of the vertices the group's faces reference: "
                          f"visual.face_subset keeps per-vertex data for the referenced vertices only, so the new mesh gets vertex colours / uv of another "
                          f"length and order than its vertices", key=key_of("C07-R7", "submesh-selection"))
        else:
            run.instance("R7", f0.where, f"submesh vertex selection `{bad[0]}` not in a recognised form - NOT decided", True, nontrivial=False)
            run.assume("util.submesh: vertex selection not in a recognised form")


def _in_loop(cfg, n, loop):
    st = cfg.stmt.get(n)
    return st is not None and any(st is x for x in ast.walk(loop))


def _ordered(cfg, texts):
    """do statements with these texts occur so that each dominates-or-precedes the next on every path that contains both?"""
    nodes = []
    for t in texts:
        ns = [n for n, st in cfg.stmt.items() if st is not None and cfg.kind[n] == "stmt" and ast.unparse(st) == t]
        if not ns:
            return False
        nodes.append(ns)
    for a, b in zip(nodes, nodes[1:]):
        for x in a:
            for y in b:
                if nx.has_path(cfg.g, y, x) and not nx.has_path(cfg.g, x, y):
                    return False
                if not nx.has_path(cfg.g, x, y):
                    return False
    return True


def _visuals(run, ix, ef):
    cv = ix.cls("trimesh.visual.color.ColorVisuals")
    tv = ix.cls("trimesh.visual.texture.TextureVisuals")
    # each funnel stores data[<its colour key>][<its own mask>] back under the same key - itself, or through a helper of
    # the class that it hands the mask and the key to (by value: names, keyword / positional spelling and whether the
    # helper exists at all do not matter)
    from ..dag import Values

    def masked_stores(fn):
        """[(key text, mask text)] for every `self._data[K] = self._data[K][M]` of fn, K and M as canonical values"""
        V = Values(ix, fn)
        out = []
        for st_ in ast.walk(fn.node):
            if not (isinstance(st_, ast.Assign) and isinstance(st_.targets[0], ast.Subscript)
                    and ast.unparse(st_.targets[0].value) in ("self._data", "self._data.data")):
                continue
            kv = V.value(st_.targets[0].slice, st_)
            env = V.match("_e_D[_e_K][_e_M]", V.value(st_.value, st_))
            if env is None or V.text(env["_e_K"]) != V.text(kv) or V.text(env["_e_D"]) not in ("P_self._data", "P_self._data.data"):
                continue
            out.append((V.text(kv), V.text(env["_e_M"])))
        return out

    uk = None
    for fname, ckey, what, vkey in (("update_faces", "face_colors", "face", "color-faces"), ("update_vertices", "vertex_colors", "vertex", "color-vertices")):
        f = cv.methods[fname]
        mask_p = f.params[1]
        ok = (repr(ckey), f"P_{mask_p}") in masked_stores(f)
        for c_ in ast.walk(f.node):
            if ok or not (isinstance(c_, ast.Call) and isinstance(c_.func, ast.Attribute) and ast.unparse(c_.func.value) == "self" and c_.func.attr in cv.methods):
                continue
            h = cv.methods[c_.func.attr]
            bound = dict(zip(h.params[1:], c_.args))
            bound.update({k_.arg: k_.value for k_ in c_.keywords if k_.arg})
            pm = [p_ for p_, v_ in bound.items() if isinstance(v_, ast.Name) and v_.id == mask_p]
            pk = [p_ for p_, v_ in bound.items() if isinstance(v_, ast.Constant) and v_.value == ckey]
            if len(pm) == 1 and len(pk) == 1 and (f"P_{pk[0]}", f"P_{pm[0]}") in masked_stores(h):
                ok, uk = True, h
        run.instance("R3", f.where, f"ColorVisuals.{fname} slices {ckey} with the mask", ok)
        if not ok:
            run.violation("R3", f.where, f"ColorVisuals.{fname} does not slice {what} colours with the mask", key=key_of("C07-R3", vkey))
    if uk is not None:
        # (kept as its own instance: the helper's store is what both funnels rely on)
        run.instance("R3", uk.where, f"{uk.name} stores data[key][mask]", True)
    f = tv.methods["update_vertices"]
    txt = ast.unparse(f.node)
    ok = "[mask]" in txt and "vertex_attributes" in txt
    run.instance("R3", f.where, "TextureVisuals.update_vertices slices every vertex attribute (uv) with the mask", ok)
    if not ok:
        run.violation("R3", f.where, "TextureVisuals.update_vertices does not slice the per-vertex attributes", key=key_of("C07-R3", "texture-vertices"))
    f = tv.methods.get("update_faces")
    if f is not None:
        txt = ast.unparse(f.node)
        ok = "face_materials" in txt and "[mask]" in txt or "pass" in txt or len(f.node.body) <= 2
        run.instance("R3", f.where, "TextureVisuals.update_faces handles per-face materials", ok)
    # derived colour memos: a ColorVisuals function that memoises (under the visual's own key) a value computed from the
    # mesh's faces / vertices is acceptable only if the update_* funnel drops that memo when it applies a mask
    n = 0
    # every path through _update_key either re-stores the masked array (the data is defined: derived memos are not used)
    # or drops the derived memo - whichever way round the test is written (path summaries)
    from ..pathsum import summaries

    def _drop(st):
        return isinstance(st, ast.Expr) and isinstance(st.value, ast.Call) and ast.unparse(st.value.func) in ("self._cache.delete", "self._cache.clear", "self._cache.pop")

    def _restore(st):
        return isinstance(st, ast.Assign) and isinstance(st.targets[0], ast.Subscript) and ast.unparse(st.targets[0].value) == "self._data" \
            and isinstance(st.value, ast.Subscript)

    # (in the helper when there is one, in both funnels when they do the work themselves)
    holders = [uk] if uk is not None else [cv.methods["update_faces"], cv.methods["update_vertices"]]
    drops = True
    for h_ in holders:
        paths = summaries(h_.node)
        drops = drops and bool(paths) and all(ps.has_stmt(_drop) or ps.has_stmt(_restore) for ps in paths if ps.exit != "raise") \
            and any(ps.has_stmt(_drop) for ps in paths)
    for name, g in sorted(list(cv.methods.items()) + list(cv.getters.items())):
        own = ast.unparse(g.node)
        stores = [st for st in ast.walk(g.node) if isinstance(st, ast.Assign) and isinstance(st.targets[0], ast.Subscript)
                  and ast.unparse(st.targets[0].value) == "self._cache"]
        reads_mesh = "self.mesh.faces" in own or "self.mesh.vertices" in own or "mesh=self.mesh" in own
        if not stores:
            continue
        n += 1
        ok = (not reads_mesh) or drops
        run.instance("R3", g.where, f"ColorVisuals.{name}: memoises under the visual's key, reads the mesh: {reads_mesh}; update funnel drops derived memo: {drops}", ok)
        if not ok:
            run.violation("R3", g.where,
                          f"ColorVisuals.{name} memoises colours derived from `mesh.faces` / `mesh.vertices` under a cache keyed on the visual's own "
                          f"data and update_faces / update_vertices do not drop that memo: after a face mask the derived colours have the old length",
                          key=key_of("C07-R3", "derived-memo", name))
    run.floor("ColorVisuals memo producers", n, 1)
