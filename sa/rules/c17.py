"""C17 - copies are faithful and share no mutable state (ownership analysis).

For every copy entry point: (R1) every value stored into the new object - constructor
argument or field assignment - is fresh storage (deepcopy, a copy() proven deep for its class,
a new array/list/str), never a bare reference into the original or a shallow copy of a
container holding mutable members; (R2) the state the property names reaches the new object;
(R3) memo entries are handed to a copy only by the reviewed entry points.
"""
from __future__ import annotations

import ast

from ..effects import Effects
from ..index import ClassInfo, Index
from ..rawreads import raw_reads
from ..report import AnalysisError, key_of

LEVEL = "other"

# attribute names that hold containers of mutable members: `.copy()` on them is a shallow copy
CONTAINER_ATTRS = {"metadata", "kwargs", "face_attributes", "vertex_attributes", "geometry", "node_data",
                   "edge_data", "parents", "cache", "_cache", "extras", "entities", "materials", "lights"}
# attribute names that hold numpy arrays / immutable scalars: `.copy()` is a deep copy, bare use of a scalar is harmless
ARRAY_ATTRS = {"matrix", "vertices", "faces", "points", "colors", "uv", "image", "K", "resolution", "fov", "focal", "dense", "data_array",
               "vertex_colors", "face_colors", "main_color", "baseColorFactor", "diffuse", "ambient", "specular", "knots", "vector",
               "face_materials", "_data"}
IMMUTABLE_ATTRS = {"name", "z_near", "z_far", "glossiness", "closed", "layer", "color", "base_frame", "repair_rigid", "text", "height",
                   "align", "file_type", "file_path", "was_opened", "units", "kind", "intensity", "radius", "innerConeAngle", "outerConeAngle",
                   "_closed", "_direction", "alphaMode", "alphaCutoff", "doubleSided", "metallicFactor", "roughnessFactor",
                   "shape", "dtype", "_shape", "_dtype", "ndims", "size"}
IMMUTABLE_CALLS = {"str", "float", "int", "bool", "tuple", "len", "repr", "hash", "frozenset", "bytes"}
FRESH_CALLS = {"deepcopy", "array", "ascontiguousarray", "tolist", "zeros", "ones", "empty", "column_stack",
               "vstack", "hstack", "concatenate", "asarray_copy", "tobytes", "to_dict", "astype"}

# what has to reach the copy (property statement: geometry / parameters, visuals, metadata; scenes: geometry, graph, camera)
REQUIRED = {
    "trimesh.base:Trimesh.copy": ["_data", "visual", "metadata"],
    "trimesh.points:PointCloud.copy": ["_data", "visual", "metadata"],
    "trimesh.path.path:Path.copy": ["entities", "vertices", "metadata"],
    "trimesh.scene.scene:Scene.copy": ["geometry", "graph", "metadata", "camera"],
    "trimesh.scene.transforms:SceneGraph.copy": ["transforms", "base_frame"],
    "trimesh.voxel.base:VoxelGrid.copy": ["encoding", "matrix", "metadata"],
    "trimesh.primitives:Primitive.copy": ["to_dict", "_defaults", "visual", "metadata"],
    "trimesh.visual.color:ColorVisuals.copy": ["_data"],
    "trimesh.visual.texture:TextureVisuals.copy": ["uv", "material", "face_materials"],
}
OBSERVED_ONLY = "face_attributes / vertex_attributes / colors / lights are outside the wording of C17: listed when not copied, never a violation"

MEMO_HANDOVER_OK = {
    "trimesh.base:Trimesh.copy": "include_cache=True: shallow hand-over of a force_immutable cache (arrays are read-only); non-array cached objects are a known finding",
    "trimesh.path.path:Path.copy": "each entry is deep copied",
    "trimesh.primitives:Box._create_mesh": "not a copy: adopts the memo of a mesh built inside the function",
}


class Judge:
    def __init__(self, ix, ef):
        self.ix = ix
        self.ef = ef
        self.deep_cache = {}

    def copy_method(self, cls):
        for name in ("copy",):
            m = self.ix.member(cls, name).get("method")
            if m is not None:
                return m
        return None

    def classify(self, e, f, local, depth=0):
        """-> (verdict, why) with verdict in deep / immutable / alias / shallow / unknown"""
        if depth > 6:
            return "unknown", "too deep"
        if e is None or isinstance(e, ast.Constant):
            return "immutable", "constant"
        if isinstance(e, ast.JoinedStr):
            return "immutable", "string"
        if isinstance(e, ast.Name):
            if e.id in local:
                defs = local[e.id]
                # `x = self.x` ... `if x is not None: x = x.copy()`: the copy supersedes the reference
                selfcopy = [v for v in defs if isinstance(v, ast.Call) and isinstance(v.func, ast.Attribute) and v.func.attr == "copy"
                            and isinstance(v.func.value, ast.Name) and v.func.value.id == e.id]
                if selfcopy:
                    return "deep", f"`{e.id} = {e.id}.copy()`"
                vs = [self.classify(v, f, {k: x for k, x in local.items() if k != e.id}, depth + 1) for v in defs]
                worst = _worst(vs)
                return worst
            if e.id in ("None", "True", "False"):
                return "immutable", "constant"
            if e.id in f.params:
                return ("alias", f"parameter `{e.id}`") if e.id == f.params[0] else ("immutable", "caller's argument")
            return "unknown", f"name {e.id}"
        if isinstance(e, ast.Attribute):
            base = ast.unparse(e)
            if e.attr in IMMUTABLE_ATTRS:
                return "immutable", f"scalar attribute .{e.attr}"
            if base.startswith(f.params[0] + ".") if f.params else False:
                return "alias", f"bare reference `{base}`"
            return "unknown", base
        if isinstance(e, ast.IfExp):
            return _worst([self.classify(e.body, f, local, depth + 1), self.classify(e.orelse, f, local, depth + 1)])
        if isinstance(e, (ast.Dict,)):
            return _worst([self.classify(v, f, local, depth + 1) for v in e.values] or [("deep", "empty dict")])
        if isinstance(e, (ast.List, ast.Tuple, ast.Set)):
            return _worst([self.classify(v, f, local, depth + 1) for v in e.elts] or [("deep", "empty")])
        if isinstance(e, (ast.DictComp,)):
            loc2 = dict(local)
            for g in e.generators:
                _bind_loop(g.target, g.iter, loc2)
            return self.classify(e.value, f, loc2, depth + 1)
        if isinstance(e, (ast.ListComp, ast.SetComp, ast.GeneratorExp)):
            loc2 = dict(local)
            for g in e.generators:
                _bind_loop(g.target, g.iter, loc2)
            return self.classify(e.elt, f, loc2, depth + 1)
        if isinstance(e, ast.Subscript):
            v, why = self.classify(e.value, f, local, depth + 1)
            if v in ("alias", "shallow"):
                return "alias", f"element of {why}"
            return v, why
        if isinstance(e, (ast.BinOp, ast.UnaryOp, ast.Compare, ast.BoolOp)):
            return "deep", "computed value"
        if isinstance(e, ast.Call):
            fn = e.func
            name = fn.attr if isinstance(fn, ast.Attribute) else getattr(fn, "id", "")
            if name in IMMUTABLE_CALLS:
                return "immutable", f"{name}()"
            if name == "deepcopy":
                return "deep", "deepcopy"
            if name in ("dict", "list", "set", "OrderedDict") and isinstance(fn, ast.Name) and len(e.args) == 1:
                v, why = self.classify(e.args[0], f, local, depth + 1)
                if v == "alias":
                    return "shallow", f"`{ast.unparse(e)[:50]}` copies the container but shares its members"
                return v, why
            if name in FRESH_CALLS and name != "to_dict":
                return "deep", f"{name}() makes new storage"
            if name == "copy" and isinstance(fn, ast.Attribute):
                recv = fn.value
                rattr = recv.attr if isinstance(recv, ast.Attribute) else (recv.id if isinstance(recv, ast.Name) else "")
                if isinstance(recv, ast.Name) and recv.id == "copy" and e.args:
                    a0 = e.args[0]
                    if isinstance(a0, ast.Attribute) and a0.attr in ARRAY_ATTRS:
                        return "deep", f"copy.copy of the array .{a0.attr}"
                    return "shallow", f"copy.copy({ast.unparse(a0)}) is shallow"
                if rattr in CONTAINER_ATTRS:
                    return "shallow", f"`{ast.unparse(recv)}.copy()` is a shallow copy of a container of mutable members"
                if rattr in ARRAY_ATTRS:
                    return "deep", f"array copy of .{rattr}"
                # in-repo class? resolve through the role tables
                cls = self.recv_classes(recv, f, local)
                if cls:
                    bad = [c.name for c in cls if not self.deep_copy_class(c)]
                    if bad:
                        return "shallow", f"`{ast.unparse(recv)}.copy()`: copy() of {bad} is not deep"
                    return "deep", f"copy() of {[c.name for c in cls]} verified deep"
                return "deep", f"`{ast.unparse(recv)}.copy()` assumed to be an array / value copy"
            if name == "to_dict" and isinstance(fn, ast.Attribute):
                return "deep", "to_dict() serialises to new lists / scalars (checked per class in R2)"
            if name in ("get",) and isinstance(fn, ast.Attribute):
                v, why = self.classify(fn.value, f, local, depth + 1)
                return ("alias", f"element of {why}") if v in ("alias", "shallow") else (v, why)
            if name in ("items", "values", "keys"):
                return self.classify(fn.value, f, local, depth + 1)
            if name == "getattr" and e.args:
                return "alias", f"getattr({ast.unparse(e.args[0])}, ...) hands back the stored object"
            # constructor or other call: its arguments decide
            tgt = self.ix.resolve_expr(f.module, fn) if isinstance(fn, (ast.Name, ast.Attribute)) else None
            if isinstance(tgt, ClassInfo) or name in ("type",) or ast.unparse(fn).startswith("type(self)") or ast.unparse(fn).endswith("__class__"):
                vs = [self.classify(a, f, local, depth + 1) for a in e.args] + [self.classify(k.value, f, local, depth + 1) for k in e.keywords]
                w = _worst(vs or [("deep", "no arguments")])
                return (w[0], f"constructed from {w[1]}") if w[0] in ("alias", "shallow") else ("deep", "new object from fresh arguments")
            return "deep", f"result of {ast.unparse(fn)}()"
        return "unknown", ast.unparse(e)[:40]

    def ctor_copies(self, f, ctor_calls, expr):
        """does the constructor that receives `expr` wrap the matching parameter in a copying call before storing it?"""
        COPIERS = ("array", "deepcopy", "list", "tuple", "float", "int", "str", "sorted", "dict", "set", "ascontiguousarray_copy")
        for c in ctor_calls:
            pname = None
            cls = self.ix.resolve_expr(f.module, c.func) if isinstance(c.func, (ast.Name, ast.Attribute)) else None
            if not isinstance(cls, ClassInfo):
                cls = f.cls
            init = self.ix.member(cls, "__init__").get("method") if cls is not None else None
            if init is None:
                continue
            params = init.params[1:]
            for p, a in zip(params, c.args):
                if a is expr:
                    pname = p
            for k in c.keywords:
                if k.value is expr:
                    pname = k.arg
            if pname is None:
                continue
            # the parameter is kept as-is only if it (or a name rebound from it without a copying call) is the direct value of
            # a store into `self` or is handed on to another constructor / setter unchanged
            rebound_fresh = False
            stored_raw = False
            for st in init.node.body if True else []:
                pass
            for st in ast.walk(init.node):
                if isinstance(st, ast.Assign):
                    val = st.value
                    tgt = st.targets[0]
                    uses_param = any(isinstance(n, ast.Name) and n.id == pname for n in ast.walk(val))
                    if not uses_param:
                        continue
                    copied = isinstance(val, ast.Call) and ast.unparse(val.func).split(".")[-1] in COPIERS
                    if isinstance(tgt, ast.Name) and tgt.id == pname and copied:
                        rebound_fresh = True
                        continue
                    root = tgt
                    while isinstance(root, (ast.Attribute, ast.Subscript)):
                        root = root.value
                    if isinstance(root, ast.Name) and root.id == init.params[0] and not isinstance(tgt, ast.Name):
                        direct = isinstance(val, ast.Name) or (isinstance(val, ast.Call) and ast.unparse(val.func).split(".")[-1] in
                                                               ("asanyarray", "asarray", "view", "reshape"))
                        if direct and not rebound_fresh:
                            stored_raw = True
                if isinstance(st, ast.Call) and not rebound_fresh:
                    fname = ast.unparse(st.func).split(".")[-1]
                    passes = any(isinstance(a, ast.Name) and a.id == pname for a in st.args) or \
                        any(isinstance(k.value, ast.Name) and k.value.id == pname for k in st.keywords)
                    if passes and fname not in COPIERS and fname not in ("len", "isinstance", "hasattr", "type", "str", "repr", "asanyarray",
                                                                         "asarray", "allclose", "is_shape", "ValueError", "TypeError", "format"):
                        # handed on unchanged to another constructor / setter / helper that may keep it
                        tgtc = self.ix.resolve_expr(init.module, st.func) if isinstance(st.func, (ast.Name, ast.Attribute)) else None
                        if isinstance(tgtc, ClassInfo) or fname in ("__init__", "update", "append", "extend", "setdefault"):
                            stored_raw = True
            return not stored_raw
        return False

    def recv_classes(self, recv, f, local):
        from ..effects import ATTR_ROLE, ELEMENT_ROLE

        names = []
        if isinstance(recv, ast.Attribute):
            names = ATTR_ROLE.get(recv.attr, [])
            if recv.attr in ("graph",):
                names = ["trimesh.scene.transforms.SceneGraph"]
        elif isinstance(recv, ast.Name):
            # loop variable over self.geometry / self.entities
            for v in local.get(recv.id, []):
                txt = ast.unparse(v)
                for k, ns in ELEMENT_ROLE.items():
                    if f".{k}" in txt:
                        names = ns
            if recv.id in ("g", "geom", "geometry", "mesh"):
                names = names or ["trimesh.parent.Geometry"]
        out = []
        for n in names:
            r = self.ix.resolve_dotted(n)
            if isinstance(r, ClassInfo):
                out.append(r)
                out.extend(self.ix.all_subclasses(r))
        # only classes that define a copy method of their own
        seen, uniq = set(), []
        for c in out:
            m = self.copy_method(c)
            if m is not None and m not in seen and not _is_abstract(m):
                seen.add(m)
                uniq.append(c)
        return uniq

    def deep_copy_class(self, cls):
        m = self.copy_method(cls)
        if m is None:
            return True
        key = f"{m.module.name}:{m.qualname}"
        if key in self.deep_cache:
            return self.deep_cache[key]
        self.deep_cache[key] = True  # recursion guard
        probs = analyse_copy(self, m)[0]
        self.deep_cache[key] = not probs
        return not probs


def _is_abstract(m):
    return any(d.endswith("abstractmethod") for d in m.decorators) or (
        len([s for s in m.node.body if not (isinstance(s, ast.Expr) and isinstance(s.value, ast.Constant))]) == 1
        and isinstance(m.node.body[-1], (ast.Pass, ast.Raise)))


def _worst(vs):
    order = {"alias": 0, "shallow": 1, "unknown": 2, "deep": 3, "immutable": 4}
    return sorted(vs, key=lambda x: order[x[0]])[0]


def _bind_loop(target, it, local):
    names = []

    def walk(t):
        if isinstance(t, ast.Name):
            names.append(t.id)
        elif isinstance(t, (ast.Tuple, ast.List)):
            for x in t.elts:
                walk(x)
    walk(target)
    for n in names:
        local[n] = [it]


def analyse_copy(judge, f):
    """returns list of (lineno, what, verdict, why) for every store into the new object that is not fresh"""
    local = {}
    for st in ast.walk(f.node):
        if isinstance(st, ast.Assign) and isinstance(st.targets[0], ast.Name):
            local.setdefault(st.targets[0].id, []).append(st.value)
        if isinstance(st, ast.For):
            _bind_loop(st.target, st.iter, local)
    # new-object variables
    deep_whole = False
    new_vars = set()
    ctor_calls = []
    for st in ast.walk(f.node):
        if isinstance(st, ast.Call):
            txt = ast.unparse(st.func)
            tgt = judge.ix.resolve_expr(f.module, st.func) if isinstance(st.func, (ast.Name, ast.Attribute)) else None
            if isinstance(tgt, ClassInfo) and (f.cls is not None and (tgt in f.cls.mro or f.cls in tgt.mro or tgt.name == f.cls.name)) \
                    or txt in ("type(self)", "self.__class__"):
                ctor_calls.append(st)
    for st in ast.walk(f.node):
        if isinstance(st, ast.Assign) and isinstance(st.targets[0], ast.Name) and any(st.value is c for c in ctor_calls):
            new_vars.add(st.targets[0].id)
        if isinstance(st, ast.Assign) and isinstance(st.targets[0], ast.Name) and isinstance(st.value, ast.Call) \
                and ast.unparse(st.value.func).split(".")[-1] == "deepcopy" and st.value.args and ast.unparse(st.value.args[0]) == f.params[0]:
            new_vars.add(st.targets[0].id)
            deep_whole = True
    problems = []
    stores = []
    for c in ctor_calls:
        for a in c.args:
            stores.append((c.lineno, f"constructor argument `{ast.unparse(a)[:50]}`", a))
        for k in c.keywords:
            if k.arg is None:
                # **kwargs: every value put into the dict in this function
                if isinstance(k.value, ast.Name):
                    kname = k.value.id
                    for st in ast.walk(f.node):
                        if isinstance(st, ast.Assign) and isinstance(st.targets[0], ast.Subscript) and ast.unparse(st.targets[0].value) == kname:
                            stores.append((st.lineno, f"constructor argument {kname}[{ast.unparse(st.targets[0].slice)}]", st.value))
                        if isinstance(st, ast.Expr) and isinstance(st.value, ast.Call) and isinstance(st.value.func, ast.Attribute) \
                                and st.value.func.attr == "update" and ast.unparse(st.value.func.value) == kname and st.value.args:
                            stores.append((st.lineno, f"constructor arguments from `{ast.unparse(st.value.args[0])[:40]}`", st.value.args[0]))
                else:
                    # **<expression>: every value of that mapping becomes a constructor argument as it is
                    stores.append((c.lineno, f"constructor arguments **`{ast.unparse(k.value)[:40]}` (each value passed as it is)", k.value))
            else:
                stores.append((c.lineno, f"constructor argument {k.arg}=`{ast.unparse(k.value)[:50]}`", k.value))
    for st in ast.walk(f.node):
        if isinstance(st, ast.Assign):
            t = st.targets[0]
            root = t
            while isinstance(root, (ast.Attribute, ast.Subscript)):
                root = root.value
            if isinstance(root, ast.Name) and root.id in new_vars and not isinstance(t, ast.Name):
                stores.append((st.lineno, f"`{ast.unparse(t)[:50]} = {ast.unparse(st.value)[:50]}`", st.value))
        if isinstance(st, ast.Expr) and isinstance(st.value, ast.Call) and isinstance(st.value.func, ast.Attribute) \
                and st.value.func.attr in ("update", "extend", "append"):
            root = st.value.func.value
            txt = ast.unparse(root)
            while isinstance(root, (ast.Attribute, ast.Subscript)):
                root = root.value
            if isinstance(root, ast.Name) and root.id in new_vars and st.value.args and "_cache" not in txt:
                stores.append((st.lineno, f"`{ast.unparse(st.value)[:70]}`", st.value.args[0]))
    for lineno, what, expr in stores:
        verdict, why = judge.classify(expr, f, local)
        if verdict == "alias" and what.startswith("constructor argument") and judge.ctor_copies(f, ctor_calls, expr):
            verdict, why = "deep", "the constructor copies this argument before storing it"
        if verdict in ("alias", "shallow"):
            problems.append((lineno, what, verdict, why))
    return problems, stores, new_vars if not deep_whole else (new_vars | {"<deepcopy>"})


def check(run):
    ix = Index(run.repo)
    ef = Effects(ix)
    run.analysed.update(ix.stats())
    run.rule("R1", "no shared mutable storage: every value stored into the copy is fresh (deepcopy / verified deep copy() / new array), never a bare reference or a shallow container copy")
    run.rule("R2", "faithful: geometry arrays or parameters, visuals and metadata (scenes: geometry, graph, camera) reach the new object; primitive copies receive every default parameter")
    run.rule("R3", "memo entries are handed to a copy only by the reviewed entry points, and only after verification")

    judge = Judge(ix, ef)
    entry = []
    for m in ix.modules.values():
        for c in m.classes.values():
            for name in ("copy", "__copy__", "__deepcopy__"):
                f = c.methods.get(name)
                if f is not None and not _is_abstract(f):
                    entry.append(f)
    run.floor("copy entry points", len(entry), 20)
    run.analysed["entry_points"] = [f"{f.module.name}:{f.qualname}" for f in entry]
    for f in sorted(entry, key=lambda x: (x.module.name, x.qualname)):
        spec = f"{f.module.name}:{f.qualname}"
        res = analyse_copy(judge, f)
        problems, stores, new_vars = res
        if "<deepcopy>" in new_vars and not problems:
            run.instance("R1", f.where, "whole object deep copied, later field stores are fresh", True)
            if not stores:
                continue
        if not stores:
            # thin wrappers: return self.copy(...) / copy.deepcopy(self) / constructor call handled above
            rets = [ast.unparse(r.value) for r in ast.walk(f.node) if isinstance(r, ast.Return) and r.value is not None]
            ok = all(("copy(" in r or "deepcopy(" in r or "(" in r) and r.strip() != f.params[0] for r in rets) if rets else False
            shallow = [r for r in rets if r.startswith("copy.copy(")]
            if shallow:
                ok = False
            run.instance("R1", f.where, f"returns {rets}", ok)
            if not ok:
                run.violation("R1", f.where, f"`{f.qualname}` returns {rets}: not a copy with storage of its own", key=key_of("C17-R1", spec, "return"))
            continue
        for lineno, what, expr in stores:
            v, why = judge.classify(expr, f, {k: v2 for k, v2 in _locals(f).items()})
            run.instance("R1", f"{f.module.rel}:{lineno} {f.qualname}", f"{what}: {v} ({why})", v not in ("alias", "shallow"))
        for lineno, what, verdict, why in problems:
            run.violation("R1", f"{f.module.rel}:{lineno} {f.qualname}",
                          f"{what} puts {'a reference into the original' if verdict == 'alias' else 'a shallow copy'} into the new object "
                          f"({why}): a later in-place edit of one object shows through the other",
                          key=key_of("C17-R1", spec, what))
        # ---- R2 required state
        req = REQUIRED.get(spec)
        if req:
            txt = ast.unparse(f.node)
            for token in req:
                ok = token in txt
                run.instance("R2", f.where, f"`{token}` reaches the copy", ok)
                if not ok:
                    run.violation("R2", f.where, f"`{f.qualname}` does not carry `{token}` over to the new object", key=key_of("C17-R2", spec, token))
    # ---- R4 copy by replay
    run.rule("R4", "a copy is made by copying state, not by replaying mutators: once a field of the new object has been filled from the original, no method of the new "
                   "object that writes that field is called (the replay would re-derive what the original's history had changed)")
    n4 = 0
    for f in sorted(entry, key=lambda x: (x.module.name, x.qualname)):
        if f.cls is None:
            continue
        spec = f"{f.module.name}:{f.qualname}"
        _, _, new_vars = analyse_copy(judge, f)
        new_vars = {v for v in new_vars if v != "<deepcopy>"}
        if not new_vars:
            continue
        filled = {}  # (var, field) -> line
        calls = []
        for st in ast.walk(f.node):
            tgt = None
            if isinstance(st, ast.Assign):
                tgt = st.targets[0]
            elif isinstance(st, ast.Expr) and isinstance(st.value, ast.Call) and isinstance(st.value.func, ast.Attribute) \
                    and st.value.func.attr in ("update", "extend", "append", "__setitem__"):
                tgt = st.value.func.value
            if tgt is not None:
                chain = []
                root = tgt
                while isinstance(root, (ast.Attribute, ast.Subscript)):
                    if isinstance(root, ast.Attribute):
                        chain.append(root.attr)
                    root = root.value
                if isinstance(root, ast.Name) and root.id in new_vars and chain:
                    src = ast.unparse(st.value if isinstance(st, ast.Assign) else st.value.args[0] if st.value.args else st)
                    if f.params[0] + "." in src or "data" in src:
                        filled.setdefault((root.id, chain[-1]), st.lineno)
            if isinstance(st, ast.Call) and isinstance(st.func, ast.Attribute) and isinstance(st.func.value, ast.Name) and st.func.value.id in new_vars:
                m = ix.member(f.cls, st.func.attr).get("method")
                if m is not None:
                    calls.append((st, m))
        for st, m in calls:
            n4 += 1
            sm = ef.summary(m, f.cls)
            written = {p[0] for (r, p, k) in sm.writes if r == m.params[0] and p and k != "memo"}
            clash = sorted(fld for (var, fld), line in filled.items() if var == st.func.value.id and fld in written and line <= st.lineno)
            ok = not clash
            run.instance("R4", f"{f.module.rel}:{st.lineno} {f.qualname}", f"`{ast.unparse(st)[:50]}` writes {sorted(written)[:5]}; fields already copied: {sorted(fld for (_, fld) in filled)}", ok)
            if not ok:
                run.violation("R4", f"{f.module.rel}:{st.lineno} {f.qualname}",
                              f"`{f.qualname}` fills `{clash[0]}` of the new object from the original and then calls `{ast.unparse(st)[:50]}`, which writes `{clash[0]}` itself: "
                              f"the replayed mutator re-derives state (e.g. geometry removed from a node comes back from the edge attributes), so the copy is not the original's state",
                              key=key_of("C17-R4", spec, m.name, clash[0]))
    # ---- R2 primitives: to_dict + defaults loop covers every default parameter
    _primitive_params(run, ix)
    # ---- R3 memo hand-over
    for f in ix.all_functions:
        spec = f"{f.module.name}:{f.qualname}"
        for st in ast.walk(f.node):
            if isinstance(st, ast.Call) and isinstance(st.func, ast.Attribute) and st.func.attr == "update" and st.args:
                tgt, src = ast.unparse(st.func.value), ast.unparse(st.args[0])
                if "._cache" in tgt and "._cache" in src and tgt.split("._cache")[0] != src.split("._cache")[0]:
                    # the review covers the hand-over of the object's OWN memo (`<self>._cache...`): the memo of a sub-object (the visual's
                    # generated colours are writable arrays that are meant to be edited in place) is another matter
                    own = bool(f.params) and src.split("._cache")[0] == f.params[0] or spec == "trimesh.primitives:Box._create_mesh"
                    ok = spec in MEMO_HANDOVER_OK and own
                    run.instance("R3", f"{f.module.rel}:{st.lineno} {f.qualname}", f"hands memo entries from `{src}` to `{tgt}`: {MEMO_HANDOVER_OK.get(spec, 'not reviewed') if own else 'memo of a sub-object: not reviewed'}", ok)
                    if not ok and spec in MEMO_HANDOVER_OK:
                        run.violation("R3", f"{f.module.rel}:{st.lineno} {f.qualname}",
                                      f"`{ast.unparse(st)[:90]}` hands the memo of `{src.split('._cache')[0]}` to the copy: unlike the mesh's own memo (read-only arrays) these entries "
                                      f"are writable and are edited in place by design (generated colours), so an edit on either object shows up in the other",
                                      key=key_of("C17-R3", spec, src.split("._cache")[0]))
                    elif not ok:
                        run.violation("R3", f"{f.module.rel}:{st.lineno} {f.qualname}",
                                      f"`{ast.unparse(st)[:80]}` shares the original's memoised objects with another object: cached values that are "
                                      f"not read-only arrays (views, graphs, lists) are then mutable state common to both",
                                      key=key_of("C17-R3", spec))
    raw_reads(run, ix, ef, "R3", "C17", floor=6)
    # known limitation recorded as finding: Trimesh.copy(include_cache=True) shares non-array cached objects
    tc = ix.func("trimesh.base:Trimesh.copy")
    if "copied._cache.cache.update(self._cache.cache)" in ast.unparse(tc.node):
        run.instance("R3", tc.where, "include_cache=True shares every cached object, arrays (read-only) and non-arrays alike", False)
        run.violation("R3", tc.where,
                      "Trimesh.copy(include_cache=True) / copy.copy(mesh) puts the original's cached objects into the copy: arrays are "
                      "read-only, but cached Trimesh / primitive / graph objects (convex_hull, bounding_box_oriented, vertex_adjacency_graph) "
                      "are shared and mutable", key=key_of("C17-R3", "Trimesh.copy", "shared-cached-objects"))
    run.assume(OBSERVED_ONLY)
    run.assume("`.copy()` on an expression of unknown type is taken as a numpy array / value copy (listed per instance in evidence)")
    return {
        "explanation": "Ownership analysis of every copy / __copy__ / __deepcopy__ in the repository: each constructor argument and each "
        "field assignment on the new object is classified by construction (deepcopy, copy() of a class whose own copy is verified deep "
        "recursively, new array/list, scalar) versus bare references and shallow container copies; required state reaches the copy; "
        "primitive copies receive every default parameter; memo hand-over only at reviewed sites. That later edits leave the other "
        "object's computed values unchanged follows from this plus C01 and is not separately observed.",
    }


def _locals(f):
    local = {}
    for st in ast.walk(f.node):
        if isinstance(st, ast.Assign) and isinstance(st.targets[0], ast.Name):
            local.setdefault(st.targets[0].id, []).append(st.value)
        if isinstance(st, ast.For):
            _bind_loop(st.target, st.iter, local)
    return local


def _primitive_params(run, ix):
    P = ix.cls("trimesh.primitives.Primitive")
    cp = P.methods.get("copy")
    if cp is None:
        raise AnalysisError("anchor vanished: Primitive.copy")
    # the dict splatted into the constructor receives, for every default key it does not already hold, the live parameter
    # (comprehension or loop, whatever the loop variable is called: sa/accum.py)
    from ..accum import contributions
    splat = {ast.unparse(k.value) for c in ast.walk(cp.node) if isinstance(c, ast.Call) for k in c.keywords if k.arg is None}
    fills_defaults = False
    for c in contributions(cp.node):
        if c.iter not in ("self.primitive._defaults", "self.primitive._defaults.keys()", "self.primitive._defaults.items()"):
            continue
        if c.how == "setitem" and c.acc in splat and c.key == "_1" and ("getattr(self.primitive, _1)" in c.elt or "self.primitive._data[_1]" in c.elt) \
                and c.filters <= {(f"_1 in {c.acc}", False)}:
            fills_defaults = True
        if c.how == "DictComp" and c.key == "_1" and ("getattr(self.primitive, _1)" in c.elt or "self.primitive._data[_1]" in c.elt):
            # the comprehension is merged into the splatted dict (`kwargs.update({...})`, `{**kwargs, **{...}}`, `kwargs |= {...}`)
            for u in ast.walk(cp.node):
                acc_ = None
                if isinstance(u, ast.Call) and isinstance(u.func, ast.Attribute) and u.func.attr == "update" and u.args and u.args[0] is c.node:
                    acc_ = ast.unparse(u.func.value)
                if isinstance(u, ast.AugAssign) and isinstance(u.op, ast.BitOr) and u.value is c.node:
                    acc_ = ast.unparse(u.target)
                if acc_ in splat and c.filters <= {(f"_1 in {acc_}", False)}:
                    fills_defaults = True
            if not c.filters and any(isinstance(k_, ast.keyword) and k_.arg is None and k_.value is c.node for k_ in ast.walk(cp.node)):
                fills_defaults = True
    n = 0
    for sub in ix.all_subclasses(P):
        init = sub.methods.get("__init__")
        td = sub.methods.get("to_dict")
        if init is None or td is None:
            continue
        defaults = None
        for st in ast.walk(init.node):
            if isinstance(st, ast.Assign) and isinstance(st.targets[0], ast.Name) and st.targets[0].id == "defaults" and isinstance(st.value, ast.Dict):
                defaults = [k.value for k in st.value.keys if isinstance(k, ast.Constant)]
            if isinstance(st, ast.keyword) and st.arg == "defaults" and isinstance(st.value, ast.Dict):
                defaults = [k.value for k in st.value.keys if isinstance(k, ast.Constant)]
        if defaults is None:
            raise AnalysisError(f"anchor vanished: `defaults = {{...}}` in {sub.name}.__init__")
        keys = set()
        for r in ast.walk(td.node):
            if isinstance(r, ast.Return) and isinstance(r.value, ast.Dict):
                keys |= {k.value for k in r.value.keys if isinstance(k, ast.Constant)}
        params = [p for p in init.params[1:] if p not in ("mutable",)]
        missing = [d for d in defaults if d not in keys]
        n += 1
        ok = not missing or fills_defaults
        run.instance("R2", td.where, f"{sub.name}: defaults {defaults}; to_dict carries {sorted(keys - {'kind'})}; missing {missing}; "
                                     f"copy() fills missing defaults from the live parameters: {fills_defaults}", ok)
        if not ok:
            run.violation("R2", cp.where, f"{sub.name}.copy() loses parameter(s) {missing}: they are not in to_dict() and Primitive.copy does not "
                                          f"add them, so the copy is built with the class defaults", key=key_of("C17-R2", sub.name, "params"))
        # every default must be a constructor parameter (or derived: bounds)
        unk = [d for d in defaults if d not in params]
        run.instance("R2", init.where, f"{sub.name}: every default key is a constructor parameter ({unk or 'all'})", not unk)
        if unk:
            run.violation("R2", init.where, f"{sub.name}: default parameter(s) {unk} cannot be passed to the constructor, so a copy cannot receive them",
                          key=key_of("C17-R2", sub.name, "ctor"))
    run.floor("primitive subclasses", n, 5)
