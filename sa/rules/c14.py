"""C14 - paths rebuild the same regions (narrow): the clause "these quantities transform
correctly ... whatever was computed beforehand" and the stated anchor Path._cache.

Same machinery as C01 applied to Path: memo soundness of the Path producers against the
Path hash (vertices + entity bytes), preservation obligations for every function that keeps
Path memo entries across a change of vertices / entities, the lock rule, raw-read rule, and
coverage of entity state by Entity._bytes.
"""
from __future__ import annotations

import ast

from ..cachesim import CacheSim
from ..effects import Effects
from ..index import Index
from ..preserve import check_surgery
from ..rawreads import raw_reads
from ..report import AnalysisError, key_of

LEVEL = "other"

# keys Path.apply_transform copies across an invertible affine map of the vertices (frozen, reasoned; DESIGN C14)
AFFINE_INVARIANT = {
    "paths": "closed loops of entity indices: connectivity of the vertex graph, invariant up to traversal direction",
    "dangling": "entities not on a closed loop: connectivity only",
    "vertex_graph": "graph of vertex indices joined by entities: connectivity only",
    "path_valid": "which loops formed valid polygons: invariant under invertible affine maps",
    "root": "outermost loops of the containment tree: containment is affine invariant",
    "enclosure": "containment graph: affine invariant",
    "enclosure_directed": "containment graph: affine invariant",
    "enclosure_shell": "shell -> holes table: affine invariant",
}
INVARIANCE = {(k, "vertices", "transform"): why for k, why in AFFINE_INVARIANT.items()}
# anything metric must never be copied across a transform
METRIC = {"bounds", "extents", "length", "area", "centroid", "polygons_closed", "polygons_full", "kdtree", "scale", "obb", "identifier"}

# memo keys a Path function may assign a computed value to while changing vertices/entities (frozen, reviewed)
TRANSPORT = {
    "discrete": "lists of points on the curves: mapped pointwise by the same matrix",
}
ENTITY_HASHED_FIELDS = {"points", "_points", "closed", "_closed"}


def hashed_path(path):
    if not path:
        return None
    if path[0] in ("_vertices", "vertices"):
        return "vertices"
    if path[0] in ("_entities", "entities"):
        leaf = [p for p in path[1:] if not p.startswith("[")]
        if not leaf or leaf[-1] in ENTITY_HASHED_FIELDS:
            return "entities"
    return None


def rhs_kind(st, sim):
    if isinstance(st, ast.Assign) and isinstance(st.targets[0], ast.Attribute) and st.targets[0].attr == "vertices":
        v = st.value
        if isinstance(v, ast.Call) and ast.unparse(v.func).endswith("transform_points") and v.args and ast.unparse(v.args[0]).endswith(".vertices"):
            return {"vertices": "transform"}
    return None


def check(run):
    ix = Index(run.repo)
    ef = Effects(ix)
    run.analysed.update(ix.stats())
    run.rule("R1", "memo soundness: every cached Path producer reads only vertices and entity state that Path.__hash__ covers")
    run.rule("R2", "preservation: a Path memo entry that survives a change of vertices/entities is re-assigned by the function or is in the affine-invariant table (never a metric quantity)")
    run.rule("R2b", "lock rule: no memo entry is read under `with path._cache:` after vertices/entities it depends on were written")
    run.rule("R3", "Path.__hash__ covers the vertex array and the bytes of every entity; Entity._bytes covers the point indices (and closed flag where it exists)")
    run.rule("R8", "a function that re-certifies memo entries verifies the cache before its first write of hashed data or lock entry")
    run.rule("R7", "memo entries of a path are read raw only after verification (copy, split, simplify)")

    P = ix.cls("trimesh.path.path.Path")
    P2 = ix.cls("trimesh.path.path.Path2D")
    P3 = ix.cls("trimesh.path.path.Path3D")
    fps = {}
    for cls in (P2, P3, P):
        seen = set()
        for k in cls.mro:
            for name, g in k.getters.items():
                if name in seen or g.kind != "cached":
                    continue
                seen.add(name)
                s = ef.summary(g, cls)
                data, other = set(), set()
                for (root, path, tag) in s.reads:
                    if root != g.params[0] or not path or path[0] == "_cache":
                        continue
                    lab = hashed_path(path)
                    if lab is not None:
                        data.add((lab, tag))
                    elif path[0] in ("_entities", "entities"):
                        other.add((path, tag))
                    elif path[0] not in ("__class__",):
                        other.add((path, tag))
                if name not in fps:
                    fps[name] = (g, data, other)
                else:
                    fps[name] = (fps[name][0], fps[name][1] | data, fps[name][2] | other)
    run.floor("cached Path producers", len(fps), 18)
    # by-products
    sp = {}
    for name, (g, data, other) in fps.items():
        for st in ast.walk(g.node):
            if isinstance(st, ast.Assign) and isinstance(st.targets[0], ast.Subscript) and ast.unparse(st.targets[0].value) in ("self._cache", "self._cache.cache") \
                    and isinstance(st.targets[0].slice, ast.Constant) and st.targets[0].slice.value != name:
                sp[st.targets[0].slice.value] = name

    def footprint(key):
        if key in fps:
            return fps[key][1]
        if key in sp:
            return fps[sp[key]][1]
        return None

    # ---- R1
    ACCEPTED_UNHASHED = {
        "_direction": "traversal direction flag: (re)established by `paths`, which every reader of the flag (`discrete`) forces first; "
                      "it changes the order of discretised points, not the curve",
    }
    for name, (g, data, other) in sorted(fps.items()):
        bad = []
        for path, tag in other:
            leaf = [p for p in path if not p.startswith("[")][-1]
            if leaf in ACCEPTED_UNHASHED:
                continue
            bad.append(".".join(path))
        ok = not bad
        run.instance("R1", g.where, f"{name}: reads {sorted(data)}" + (f"; unhashed {sorted(set(bad))}" if bad else ""), ok)
        if not ok:
            run.violation("R1", g.where, f"cached Path property `{name}` depends on state Path.__hash__ does not cover: {sorted(set(bad))}",
                          key=key_of("C14-R1", name))

    # ---- R2 / R2b
    n = 0
    for f in ix.all_functions:
        if not f.module.name.startswith("trimesh.path"):
            continue
        if "_cache" not in ast.unparse(f.node) or f.kind in ("cached", "property") or f.name in ("__init__",):
            continue
        owner, cls = None, None
        if f.cls is not None and P in f.cls.mro and f.parent is None:
            owner, cls = f.params[0], f.cls
        elif "path" in f.params:
            owner, cls = "path", None
        elif "drawing" in f.params:
            owner = "drawing"
        else:
            continue
        all_keys = set(fps) | set(sp)
        if check_surgery(run, ef, f, cls, owner, hashed_path, rhs_kind, footprint, all_keys, INVARIANCE, sp, None, "C14",
                         transport_ok=TRANSPORT):
            n += 1
    run.floor("Path functions performing cache surgery", n, 2)
    # metric keys must not be in the copied list of apply_transform at all (belt and braces: the table above is per key)
    at = ix.func("trimesh.path.path:Path.apply_transform")
    copied = []
    for loop in ast.walk(at.node):
        if isinstance(loop, ast.For) and isinstance(loop.iter, (ast.List, ast.Tuple)):
            try:
                copied = [e.value for e in loop.iter.elts]
            except AttributeError:
                pass
    # (when the function is written with clear(exclude=...) instead of a stash loop the simulation above covers the same keys)
    for k in copied:
        ok = k in AFFINE_INVARIANT and k not in METRIC
        run.instance("R2", at.where, f"copied key `{k}`: {AFFINE_INVARIANT.get(k, 'NOT in the affine-invariant table')}", ok)
        if not ok:
            run.violation("R2", at.where, f"Path.apply_transform carries `{k}` across the transform unchanged although it is not invariant under "
                                          f"affine maps of the vertices", key=key_of("C14-R2", "copied", k))
    # discrete must be transported by the same matrix
    txt = ast.unparse(at.node)
    ok = "['discrete'] = [tf.transform_points(d, matrix=transform) for d in self.discrete]" in txt
    run.instance("R2", at.where, "`discrete` is transported by the same matrix", ok)
    if not ok:
        run.violation("R2", at.where, "`discrete` is no longer mapped through the transform before being kept", key=key_of("C14-R2", "discrete"))
    # ---- R3
    h = ix.func("trimesh.path.path:Path.__hash__")
    txt = ast.unparse(h.node)
    ok = "self.vertices.__hash__()" in txt and "e._bytes() for e in self.entities" in txt
    run.instance("R3", h.where, "Path hash = vertices hash + bytes of every entity", ok)
    if not ok:
        run.violation("R3", h.where, "Path.__hash__ does not cover the vertex array and every entity", key=key_of("C14-R3", "path-hash"))
    em = ix.modules["trimesh.path.entities"]
    for cname, c in em.classes.items():
        b = c.methods.get("_bytes")
        if b is None:
            continue
        local = {st.targets[0].id: ast.unparse(st.value) for st in ast.walk(b.node)
                 if isinstance(st, ast.Assign) and isinstance(st.targets[0], ast.Name)}
        rets = [ast.unparse(r.value) for r in ast.walk(b.node) if isinstance(r, ast.Return) and r.value is not None]
        rets = [local.get(r, r) for r in rets]
        ok = bool(rets) and all("points" in r and "tobytes()" in r for r in rets)
        has_closed_flag = any(isinstance(s, ast.Assign) and isinstance(s.targets[0], ast.Attribute) and s.targets[0].attr == "_closed"
                              for s in ast.walk(c.node))
        if has_closed_flag:
            ok = ok and all("closed" in r for r in rets)
        run.instance("R3", b.where, f"{cname}._bytes covers points{' and the closed flag' if has_closed_flag else ''}", ok)
        if not ok:
            run.violation("R3", b.where, f"{cname}._bytes omits state that changes the curve (points / closed flag)", key=key_of("C14-R3", cname))
    # ---- R7
    raw_reads(run, ix, ef, "R7", "C14", module_filter=lambda m: m.startswith("trimesh.path"), floor=3)
    run.assume("invariance of the eight copied keys under invertible affine maps is a frozen judgement (table in the checker, reasons in evidence)")
    return {
        "explanation": "C01's footprint + cache-surgery simulation applied to Path: every cached Path producer reads only hashed state; in "
        "apply_transform / split / simplify / repair / process each surviving memo entry is transported, or affine-invariant per the "
        "frozen table, never metric; nothing is read under the cache lock after vertices or entities changed; copies and splits read "
        "verified entries only; entity bytes cover points and closed flags. Invariance under entity permutation / splitting / direction, "
        "exact area and length, and DXF/SVG round trips are not decided.",
    }
