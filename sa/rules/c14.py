"""C14 - paths rebuild the same regions (narrow): the clause "these quantities transform
correctly ... whatever was computed beforehand" and the stated anchor Path._cache.

Same machinery as C01 applied to Path: memo soundness of the Path producers against the
Path hash (vertices + entity bytes), preservation obligations for every function that keeps
Path memo entries across a change of vertices / entities, the lock rule, raw-read rule, and
coverage of entity state by Entity._bytes.
"""
from __future__ import annotations

import ast
import re

from ..cachesim import CacheSim
from ..effects import Effects
from ..index import Index
from ..preserve import check_surgery
from ..rawreads import raw_reads
from ..report import AnalysisError, key_of

LEVEL = "other"

# keys Path.apply_transform copies across an invertible affine map of the vertices (frozen, reasoned; DESIGN C14)
AFFINE_INVARIANT = {
    "paths": "closed loops of entity indices: connectivity of the vertex graph, invariant up to traversal direction",
    "dangling": "entities not on a closed loop: connectivity only",
    "vertex_graph": "graph of vertex indices joined by entities: connectivity only",
    "path_valid": "which loops formed valid polygons: invariant under invertible affine maps",
    "root": "outermost loops of the containment tree: containment is affine invariant",
    "enclosure": "containment graph: affine invariant",
    "enclosure_directed": "containment graph: affine invariant",
    "enclosure_shell": "shell -> holes table: affine invariant",
}
INVARIANCE = {(k, "vertices", "transform"): why for k, why in AFFINE_INVARIANT.items()}
# anything metric must never be copied across a transform
METRIC = {"bounds", "extents", "length", "area", "centroid", "polygons_closed", "polygons_full", "kdtree", "scale", "obb", "identifier"}

# memo keys a Path function may assign a computed value to while changing vertices/entities (frozen, reviewed)
TRANSPORT = {
    "discrete": "lists of points on the curves: mapped pointwise by the same matrix",
}
ENTITY_HASHED_FIELDS = {"points", "_points", "closed", "_closed"}


def hashed_path(path):
    if not path:
        return None
    if path[0] in ("_vertices", "vertices"):
        return "vertices"
    if path[0] in ("_entities", "entities"):
        leaf = [p for p in path[1:] if not p.startswith("[")]
        if not leaf or leaf[-1] in ENTITY_HASHED_FIELDS:
            return "entities"
    return None


def _arc_obligations(run, ix):
    """A1: arc_center's barycentric formula is the circumcentre (equidistant from the three points), 2D and 3D.
    A2: the long-arc test is sign-equivalent to cos(span / 2) wherever the middle control point lies on the arc."""
    import numpy as np
    import sympy as sp
    from ..alg import Frame, Interp, Unsupported, arr, symbols_array, tolerant_block, _Return

    run.rule("A1", "arc_center: the computed centre is equidistant from the three control points (rational identity, 2D and 3D)")
    run.rule("A2", "arc_center: the quantity whose sign selects the long arc equals K sin(a) sin(b) cos(a + b), K > 0, for arc halves a, b on either side of the "
                   "middle control point: the decision depends on the span only, not on where the middle point sits")
    f = ix.func("trimesh.path.arc:arc_center")

    tolerant = tolerant_block

    # ---------------- A1
    for dim in (2, 3):
        P = symbols_array("p", (3, dim))
        it = Interp(ix)
        it.decider = lambda fr, t: False
        it.trace = {}
        fr = Frame(it, f, {"points": P, "return_normal": False, "return_angle": False})
        skipped = []
        try:
            tolerant(fr, f.node.body, skipped)
        except _Return:
            pass
        c = it.trace.get(("arc_center", "center"))
        if not c:
            raise AnalysisError(f"anchor vanished: `center` in arc_center ({skipped[:3]})")
        c = arr(c[-1])
        # |p_k - c|^2 - |p_l - c|^2 = |p_k|^2 - |p_l|^2 - 2 c.(p_k - p_l): linear in c, so clear the denominators and expand
        fr_ = [sp.fraction(sp.together(c[j])) for j in range(dim)]
        den = sp.Integer(1)
        for _, d_ in fr_:
            if sp.expand(den - d_) != 0:
                den = sp.lcm(den, d_) if den != 1 else d_

        def cleared(expr_of_c):
            return sp.expand(sum(term for term in expr_of_c))

        def equidistant(k, l):
            const = sum(P[k, j] ** 2 - P[l, j] ** 2 for j in range(dim)) * den
            lin = sum(2 * fr_[j][0] * sp.cancel(den / fr_[j][1]) * (P[k, j] - P[l, j]) for j in range(dim))
            return sp.expand(const - lin) == 0

        ok = equidistant(0, 1) and equidistant(1, 2)
        if dim == 3 and ok:
            # the centre lies in the plane of the three points
            n = sp.Matrix(list(P[1] - P[0])).cross(sp.Matrix(list(P[2] - P[0])))
            ok = sp.expand(sum(n[j] * (fr_[j][0] * sp.cancel(den / fr_[j][1]) - P[0, j] * den) for j in range(3))) == 0
        run.obligation("A1", f.where, f"|p0 - c|^2 == |p1 - c|^2 == |p2 - c|^2 for symbolic {dim}D points{' and c is coplanar' if dim == 3 else ''}", ok)
        if not ok:
            run.violation("A1", f.where, f"arc_center's centre is not the circumcentre of its three control points ({dim}D)", key=key_of("C14-A1", dim))

    # ---------------- A3 length of an arc
    run.rule("A3", "Arc.length == span * radius (2 pi radius for a closed circle): the length of a curve does not depend on whether it is stored as an arc or as segments")
    from ..alg import Namespace, PyHook
    fl = ix.func("trimesh.path.entities:Arc.length")
    S_, R_ = sp.symbols("span radius", positive=True)
    for closed, want in ((False, S_ * R_), (True, 2 * sp.pi * R_)):
        it = Interp(ix)
        me = Namespace("Arc", closed=closed, center=PyHook(lambda *a, **k: Namespace("ArcInfo", span=S_, radius=R_)))
        try:
            got = it.call(fl, [me, symbols_array("v", (3, 2))])
        except Unsupported as e:
            # a construct E3 has no transfer function for is not a verdict either way
            run.instance("A3", fl.where, f"Arc.length (closed={closed}): E3 cannot translate it ({str(e)[:60]}) - NOT decided", True, nontrivial=False)
            run.assume(f"Arc.length not translated by E3: {str(e)[:80]}")
            continue
        ok = sp.simplify(sp.sympify(got) - want) == 0
        run.obligation("A3", fl.where, f"Arc.length (closed={closed}) == {want} (got {sp.simplify(sp.sympify(got))})", ok)
        if not ok:
            run.violation("A3", fl.where, f"Arc.length (closed={closed}) is {sp.simplify(sp.sympify(got))}, not {want}: Path.length then depends on how a curve is represented",
                          key=key_of("C14-A3", closed))
    # ---------------- A4 SVG export: the large-arc flag is the span test
    run.rule("A4", "SVG export: the large-arc flag of an arc is `span > pi` with the span returned by arc_center (proved independent of the control point by A2)")
    from ..provenance import Prov
    from ..svgarc import find_arc_writers
    writers = find_arc_writers(ix)
    if len(writers) != 1:
        run.instance("A4", "trimesh/path/exchange/svg_io.py", f"{len(writers)} functions format an SVG `A` command with keyword flags - NOT decided", True, nontrivial=False)
        run.assume("svg_io: arc writer not in a recognised form (A4)")
    else:
        fs, call_, (large_name, _sw) = writers[0]
        ps = Prov(ix, fs)
        val = next(k.value for k in call_.keywords if k.arg == large_name)
        st_ = ps.stmt_of(call_)
        txt = ps.canon(val, st_) if st_ is not None else ast.unparse(val)
        good = re.fullmatch(r"int\(trimesh\.path\.arc\.arc_center\((?:L_|PHI_|P_)?[\w\[\].]+(?:, [\w=]+)*\)\.span >=? numpy\.pi\)", txt) is not None \
            and "return_angle=False" not in txt
        recognised = "span" in txt or "arc_center" in txt or ">" in txt or "<" in txt
        if not good and not recognised:
            run.instance("A4", fs.where, f"large-arc flag `{txt[:80]}` not in a recognised form - NOT decided", True, nontrivial=False)
            run.assume("svg_io: large-arc flag not recognised")
        else:
            run.instance("A4", fs.where, f"large_flag := `{txt[:100]}`", good)
            if not good:
                run.violation("A4", fs.where, f"SVG export decides the large-arc flag by `{txt[:110]}` instead of `arc_center(...).span > pi`: unless the test is independent of where the "
                                              f"middle control point sits, arcs of more than 180 degrees are written as the minor arc", key=key_of("C14-A4", "large-flag"))
    # ---------------- A2
    r, cx, cy = sp.symbols("r cx cy", real=True)
    st_, ct = sp.symbols("s_t c_t", real=True)
    sa, ca = sp.symbols("s_a c_a", real=True)
    sb, cb = sp.symbols("s_b c_b", real=True)

    def add(p, q):  # (sin, cos) of a sum
        return (p[0] * q[1] + p[1] * q[0], p[1] * q[1] - p[0] * q[0])

    def dbl(p):
        return (2 * p[0] * p[1], p[1] ** 2 - p[0] ** 2)

    th0 = (st_, ct)
    th1 = add(th0, dbl((sa, ca)))
    th2 = add(th1, dbl((sb, cb)))
    unit = np.array([[t[1], t[0]] for t in (th0, th1, th2)], dtype=object)
    P = np.array([[cx + r * u[0], cy + r * u[1]] for u in unit], dtype=object)
    captured = {}

    def decider(fr, test):
        txt = ast.unparse(test)
        if isinstance(test, ast.Compare) and len(test.ops) == 1 and isinstance(test.ops[0], ast.Gt) and "angle" in txt and "_TOL_ZERO" in txt:
            return True  # a non-degenerate arc: go on to the long-arc conjunct
        if isinstance(test, ast.Compare) and len(test.ops) == 1 and isinstance(test.ops[0], ast.Lt) and ast.unparse(test.comparators[0]) in ("0.0", "0") \
                and "q" not in captured and "dot <" not in txt:
            try:
                captured["q"] = fr.ev(test.left)
                captured["line"] = test.lineno
            except Unsupported as e:
                captured["err"] = str(e)
        return False

    it = Interp(ix, overrides={("arc_center", "center"): np.array([cx, cy], dtype=object), ("arc_center", "vector"): unit,
                               ("arc_center", "angle"): sp.Symbol("angle", positive=True), ("arc_center", "dot"): sp.Symbol("dotv", real=True)})
    it.decider = decider
    fr = Frame(it, f, {"points": P, "return_normal": False, "return_angle": True})
    skipped = []
    try:
        tolerant(fr, f.node.body, skipped)
    except _Return:
        pass
    if "q" not in captured:
        raise AnalysisError(f"anchor vanished: the `... < 0.0` long-arc test in arc_center ({captured.get('err', skipped[:4])})")
    from .c19 import reduce_mod

    class _T:
        syms = {"t": (st_, ct), "a": (sa, ca), "b": (sb, cb)}

    q = reduce_mod(sp.expand(sp.sympify(captured["q"])), _T)
    ref = reduce_mod(sp.expand(sa * sb * (ca * cb - sa * sb)), _T)
    K = sp.cancel(q / ref) if ref != 0 else sp.nan
    ok = K.free_symbols <= {r} and bool(K.subs(r, 1) > 0) if K is not sp.nan and K.free_symbols <= {r} else False
    run.obligation("A2", f.where, f"long-arc quantity == ({K}) * sin(a) sin(b) cos(a + b)" if ok else f"long-arc quantity / (sin a sin b cos(a+b)) = {str(K)[:80]}", ok)
    if not ok:
        run.violation("A2", f"{f.module.rel}:{captured['line']} arc_center",
                      f"the long-arc test of arc_center is not a positive multiple of sin(a) sin(b) cos(a + b): its sign depends on where the middle control "
                      f"point sits on the arc, so some arcs of more than 180 degrees are reported with span 360 - S (ratio: {str(K)[:90]})",
                      key=key_of("C14-A2", "long-arc"))


def rhs_kind(st, sim):
    if isinstance(st, ast.Assign) and isinstance(st.targets[0], ast.Attribute) and st.targets[0].attr == "vertices":
        v = st.value
        if isinstance(v, ast.Call) and ast.unparse(v.func).endswith("transform_points") and v.args and ast.unparse(v.args[0]).endswith(".vertices"):
            return {"vertices": "transform"}
    return None


def check(run):
    ix = Index(run.repo)
    ef = Effects(ix)
    run.analysed.update(ix.stats())
    run.rule("R1", "memo soundness: every cached Path producer reads only vertices and entity state that Path.__hash__ covers")
    run.rule("R2", "preservation: a Path memo entry that survives a change of vertices/entities is re-assigned by the function or is in the affine-invariant table (never a metric quantity)")
    run.rule("R2b", "lock rule: no memo entry is read under `with path._cache:` after vertices/entities it depends on were written")
    run.rule("R3", "Path.__hash__ covers the vertex array and the bytes of every entity; Entity._bytes covers the point indices (and closed flag where it exists)")
    run.rule("R8", "a function that re-certifies memo entries verifies the cache before its first write of hashed data or lock entry")
    run.rule("R7", "memo entries of a path are read raw only after verification (copy, split, simplify)")

    P = ix.cls("trimesh.path.path.Path")
    P2 = ix.cls("trimesh.path.path.Path2D")
    P3 = ix.cls("trimesh.path.path.Path3D")
    fps = {}
    for cls in (P2, P3, P):
        seen = set()
        for k in cls.mro:
            for name, g in k.getters.items():
                if name in seen or g.kind != "cached":
                    continue
                seen.add(name)
                s = ef.summary(g, cls)
                data, other = set(), set()
                for (root, path, tag) in s.reads:
                    if root != g.params[0] or not path or path[0] == "_cache":
                        continue
                    lab = hashed_path(path)
                    if lab is not None:
                        data.add((lab, tag))
                    elif path[0] in ("_entities", "entities"):
                        other.add((path, tag))
                    elif path[0] not in ("__class__",):
                        other.add((path, tag))
                if name not in fps:
                    fps[name] = (g, data, other)
                else:
                    fps[name] = (fps[name][0], fps[name][1] | data, fps[name][2] | other)
    run.floor("cached Path producers", len(fps), 18)
    # by-products
    sp = {}
    for name, (g, data, other) in fps.items():
        for st in ast.walk(g.node):
            if isinstance(st, ast.Assign) and isinstance(st.targets[0], ast.Subscript) and ast.unparse(st.targets[0].value) in ("self._cache", "self._cache.cache") \
                    and isinstance(st.targets[0].slice, ast.Constant) and st.targets[0].slice.value != name:
                sp[st.targets[0].slice.value] = name

    def footprint(key):
        if key in fps:
            return fps[key][1]
        if key in sp:
            return fps[sp[key]][1]
        return None

    # ---- R1
    ACCEPTED_UNHASHED = {
        "_direction": "traversal direction flag: (re)established by `paths`, which every reader of the flag (`discrete`) forces first; "
                      "it changes the order of discretised points, not the curve",
    }
    for name, (g, data, other) in sorted(fps.items()):
        bad = []
        for path, tag in other:
            leaf = [p for p in path if not p.startswith("[")][-1]
            if leaf in ACCEPTED_UNHASHED:
                continue
            bad.append(".".join(path))
        ok = not bad
        run.instance("R1", g.where, f"{name}: reads {sorted(data)}" + (f"; unhashed {sorted(set(bad))}" if bad else ""), ok)
        if not ok:
            run.violation("R1", g.where, f"cached Path property `{name}` depends on state Path.__hash__ does not cover: {sorted(set(bad))}",
                          key=key_of("C14-R1", name))

    # ---- R2 / R2b
    n = 0
    for f in ix.all_functions:
        if not f.module.name.startswith("trimesh.path"):
            continue
        if "_cache" not in ast.unparse(f.node) or f.kind in ("cached", "property") or f.name in ("__init__",):
            continue
        owner, cls = None, None
        if f.cls is not None and P in f.cls.mro and f.parent is None:
            owner, cls = f.params[0], f.cls
        elif "path" in f.params:
            owner, cls = "path", None
        elif "drawing" in f.params:
            owner = "drawing"
        else:
            continue
        all_keys = set(fps) | set(sp)
        if check_surgery(run, ef, f, cls, owner, hashed_path, rhs_kind, footprint, all_keys, INVARIANCE, sp, None, "C14",
                         transport_ok=TRANSPORT):
            n += 1
    run.floor("Path functions performing cache surgery", n, 2)
    # metric keys must not be in the copied list of apply_transform at all (belt and braces: the table above is per key)
    at = ix.func("trimesh.path.path:Path.apply_transform")
    copied = []
    for loop in ast.walk(at.node):
        if isinstance(loop, ast.For) and isinstance(loop.iter, (ast.List, ast.Tuple)):
            try:
                copied = [e.value for e in loop.iter.elts]
            except AttributeError:
                pass
    # (when the function is written with clear(exclude=...) instead of a stash loop the simulation above covers the same keys)
    for k in copied:
        ok = k in AFFINE_INVARIANT and k not in METRIC
        run.instance("R2", at.where, f"copied key `{k}`: {AFFINE_INVARIANT.get(k, 'NOT in the affine-invariant table')}", ok)
        if not ok:
            run.violation("R2", at.where, f"Path.apply_transform carries `{k}` across the transform unchanged although it is not invariant under "
                                          f"affine maps of the vertices", key=key_of("C14-R2", "copied", k))
    # discrete must be transported by the same matrix
    from ..provenance import Prov as _Prov
    pat = _Prov(ix, at)
    mpar = at.params[1] if len(at.params) > 1 else "transform"
    dstores = [st for st in ast.walk(at.node) if isinstance(st, ast.Assign) and isinstance(st.targets[0], ast.Subscript)
               and isinstance(st.targets[0].slice, ast.Constant) and st.targets[0].slice.value == "discrete"]
    ok = None if not dstores else True
    for st in dstores:
        t = pat.canon(st.value, st)
        m_ = re.fullmatch(r"\[trimesh\.transformations\.transform_points\((\w+), (?:matrix=)?P_%s\) for (\w+) in P_self\.discrete\]" % mpar, t)
        ok = ok and m_ is not None and m_.group(1) == m_.group(2)
    if ok is None:
        # `discrete` is not stored by the function at all: whether it survives is the business of the simulation above
        run.instance("R2", at.where, "`discrete` is not re-stored by apply_transform", True, nontrivial=False)
        ok = True
    else:
        run.instance("R2", at.where, "`discrete` is transported by the same matrix", ok)
    if not ok:
        run.violation("R2", at.where, "`discrete` is no longer mapped through the transform before being kept", key=key_of("C14-R2", "discrete"))
    # ---- R3
    h = ix.func("trimesh.path.path:Path.__hash__")
    from ..accum import contributions, return_sources
    srcs, reach = return_sources(h.node)
    inside = {id(x) for e in srcs for x in ast.walk(e)}
    has_vertices = any(ast.unparse(x) in ("self.vertices.__hash__()", "hash(self.vertices)") for e in srcs for x in ast.walk(e) if isinstance(x, ast.Call))
    has_entities = any(c.iter == "self.entities" and re.fullmatch(r"\[?_1\.\w+\(\)\]?", c.elt) and not c.filters
                       and (id(c.node) in inside if c.acc is None else c.acc in reach) for c in contributions(h.node))
    ok = has_vertices and has_entities
    run.instance("R3", h.where, "Path hash = vertices hash + bytes of every entity", ok)
    if not ok:
        run.violation("R3", h.where, "Path.__hash__ does not cover the vertex array and every entity", key=key_of("C14-R3", "path-hash"))
    em = ix.modules["trimesh.path.entities"]
    from ..accum import entity_bytes_name
    _bytes_name = entity_bytes_name(ix)
    for cname, c in em.classes.items():
        b = c.methods.get(_bytes_name)
        if b is None:
            continue
        local = {st.targets[0].id: ast.unparse(st.value) for st in ast.walk(b.node)
                 if isinstance(st, ast.Assign) and isinstance(st.targets[0], ast.Name)}
        rets = [ast.unparse(r.value) for r in ast.walk(b.node) if isinstance(r, ast.Return) and r.value is not None]
        rets = [local.get(r, r) for r in rets]
        ok = bool(rets) and all("points" in r and "tobytes()" in r for r in rets)
        has_closed_flag = any(isinstance(s, ast.Assign) and isinstance(s.targets[0], ast.Attribute) and s.targets[0].attr == "_closed"
                              for s in ast.walk(c.node))
        if has_closed_flag:
            ok = ok and all("closed" in r for r in rets)
        run.instance("R3", b.where, f"{cname}._bytes covers points{' and the closed flag' if has_closed_flag else ''}", ok)
        if not ok:
            run.violation("R3", b.where, f"{cname}._bytes omits state that changes the curve (points / closed flag)", key=key_of("C14-R3", cname))
    # ---- A1 / A2 three-point arcs (algebraic)
    _arc_obligations(run, ix)
    # ---- A8 entity nodes keep an interior point (the vertex graph is a simple graph)
    run.rule("A8", "traversal.vertex_graph is a simple graph (one edge per vertex pair): every `nodes` implementation of a curved entity routes through an interior "
                   "control point, so two entities that share both end points (two half circles, an arc and its chord) stay two distinct connections")
    tv = ix.func("trimesh.path.traversal:vertex_graph")
    simple = any(isinstance(c_, ast.Call) and ast.unparse(c_.func).split(".")[-1] == "Graph" for c_ in ast.walk(tv.node)) and \
        not any(isinstance(c_, ast.Call) and "Multi" in ast.unparse(c_.func) for c_ in ast.walk(tv.node))
    n8 = 0
    for cname, c in ix.modules["trimesh.path.entities"].classes.items():
        g = c.getters.get("nodes")
        if g is None:
            continue
        n8 += 1
        idx = []
        general = False
        for sub in ast.walk(g.node):
            if isinstance(sub, ast.Subscript) and ast.unparse(sub.value) in ("self.points", "self._points"):
                sl = sub.slice
                if isinstance(sl, ast.Slice):
                    general = True
                elif isinstance(sl, (ast.List, ast.Tuple)) and all(isinstance(e_, (ast.Constant, ast.UnaryOp)) for e_ in sl.elts):
                    idx += [ast.literal_eval(ast.unparse(e_)) for e_ in sl.elts]
                else:
                    try:
                        idx.append(ast.literal_eval(ast.unparse(sl)))
                    except Exception:
                        general = True
        ends_only = bool(idx) and not general and set(idx) <= {0, -1}
        where_ = g.where
        if not simple:
            run.instance("A8", where_, f"{cname}.nodes: vertex_graph is not a simple nx.Graph - NOT decided", True, nontrivial=False)
            continue
        run.instance("A8", where_, f"{cname}.nodes reads self.points at {sorted(set(idx)) if idx else 'slices / computed positions'}: interior point on the route: {not ends_only}", not ends_only)
        if ends_only and cname != "Text":
            run.violation("A8", where_, f"`{cname}.nodes` connects only the two end points (`self.points` read at {sorted(set(idx))}): vertex_graph keeps ONE edge per vertex pair, so "
                                        f"a closed curve made of two entities that share both end points (two arcs, an arc and a segment) collapses to a single edge - no cycle, "
                                        f"`paths` empty, area 0", key=key_of("C14-A8", cname))
    run.floor("`nodes` implementations of entities", n8, 2)
    from ..memostore import memo_store_rule
    memo_store_rule(run, ix, "R9", "C14", module_filter=lambda m: m.startswith("trimesh.path"), floor=1)
    from ..passthrough import pass_through_rule
    pass_through_rule(run, ix, "A7", "C14", "trimesh.path.polygons:edges_to_polygons", "enclosure_tree",
                      "edges_to_polygons: every result with more than one ring is assembled from the containment tree (enclosure_tree); only the empty / single-ring case may return before it",
                      "shell / hole assignment is a parity question over the nesting depth; a shortcut that asks only `contained by something` turns an island inside a hole into a hole")
    from ..svgarc import sweep_rule
    sweep_rule(run, ix, "A6", "C14")
    # ---- A5 nesting is decided loop-in-loop
    run.rule("A5", "enclosure_tree: a loop is nested in another when the other CONTAINS THE WHOLE LOOP (polygon in polygon); a representative point of a non-convex "
                   "loop can lie inside a sibling that does not enclose the loop")
    from ..provenance import Prov as _Prov
    et = ix.func("trimesh.path.polygons:enclosure_tree")
    pe_ = _Prov(ix, et)
    n5 = 0
    for c_ in ast.walk(et.node):
        if isinstance(c_, ast.Call) and isinstance(c_.func, ast.Attribute) and c_.func.attr in ("contains", "covers", "within", "contains_properly") and len(c_.args) == 1:
            st_ = pe_.stmt_of(c_)
            if st_ is None:
                continue
            recv, arg = pe_.canon(c_.func.value, st_), pe_.canon(c_.args[0], st_)
            if not recv.startswith("P_polygons["):
                continue
            n5 += 1
            point_like = re.search(r"\.(centroid|representative_point\(\)|coords\[0\])", arg) is not None or "shapely.geometry.Point(" in arg
            whole = arg.startswith("P_polygons[") and not point_like
            run.instance("A5", f"{et.module.rel}:{c_.lineno} {et.qualname}", f"`{recv[:40]}.{c_.func.attr}({arg[:50]})`: the argument is the whole other loop: {whole}", whole or not point_like)
            if point_like:
                run.violation("A5", f"{et.module.rel}:{c_.lineno} {et.qualname}", f"enclosure_tree decides nesting from `{arg[:70]}`, one point of the other loop: for a non-convex loop (a C-shaped "
                                                                                  f"slot) that point can lie inside a sibling hole, which then counts as its parent - shells, holes and area come out wrong",
                              key=key_of("C14-A5", "point-containment"))
    if n5 == 0:
        run.instance("A5", et.where, "no polygon-in-polygon test of the recognised form in enclosure_tree - NOT decided", True, nontrivial=False)
        run.assume("enclosure_tree: containment tests not in a recognised form")
    # ---- R7
    raw_reads(run, ix, ef, "R7", "C14", module_filter=lambda m: m.startswith("trimesh.path"), floor=1)
    run.assume("invariance of the eight copied keys under invertible affine maps is a frozen judgement (table in the checker, reasons in evidence)")
    return {
        "explanation": "C01's footprint + cache-surgery simulation applied to Path: every cached Path producer reads only hashed state; in "
        "apply_transform / split / simplify / repair / process each surviving memo entry is transported, or affine-invariant per the "
        "frozen table, never metric; nothing is read under the cache lock after vertices or entities changed; copies and splits read "
        "verified entries only; entity bytes cover points and closed flags. Invariance under entity permutation / splitting / direction, "
        "exact area and length, and DXF/SVG round trips are not decided.",
    }
