"""C11 - plane sections (narrow): the sign-pattern case table of
`intersections.mesh_plane.triangle_cases` is a partition consistent with the
three handlers it is zipped with.

Finite-domain evaluation: the body of triangle_cases is interpreted row-wise on
each of the 27 sign vectors in {-1,0,1}^3 (a complete enumeration of the abstract
domain, no mesh, no floating point).  Handler preconditions (how many vertices of
a row must lie on the plane) are read off each handler's own body.
"""
from __future__ import annotations

import ast
import re
import itertools

from ..index import Index
from ..report import AnalysisError, key_of

LEVEL = "other"


class RowInterp:
    """interprets triangle_cases for ONE row of signs; arrays over rows are
    represented by their single row (a tuple) or scalar"""

    def __init__(self, param, row):
        self.env = {param: tuple(row)}

    def ev(self, e):
        if isinstance(e, ast.Constant):
            return e.value
        if isinstance(e, ast.Name):
            if e.id in self.env:
                return self.env[e.id]
            raise AnalysisError(f"C11 evaluator: unbound name {e.id}")
        if isinstance(e, ast.List) or isinstance(e, ast.Tuple):
            return [self.ev(x) for x in e.elts]
        if isinstance(e, ast.UnaryOp) and isinstance(e.op, ast.USub):
            return -self.ev(e.operand)
        if isinstance(e, ast.Compare) and len(e.ops) == 1:
            import operator as o

            a, b = self.ev(e.left), self.ev(e.comparators[0])
            fn = {ast.Eq: o.eq, ast.NotEq: o.ne, ast.Lt: o.lt, ast.LtE: o.le, ast.Gt: o.gt, ast.GtE: o.ge}[type(e.ops[0])]
            if isinstance(a, tuple):
                return tuple(fn(x, b) for x in a)
            return fn(a, b)
        if isinstance(e, ast.UnaryOp) and isinstance(e.op, ast.Invert):
            return not self.ev(e.operand)
        if isinstance(e, ast.BinOp):
            a, b = self.ev(e.left), self.ev(e.right)
            import operator as o

            fn = {ast.Add: o.add, ast.Sub: o.sub, ast.Mult: o.mul, ast.LShift: o.lshift, ast.BitOr: o.or_,
                  ast.BitAnd: o.and_}.get(type(e.op))
            if fn is None:
                raise AnalysisError(f"C11 evaluator: operator in `{ast.unparse(e)}`")
            return fn(a, b)
        if isinstance(e, ast.Subscript):
            v = self.ev(e.value)
            sl = e.slice
            if isinstance(sl, ast.Tuple) and len(sl.elts) == 2 and isinstance(sl.elts[0], ast.Slice):
                # X[:, i] : column i of the row
                return v[self.ev(sl.elts[1])]
            idx = self.ev(sl)
            if isinstance(v, list) and isinstance(idx, int):
                if idx < 0 or idx >= len(v):
                    raise IndexError(f"index {idx} outside key table of length {len(v)}")
                self.env.setdefault("<codes>", set()).add(idx)  # the value used to look a row up in a table
                return v[idx]
            raise AnalysisError(f"C11 evaluator: subscript `{ast.unparse(e)}`")
        if isinstance(e, ast.Call):
            fname = ast.unparse(e.func).split(".")[-1]
            if fname == "sort":
                return tuple(sorted(self.ev(e.args[0])))
            if fname == "zeros":
                n = self.ev(e.args[0])
                dt = next((ast.unparse(k.value) for k in e.keywords if k.arg == "dtype"), "")
                if isinstance(n, int) and "bool" in dt:
                    return [False] * n
                return 0  # per-row scalar accumulator
            if fname == "len":
                return 1
            if fname == "sum" and isinstance(e.func, ast.Attribute):
                v = self.ev(e.func.value)
                return sum(v)
            if fname in ("abs", "absolute"):
                v = self.ev(e.args[0])
                return tuple(abs(x) for x in v) if isinstance(v, tuple) else abs(v)
            if fname == "logical_and":
                return bool(self.ev(e.args[0])) and bool(self.ev(e.args[1]))
            if fname == "logical_or":
                return bool(self.ev(e.args[0])) or bool(self.ev(e.args[1]))
            if fname == "logical_not":
                return not bool(self.ev(e.args[0]))
            if fname == "range":
                return range(*[self.ev(a) for a in e.args])
        raise AnalysisError(f"C11 evaluator: unsupported expression `{ast.unparse(e)}`")

    def run(self, body):
        for st in body:
            if isinstance(st, ast.Expr) and isinstance(st.value, ast.Constant):
                continue
            if isinstance(st, ast.Assign):
                t = st.targets[0]
                if isinstance(t, ast.Name):
                    v = self.ev(st.value)
                    self.env[t.id] = list(v) if isinstance(v, list) else v
                elif isinstance(t, ast.Subscript) and isinstance(t.value, ast.Name):
                    arr = self.env[t.value.id]
                    val = self.ev(st.value)
                    if isinstance(t.slice, ast.Slice):
                        for i in range(len(arr)):
                            arr[i] = val
                    else:
                        idx = self.ev(t.slice)
                        for i in idx if isinstance(idx, list) else [idx]:
                            if i < 0 or i >= len(arr):
                                raise IndexError(f"key index {i} outside table of length {len(arr)}")
                            arr[i] = val
                else:
                    raise AnalysisError(f"C11 evaluator: assignment `{ast.unparse(st)}`")
            elif isinstance(st, ast.AugAssign) and isinstance(st.target, ast.Name):
                cur = self.env[st.target.id]
                v = self.ev(st.value)
                if isinstance(st.op, ast.Add):
                    self.env[st.target.id] = cur + v
                elif isinstance(st.op, ast.Sub):
                    self.env[st.target.id] = cur - v
                else:
                    raise AnalysisError(f"C11 evaluator: `{ast.unparse(st)}`")
            elif isinstance(st, ast.For) and isinstance(st.target, ast.Name):
                for i in self.ev(st.iter):
                    self.env[st.target.id] = i
                    r = self.run(st.body)
                    if r is not None:
                        return r
            elif isinstance(st, ast.Return):
                v = st.value
                names = [ast.unparse(x) for x in (v.elts if isinstance(v, ast.Tuple) else [v])]
                vals = [self.ev(x) for x in (v.elts if isinstance(v, ast.Tuple) else [v])]
                return names, vals
            else:
                raise AnalysisError(f"C11 evaluator: unsupported statement `{ast.unparse(st)[:60]}`")
        return None


def _zeros_required(handler):
    """how many on-plane vertices per row the handler's indexing assumes:
    `faces[signs == 0]` un-reshaped -> 1, reshaped (-1, 2) -> 2, absent -> 0"""
    src = ast.unparse(handler)
    need = 0
    for n in ast.walk(handler):
        if isinstance(n, ast.Subscript) and "signs == 0" in ast.unparse(n.slice):
            need = max(need, 1)
    for n in ast.walk(handler):
        if isinstance(n, ast.Call) and isinstance(n.func, ast.Attribute) and n.func.attr == "reshape":
            if "signs == 0" in ast.unparse(n.func.value):
                shp = (ast.unparse(n.args[0]) if len(n.args) == 1 else "(" + ",".join(ast.unparse(a) for a in n.args) + ")").replace(" ", "")
                if shp in ("(-1,2)", "[-1,2]"):
                    need = 2
                else:
                    raise AnalysisError(f"C11: unexpected reshape {shp} of on-plane vertices in {handler.name}")
    uses_unique = "unique_value_in_row" in src
    return need, uses_unique


def check(run):
    ix = Index(run.repo)
    run.analysed.update(ix.stats())
    mp = ix.func("trimesh.intersections:mesh_plane")
    # the classifier is the nested function that is not one of the three handlers (by role: the names are private to
    # mesh_plane): the handlers are the nested functions collected in one tuple, the classifier is called on the signs
    in_tuple = set()
    for st in mp.node.body:
        if isinstance(st, ast.Assign) and isinstance(st.value, ast.Tuple) and len(st.value.elts) == 3 and all(
                isinstance(x, ast.Name) and x.id in mp.nested for x in st.value.elts):
            in_tuple = {x.id for x in st.value.elts}
    called = {c.func.id for c in ast.walk(mp.node) if isinstance(c, ast.Call) and isinstance(c.func, ast.Name)}
    cands = [g for n_, g in mp.nested.items() if n_ not in in_tuple and n_ in called and len(g.params) == 1]
    tc = mp.nested.get("triangle_cases") or (cands[0] if len(cands) == 1 else None)
    if tc is None:
        raise AnalysisError(f"anchor vanished: the sign classifier nested in mesh_plane ({len(cands)} candidates by role)")
    run.rule("R1", "the code of the sorted sign pattern is injective on the 10 patterns and indexes inside the key table")
    run.rule("R2", "the three case masks are pairwise disjoint for every sign vector")
    run.rule("R3", "each mask selects exactly the sign patterns its handler's indexing assumes (zeros per row, both sides present)")
    run.rule("R4", "handlers are zipped with the masks in the order triangle_cases returns them")
    run.rule("R5", "signs are computed into {-1,0,1} with symmetric thresholds before classification")

    param = tc.params[0]
    rows = list(itertools.product((-1, 0, 1), repeat=3))
    results = {}
    names = None
    for row in rows:
        it = RowInterp(param, row)
        try:
            out = it.run(tc.node.body)
            if out is None:
                raise AnalysisError("C11 evaluator: triangle_cases has no return")
            names, vals = out
        except IndexError as e:
            run.instance("R1", tc.where, f"signs {row}: {e}", False)
            run.violation("R1", tc.where, f"sign pattern {tuple(sorted(row))} indexes outside the key table: {e}",
                          key=key_of("C11-R1", "index", tuple(sorted(row))))
            continue
        results[row] = vals
        cs_ = it.env.get("<codes>", set())
        coded = next(iter(cs_)) if len(cs_) == 1 else (tuple(sorted(cs_)) or None)
        results[row] = (vals, coded)
    if names is None or len(names) != 3:
        raise AnalysisError(f"triangle_cases no longer returns three masks: {names}")
    run.floor("sign vectors evaluated", len(results), 27 if not run.violations else 1)

    # R1 injectivity on sorted patterns
    by_pattern = {}
    for row, (vals, coded) in results.items():
        by_pattern.setdefault(tuple(sorted(row)), set()).add(coded)
    codes = {}
    ok = True
    for pat, cs in sorted(by_pattern.items()):
        if len(cs) != 1:
            ok = False
        c = next(iter(cs))
        if c in codes:
            ok = False
            run.violation("R1", tc.where, f"sign patterns {codes[c]} and {pat} receive the same code {c}",
                          key=key_of("C11-R1", "collision", min(codes[c], pat), max(codes[c], pat)))
        codes.setdefault(c, pat)
        run.instance("R1", tc.where, f"pattern {pat} -> code {c}", True)
    run.analysed["codes"] = {str(v): k for k, v in codes.items()}

    # R2 disjoint, R3 semantic content
    handlers_assign = None
    for st in mp.node.body:
        if isinstance(st, ast.Assign) and isinstance(st.value, ast.Tuple) and all(
                isinstance(x, ast.Name) and x.id in mp.nested for x in st.value.elts) and len(st.value.elts) == 3:
            handlers_assign = st
    if handlers_assign is None:
        raise AnalysisError("anchor vanished: `handlers = (handle_basic, handle_on_vertex, handle_on_edge)` in mesh_plane")
    handler_names = [x.id for x in handlers_assign.value.elts]
    # zip(cases, handlers) where cases = triangle_cases(signs)
    zipped = [n for n in ast.walk(mp.node) if isinstance(n, ast.Call) and getattr(n.func, "id", "") == "zip"]
    tgt = ast.unparse(handlers_assign.targets[0])
    ok_zip = any(len(z.args) == 2 and ast.unparse(z.args[1]) == tgt for z in zipped)
    cases_var = next((ast.unparse(z.args[0]) for z in zipped if len(z.args) == 2 and ast.unparse(z.args[1]) == tgt), None)
    ok_cases = False
    for st in mp.node.body:
        if isinstance(st, ast.Assign) and ast.unparse(st.targets[0]) == cases_var and f"{tc.name}(" in ast.unparse(st.value):
            ok_cases = True
    run.instance("R4", mp.where, f"masks {names} zipped with {handler_names}: zip present={ok_zip}, cases from triangle_cases={ok_cases}",
                 ok_zip and ok_cases)
    if not (ok_zip and ok_cases):
        run.violation("R4", mp.where, "mesh_plane no longer zips the masks returned by triangle_cases with the handler tuple",
                      key=key_of("C11-R4", "zip"))

    for row, (vals, coded) in sorted(results.items()):
        n_true = sum(bool(v) for v in vals)
        ok2 = n_true <= 1
        run.instance("R2", tc.where, f"signs {row}: masks {dict(zip(names, map(bool, vals)))}", ok2)
        if not ok2:
            run.violation("R2", tc.where, f"sign vector {row} is claimed by more than one case: {dict(zip(names, map(bool, vals)))}",
                          key=key_of("C11-R2", tuple(sorted(row))))
    # expected content per handler position, from the handler's own indexing
    for pos, hname in enumerate(handler_names):
        h = mp.nested[hname]
        need_zero, uses_unique = _zeros_required(h.node)
        selected = sorted({tuple(sorted(r)) for r, (vals, c) in results.items() if vals[pos]})
        if need_zero == 0:
            expect_ok = lambda p: 0 not in p and -1 in p and 1 in p  # noqa
            must_all = True  # every crossing triangle with no vertex on the plane must be cut
            desc = "no vertex on plane, both sides present"
        elif need_zero == 1:
            expect_ok = lambda p: p.count(0) == 1 and -1 in p and 1 in p  # noqa
            must_all = True
            desc = "exactly one vertex on plane, others on opposite sides"
        else:
            expect_ok = lambda p: p.count(0) == 2  # noqa
            must_all = False  # the code deliberately takes only one of the two on-edge patterns
            desc = "exactly two vertices on plane"
        all_pats = sorted(by_pattern)
        good = [p for p in all_pats if expect_ok(p)]
        bad_sel = [p for p in selected if not expect_ok(p)]
        missing = [p for p in good if p not in selected] if must_all else ([] if selected else good)
        ok3 = not bad_sel and not missing
        run.instance("R3", h.where, f"mask #{pos} `{names[pos]}` -> {hname} (assumes {desc}): selects {selected}", ok3)
        for p in bad_sel:
            run.violation("R3", h.where,
                          f"mask `{names[pos]}` sends sign pattern {p} to {hname}, whose indexing assumes {desc}",
                          key=key_of("C11-R3", hname, "wrong-pattern", p))
        for p in missing:
            run.violation("R3", h.where,
                          f"sign pattern {p} ({desc}) is not handled by any case: the section misses those triangles",
                          key=key_of("C11-R3", hname, "unhandled", p))
    # on-edge: at most one of the two coplanar-edge patterns (both would double the boundary of coplanar regions)
    pos_edge = [i for i, hn in enumerate(handler_names) if _zeros_required(mp.nested[hn].node)[0] == 2]
    if len(pos_edge) != 1:
        raise AnalysisError("cannot identify the on-edge handler from its indexing")
    sel_edge = sorted({tuple(sorted(r)) for r, (vals, c) in results.items() if vals[pos_edge[0]]})
    ok_e = len(sel_edge) == 1
    run.instance("R3", tc.where, f"on-edge case takes exactly one of the two coplanar-edge patterns: {sel_edge}", ok_e)
    if not ok_e:
        run.violation("R3", tc.where,
                      f"on-edge mask selects {sel_edge}: with both patterns an edge shared by triangles on opposite sides "
                      f"is emitted twice; with none it is never emitted",
                      key=key_of("C11-R3", "on-edge-count", len(sel_edge)))

    # R5 sign computation
    src = ast.unparse(mp.node)
    ok5 = ("signs[dots < -tol.merge] = -1" in src and "signs[dots > tol.merge] = 1" in src
           and "signs = np.zeros(len(mesh.vertices), dtype=np.int8)" in src)
    lo = hi = None
    for st in mp.node.body:
        if isinstance(st, ast.Assign) and isinstance(st.targets[0], ast.Subscript) and ast.unparse(st.targets[0].value) == "signs":
            cond = st.targets[0].slice
            if isinstance(cond, ast.Compare) and isinstance(st.value, (ast.Constant, ast.UnaryOp)):
                val = ast.literal_eval(ast.unparse(st.value))
                if val == -1:
                    lo = ast.unparse(cond)
                if val == 1:
                    hi = ast.unparse(cond)
    sym = lo is not None and hi is not None and lo.replace(" ", "") == "dots<-tol.merge" and hi.replace(" ", "") == "dots>tol.merge"
    run.instance("R5", mp.where, f"negative when `{lo}`, positive when `{hi}`, zero otherwise", sym)
    if not sym:
        run.violation("R5", mp.where, f"sign classification is not the symmetric three-way split on tol.merge (neg: {lo}; pos: {hi})",
                      key=key_of("C11-R5", "thresholds"))
    _slice_cases(run, ix, rows)
    _single_classifier(run, ix)
    _assembly(run, ix)
    run.extra["exhaustive"] = True
    return {
        "explanation": "Complete enumeration of the abstract domain {-1,0,1}^3 through a row-wise interpreter of "
        "triangle_cases' own AST: code injective and in range, masks disjoint, each mask selects exactly the "
        "patterns the zipped handler's indexing assumes (read from the handler body), one on-edge pattern only, "
        "symmetric sign thresholds. Decides the case analysis for all meshes and planes; does not decide segment "
        "positions, closedness, area/volume additivity or capping.",
    }


def _single_classifier(run, ix):
    """R9 / R10: the tolerance classification is the only place where faces are selected by plane distance"""
    from ..provenance import Prov, is_emptiness
    import re as _re
    run.rule("R9", "every result of mesh_plane / slice_faces_plane / slice_mesh_plane is computed after the sign classification; only an emptiness test may return before it")
    run.rule("R10", "no caller pre-selects faces by comparing plane distances without the classifier's tolerance (tol.merge)")
    n9 = 0
    for spec in ("trimesh.intersections:mesh_plane", "trimesh.intersections:slice_faces_plane"):
        f = ix.inlined(ix.func(spec))
        pv = Prov(ix, f)
        # the classification: the statements that compare the plane distances with the merge tolerance (by role; a
        # classifier that was moved into a private helper is looked at through the helper's statements)
        cls = [st for st in f.node.body if isinstance(st, ast.Assign) and isinstance(st.targets[0], ast.Name) and st.targets[0].id == "signs"]
        cls = cls or [st for st in f.node.body if isinstance(st, (ast.Assign, ast.AugAssign))
                      and any(isinstance(x, ast.Compare) and "tol.merge" in ast.unparse(x) for x in ast.walk(st))]
        if not cls:
            raise AnalysisError(f"anchor vanished: the sign classification (comparison with tol.merge) in {spec}")
        cn = [n for st in cls for n in pv.cfg.nodes_of.get(id(st), [])]
        for r in ast.walk(f.node):
            if not isinstance(r, ast.Return) or not pv.cfg.nodes_of.get(id(r)):
                continue
            n9 += 1
            rn = pv.cfg.nodes_of[id(r)][0]
            if any(pv.cfg.dominates(c, rn) for c in cn):
                run.instance("R9", f.where, f"{f.qualname}: return at line {r.lineno} is dominated by the sign classification", True)
                continue
            g = pv.guards(r)
            ok = any(is_emptiness(x) for x in g)
            run.instance("R9", f.where, f"{f.qualname}: return before the classification under {g}", ok)
            if not ok:
                run.violation("R9", f.where, f"`{f.qualname}` returns at line {r.lineno} under {g or ['no condition']} before the vertices are classified: faces lying in "
                                             f"the plane (kept or dropped by the coplanar rule) and faces touching it are decided by a shortcut instead",
                              key=key_of("C11-R9", f.qualname, (g or [''])[-1][:60]))
    run.floor("returns of the plane routines", n9, 5)
    # R10: arguments that restrict the face set
    targets = {"trimesh.intersections.mesh_plane": "local_faces", "trimesh.intersections.slice_faces_plane": "face_index",
               "trimesh.intersections.slice_mesh_plane": "face_index"}
    n10 = 0
    for f in ix.all_functions:
        calls = [c for c in ast.walk(f.node) if isinstance(c, ast.Call) and isinstance(c.func, (ast.Name, ast.Attribute))]
        hits = []
        for c in calls:
            r = ix.resolve_expr(f.module, c.func)
            nm = f"{r.module.name}.{r.qualname}" if hasattr(r, "qualname") else None
            if nm in targets:
                hits.append((c, nm))
        if not hits:
            continue
        pv = Prov(ix, f)
        for c, nm in hits:
            st = pv.stmt_of(c)
            if st is None or not pv.cfg.nodes_of.get(id(st)):
                continue
            n10 += 1
            kwv = ix.call_args(c, nm).get(targets[nm])
            kw = ast.keyword(arg=targets[nm], value=kwv) if kwv is not None else None
            if kw is None:
                run.instance("R10", f.where, f"{f.qualname} -> {nm.split('.')[-1]}: every face is classified", True)
                continue
            txt = pv.canon(kw.value, st)
            sel = "numpy.dot(" in txt or "dots" in txt
            cmp_ = _re.search(r"(<=|>=|<|>)", txt) is not None
            ok = not (sel and cmp_ and "tol.merge" not in txt and "trimesh.constants.tol.merge" not in txt)
            run.instance("R10", f.where, f"{f.qualname} -> {nm.split('.')[-1]}({targets[nm]}=`{txt[:70]}`)", ok)
            if not ok:
                run.violation("R10", f.where, f"`{f.qualname}` hands {nm.split('.')[-1]} a face subset chosen by exact comparison of plane distances (`{txt[:110]}`): "
                                              f"the classifier treats |d| <= tol.merge as on the plane, so faces it would use are culled and the section has gaps",
                              key=key_of("C11-R10", f.qualname, nm))
    run.floor("in-repo calls of the plane routines", n10, 4)


def _assembly(run, ix):
    """R11 / R12: nothing is lost between the classified faces / segments and what is returned"""
    from ..provenance import Prov

    run.rule("R11", "slice_mesh_plane (cap): once the vertices are re-indexed by unique_rows the faces are re-indexed too on every path; "
                    "an exit in between is allowed only when that index is too short for any face (len(unique) < 3)")
    f = ix.func("trimesh.intersections:slice_mesh_plane")
    pv = Prov(ix, f)
    reidx = [st for st in ast.walk(f.node) if isinstance(st, ast.Assign) and ast.unparse(st.targets[0]) == "vertices" and isinstance(st.value, ast.Subscript)
             and ast.unparse(st.value.value) == "vertices" and isinstance(st.value.slice, ast.Name)]
    if not reidx:
        raise AnalysisError("anchor vanished: `vertices = vertices[unique]` in slice_mesh_plane")
    cfg = pv.cfg
    for st in reidx:
        uname = st.value.slice.id
        start = cfg.nodes_of.get(id(st), [None])[0]
        # the matching face re-index: an assignment of `faces` downstream of the vertex re-index
        face_nodes = [n for n, s_ in cfg.stmt.items() if isinstance(s_, ast.Assign) and ast.unparse(s_.targets[0]) == "faces" and start is not None
                      and cfg.reachable_without(start, n, set())]
        all_exits = [n for n, s_ in cfg.stmt.items() if isinstance(s_, (ast.Continue, ast.Return, ast.Break))]
        # the first exit on a path is the one that matters: later ones are blocked by it
        exits = [n for n in all_exits if start is not None and cfg.reachable_without(start, n, set(face_nodes) | (set(all_exits) - {n}))]
        bad = []
        for n in exits:
            g = pv.guards(cfg.stmt[n], stop=(uname,))
            allowed = any(x in (f"len(L_{uname}) < 3", f"len(L_{uname}) == 0", f"len(L_{uname}) < 1") for x in g)
            if not allowed:
                bad.append((cfg.stmt[n].lineno, g[-1] if g else ""))
        ok = bool(face_nodes) and not bad
        run.instance("R11", f.where, f"vertices re-indexed by `{uname}` (line {st.lineno}): {len(face_nodes)} face re-index site(s) downstream, exits in between: {bad or 'only under len(' + uname + ') < 3'}", ok)
        if not ok:
            run.violation("R11", f.where, f"slice_mesh_plane leaves the cap branch at line {bad[0][0] if bad else '?'} (guard `{bad[0][1][:60] if bad else ''}`) after `vertices = vertices[{uname}]` but before "
                                          f"the faces are re-indexed: the returned faces index the old vertex order", key=key_of("C11-R11", "cap-reindex"))
    # ------------------------------------------------------------------ R13 one normal for the whole multi-plane section
    run.rule("R13", "mesh_multiplane: the plane handed to mesh_plane for each height - its normal, its origin offset along the normal, and the cached signed distances - "
                    "are all built from ONE normal (the unitized one): an origin offset along the caller's raw normal puts the plane somewhere else than the distances say")
    from ..dag import Values
    mm_ = ix.func("trimesh.intersections:mesh_multiplane")
    Vm = Values(ix, mm_)
    n13 = 0
    for c in ast.walk(mm_.node):
        if isinstance(c, ast.Call) and Vm.pv.callee(c.func) == "trimesh.intersections.mesh_plane":
            st_ = Vm.pv.stmt_of(c)
            kw = {k_: Vm.value(v_, st_) for k_, v_ in ix.call_args(c, "trimesh.intersections.mesh_plane").items()}
            if not {"plane_normal", "plane_origin"} <= set(kw):
                continue
            n13 += 1
            nn = kw["plane_normal"]
            un = Vm.match("trimesh.util.unitize(vectors=_e_RAW)", nn)
            run.instance("R13", mm_.where, "the normal handed to mesh_plane is a unit vector (util.unitize)", un is not None)
            if un is None:
                run.violation("R13", mm_.where, f"mesh_multiplane hands `{Vm.text(nn, 2, 60)}` to mesh_plane as the plane normal: not unitized, so `heights` are not distances along it",
                              key=key_of("C11-R13", "unit"))
                continue
            raw, unit = un["_e_RAW"], Vm.dag._ident(nn)
            # every product / outer product inside the origin that involves a normal uses the unit one
            bad = []
            for tpl in ("_e_a * _e_b", "numpy.outer(_e_a, _e_b)"):
                for env, _ in Vm.dag.find(tpl, kw["plane_origin"]):
                    for side in ("_e_a", "_e_b"):
                        if env[side] == raw:
                            bad.append(Vm.text(env[side], 1, 40))
            srcs = [("origin", kw["plane_origin"])] + ([("cached distances", kw["cached_dots"])] if "cached_dots" in kw else [])
            for label, node_ in srcs[1:]:
                for env, _ in Vm.dag.find("numpy.dot(_e_a, _e_b)", node_):
                    if env["_e_a"] == raw:
                        bad.append(label + ": " + Vm.text(env["_e_a"], 1, 40))
            ok = not bad
            run.instance("R13", mm_.where, f"origin offsets and cached distances use the unit normal `{Vm.text(unit, 1, 50)}` (raw uses: {bad or 'none'})", ok)
            if not ok:
                run.violation("R13", mm_.where, f"mesh_multiplane offsets the plane origin (or measures the cached distances) along the caller's RAW normal `{bad[0]}` while mesh_plane gets the unitized one: "
                                                f"for a non-unit normal the section is computed on a plane the classified faces do not straddle", key=key_of("C11-R13", "raw-normal"))
    if n13 == 0:
        run.instance("R13", mm_.where, "mesh_plane call of mesh_multiplane not in a recognised form - NOT decided", True, nontrivial=False)
        run.assume("mesh_multiplane: the per-height mesh_plane call is not in a recognised form")
    run.rule("R12", "lines_to_path hands every segment to edges_to_path: the edges are the merged vertex indices of all segments, not a filtered subset")
    lp = ix.func("trimesh.path.exchange.misc:lines_to_path")
    pl = Prov(ix, lp)
    calls = [c for c in ast.walk(lp.node) if isinstance(c, ast.Call) and pl.callee(c.func) == "trimesh.path.exchange.misc.edges_to_path"]
    if not calls:
        raise AnalysisError("anchor vanished: edges_to_path call in lines_to_path")
    for c in calls:
        st = pl.stmt_of(c)
        _, args, kw = pl.canon_call(c, st)
        e = kw.get("edges", args[0] if args else "")
        ok = re.fullmatch(r"trimesh\.grouping\.unique_rows\(P_lines\.reshape\(\(-1, P_lines\.shape\[-1\]\)\), (?:digits=)?[\w.]+\)\[1\]\.reshape\(\(-1, 2\)\)", e) is not None
        filt = "require_count" in e or "group_rows" in e
        run.instance("R12", lp.where, f"edges handed to edges_to_path: `{e[:110]}`", ok)
        if not ok:
            if filt:
                run.violation("R12", lp.where, f"lines_to_path filters the segments before building the path (`{e[:120]}`): a segment that occurs twice (coincident faces) is dropped "
                                               f"entirely, so the section no longer covers the whole intersection", key=key_of("C11-R12", "filtered"))
            else:
                run.instance("R12", lp.where, "edges not in the recognised form - NOT decided", True, nontrivial=False)
                run.assume(f"lines_to_path edges have an unrecognised form `{e[:80]}`")


def _slice_cases(run, ix, rows):
    """slice_faces_plane: inside / onedge classification and the quad / triangle split"""
    f = ix.inlined(ix.func("trimesh.intersections:slice_faces_plane"))
    run.rule("R6", "slice: every sign vector is exactly one of inside / cut (onedge) / outside / coplanar, and cut == both sides present")
    run.rule("R7", "slice: rows sent to the quad branch have exactly one outside vertex, rows sent to the triangle branch exactly one inside vertex")
    run.rule("R8", "slice: sign convention (inside = positive side of the normal) and symmetric thresholds")
    # roles, not names.  The sign array is whatever receives the constant +-1 under a comparison with tol.merge; the
    # branch masks are whatever selects the rows of that array handed to `np.where(X == v)[1]`; the kept-whole mask is the
    # other boolean selection of `faces`.
    body = f.node.body
    thr = []
    for st in body:
        if isinstance(st, ast.Assign) and isinstance(st.targets[0], ast.Subscript) and isinstance(st.targets[0].value, ast.Name) \
                and isinstance(st.targets[0].slice, ast.Compare) and "tol.merge" in ast.unparse(st.targets[0].slice):
            try:
                val = ast.literal_eval(ast.unparse(st.value))
            except Exception:
                continue
            thr.append((st.targets[0].value.id, st.targets[0].slice, val))
    sname = thr[0][0] if thr else None
    inside_val = outside_val = None
    for n_, cmp_, val in thr:
        if n_ != sname or len(cmp_.ops) != 1:
            continue
        l_, r_ = ast.unparse(cmp_.left).replace(" ", ""), ast.unparse(cmp_.comparators[0]).replace(" ", "")
        op = type(cmp_.ops[0])
        # X > tol.merge  /  tol.merge < X   : positive side;   X < -tol.merge / -tol.merge > X : negative side
        if (op is ast.Gt and r_ == "tol.merge") or (op is ast.Lt and l_ == "tol.merge"):
            inside_val = val
        if (op is ast.Lt and r_ == "-tol.merge") or (op is ast.Gt and l_ == "-tol.merge"):
            outside_val = val
    if not thr:
        run.instance("R8", f.where, "slice_faces_plane: no store of a constant sign under a comparison with tol.merge found - NOT decided", True, nontrivial=False)
        run.assume("slice_faces_plane: sign classification not in a recognised form (R6-R8 not decided)")
        return
    ok8 = inside_val in (-1, 1) and outside_val is not None and outside_val == -inside_val and len(thr) == 2
    run.instance("R8", f.where, f"positive side -> {inside_val}, negative side -> {outside_val}", ok8)
    if not ok8:
        run.violation("R8", f.where, "slice_faces_plane: sign assignment is not the symmetric three-way split on tol.merge",
                      key=key_of("C11-R8", "thresholds"))
        return
    iv, ov = inside_val, -inside_val
    # per-row definitions, in order, as expressions (top-level assignments after the sign array became per-face)
    defs = {}
    started = False
    for st in body:
        if isinstance(st, ast.Assign) and isinstance(st.targets[0], ast.Name):
            if st.targets[0].id == sname and isinstance(st.value, ast.Subscript) and ast.unparse(st.value.value) == sname:
                started = True
                continue
            if started and st.targets[0].id not in defs:
                defs[st.targets[0].id] = st.value
    if not started:
        raise AnalysisError(f"anchor vanished in slice_faces_plane: `{sname} = {sname}[faces]`")
    # where-sites anywhere in the function: np.where(X == v)[1]
    sites = []
    for n_ in ast.walk(f.node):
        if isinstance(n_, ast.Subscript) and isinstance(n_.value, ast.Call) and ast.unparse(n_.value.func) in ("np.where", "numpy.where", "np.nonzero") \
                and ast.unparse(n_.slice) == "1" and len(n_.value.args) == 1 and isinstance(n_.value.args[0], ast.Compare):
            c = n_.value.args[0]
            if isinstance(c.left, ast.Name) and len(c.ops) == 1 and isinstance(c.ops[0], ast.Eq):
                try:
                    v_ = ast.literal_eval(ast.unparse(c.comparators[0]))
                except Exception:
                    continue
                x = defs.get(c.left.id)
                if isinstance(x, ast.Subscript) and ast.unparse(x.value) == sname:
                    sites.append((c.left.id, v_, x.slice))
    if len(sites) < 2:
        raise AnalysisError("anchor vanished: the two `np.where(<selected signs> == v)[1]` vertex locators of slice_faces_plane")
    # selections of `faces`: the one whose result is later grown by np.append is the set of faces kept whole; every other
    # one accompanies a branch and must select the same rows as that branch's sign selection
    sels = [(st.targets[0].id, st.value.slice) for st in body if isinstance(st, ast.Assign) and isinstance(st.targets[0], ast.Name)
            and isinstance(st.value, ast.Subscript) and ast.unparse(st.value.value) == "faces" and not isinstance(st.value.slice, (ast.Slice, ast.Constant))]
    grown = {st.targets[0].id for st in ast.walk(f.node) if isinstance(st, ast.Assign) and isinstance(st.targets[0], ast.Name)
             and isinstance(st.value, ast.Call) and ast.unparse(st.value.func) in ("np.append", "np.vstack", "np.concatenate")
             and st.targets[0].id in {x.id for x in ast.walk(st.value) if isinstance(x, ast.Name)}}
    whole = [m for n_, m in sels if n_ in grown]
    companions = [(n_, m) for n_, m in sels if n_ not in grown]
    if len(whole) != 1:
        raise AnalysisError(f"anchor vanished: the selection of faces kept whole in slice_faces_plane ({[ast.unparse(w) for w in whole]})")

    def row_env(row):
        it = RowInterp(sname, row)
        for n_, e_ in defs.items():
            try:
                it.env[n_] = it.ev(e_)
            except (AnalysisError, IndexError, TypeError, KeyError):
                pass
        return it

    n6 = n7 = 0
    # faces and signs of a branch are selected by the same rows
    for cn, cm in companions:
        try:
            same = [i for i, (_, _, m) in enumerate(sites) if all(bool(row_env(r).ev(cm)) == bool(row_env(r).ev(m)) for r in rows)]
        except AnalysisError:
            continue
        ok7 = bool(same)
        run.instance("R7", f.where, f"`{cn} = faces[{ast.unparse(cm)[:50]}]` selects the rows of a branch's sign selection", ok7)
        if not ok7:
            run.violation("R7", f.where, f"`{cn} = faces[{ast.unparse(cm)[:60]}]` selects different rows than every branch's sign selection: "
                                         f"the vertex located in the signs of one face is looked up in another face",
                          key=key_of("C11-R7", "faces-signs-selection"))
    for row in rows:
        it = row_env(row)
        try:
            masks = [bool(it.ev(m)) for _, _, m in sites]
            inside = bool(it.ev(whole[0]))
        except AnalysisError as e:
            raise AnalysisError(f"slice_faces_plane: cannot evaluate a selection mask row-wise ({e})")
        onedge = any(masks)
        has_in, has_out = iv in row, ov in row
        coplanar = all(x == 0 for x in row)
        exp_cut = has_in and has_out
        exp_inside = (not has_out) and not coplanar  # coplanar faces are decided by their normal afterwards
        ok6 = (onedge == exp_cut) and (coplanar or inside == exp_inside) and not (onedge and inside)
        n6 += 1
        run.instance("R6", f.where, f"signs {row}: onedge={onedge} inside={inside}", ok6)
        if not ok6:
            run.violation("R6", f.where,
                          f"slice_faces_plane misclassifies sign vector {tuple(sorted(row))}: onedge={onedge}, inside={inside}; "
                          f"expected cut={exp_cut}, inside={exp_inside}",
                          key=key_of("C11-R6", tuple(sorted(row))))
        if onedge:
            ok7 = sum(masks) == 1
            which = [(x, v_) for (x, v_, _), m in zip(sites, masks) if m]
            for x, v_ in which:
                cnt = sum(1 for y in row if y == v_)
                ok7 = ok7 and cnt == 1
                # a branch that locates the lone OUTSIDE vertex builds a quad from the two inside ones
                if v_ == ov:
                    ok7 = ok7 and sum(1 for y in row if y == iv) == 2
                elif v_ != iv:
                    ok7 = False
            n7 += 1
            run.instance("R7", f.where, f"signs {row}: branches {which}", ok7)
            if not ok7:
                run.violation("R7", f.where,
                              f"cut sign vector {tuple(sorted(row))} goes to branch(es) {which or 'none'}, whose `np.where(. == v)[1]` must find exactly one vertex of the row "
                              f"(and the two inside vertices for the quad branch)",
                              key=key_of("C11-R7", tuple(sorted(row))))
    from ..passthrough import pass_through_rule
    pass_through_rule(run, ix, "R15", "C11", "trimesh.path.polygons:edges_to_polygons", "enclosure_tree",
                      "edges_to_polygons (cap / outline polygons): every result with more than one ring is assembled from the containment tree (enclosure_tree); only the "
                      "empty / single-ring case may return before it",
                      "which ring is a shell and which rings are ITS holes is a parity question (a body inside a cavity is a shell again); a shortcut that asks only `contained by "
                      "something` makes islands inside holes into holes, so caps of nested solids get the wrong area")
    from ..interiorpt import hole_seed_rule
    hole_seed_rule(run, ix, "R14", "C11")
    run.floor("slice sign vectors", n6, 27)
    run.floor("slice cut vectors", n7, 6)
