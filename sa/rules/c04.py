"""C04 - homogeneous transforms act covariantly (narrow).

Decides: (R1) the only randomness reachable from any apply_transform / apply_translation /
apply_scale / transform_points is `transformations.flips_winding`, and (R1b) its decision is a
function of the matrix alone: (M n).(M e1 x M e2) == det(M) |n|^2 as a polynomial identity,
so every sampled triangle gives sign(det M); (R2) translation / scale of every geometry kind
funnel through that kind's apply_transform; (R3) Scene.apply_transform never writes geometry;
(R4) Trimesh.apply_transform writes vertices, faces, centre of mass and nothing else, vertices
through the full matrix, faces re-wound exactly under the winding test; (R5) point-like kinds
map their points through transform_points with the same matrix; (R6) memo entries carried across
a transform are invariant or transported per the reviewed tables (shared with C01 / C14).
"""
from __future__ import annotations

import ast
import re

import numpy as np
import sympy as sp

from ..alg import Frame, Interp, Namespace, PyHook, Unsupported, _Return, arr, symbols_array, tolerant_block
from ..effects import Effects
from ..index import Index
from ..preserve import check_surgery
from ..provenance import Prov, stores_to
from ..report import AnalysisError, key_of

LEVEL = "other"

RANDOM_OK = {"trimesh.transformations:flips_winding": "decision proven independent of the sample (R1b)"}


def check(run):
    ix = Index(run.repo)
    ef = Effects(ix)
    run.analysed.update(ix.stats())
    run.rule("R1", "no randomness on the transform path except flips_winding")
    run.rule("R1b", "flips_winding: (M n).(M e1 x M e2) == det(M) |n|^2, so its sign test equals sign(det M) for every sampled triangle (polynomial identity)")
    run.rule("R2", "apply_translation / apply_scale of every geometry kind end in that kind's apply_transform and write nothing themselves")
    run.rule("R3", "Scene.apply_transform writes graph edges out of the base frame only, never geometry")
    run.rule("R4", "Trimesh.apply_transform writes vertices / faces / center_mass only; vertices = transform_points(vertices, matrix); faces re-wound exactly under `has_rotation and flips_winding(matrix)`")
    run.rule("R5", "PointCloud / Path / Primitive / VoxelGrid apply_transform map their own state through the same matrix")
    run.rule("R7", "transform_points(p, M) == M.p (+ t) as a polynomial identity in 2D and 3D, with and without translation; its shortcut returns p and tests the whole matrix at <= 1e-8")
    run.rule("R8", "apply_translation / apply_scale build exactly [I | t] and diag(s, 1) (symbolic evaluation of the matrix handed to apply_transform)")
    run.rule("R9", "util.allclose (used by every identity / rotation shortcut) is a max-norm test of the difference")
    run.rule("R6", "memo entries carried across a transform are affine / rigid invariant or transported (reviewed tables of C01 and C14)")

    G = ix.cls("trimesh.parent.Geometry")
    kinds = [c for c in [G] + ix.all_subclasses(G)]
    concrete = [c for c in kinds if c.name in ("Trimesh", "PointCloud", "Path", "Path2D", "Path3D", "Scene", "VoxelGrid", "Primitive", "Box",
                                               "Sphere", "Cylinder", "Capsule", "Extrusion")]
    run.floor("geometry classes", len(concrete), 10)

    # ------------------------------------------------------------------ R1 randomness
    n_at = 0
    entry = []
    for c in concrete:
        for name in ("apply_transform", "apply_translation", "apply_scale"):
            m = ix.member(c, name).get("method")
            if m is not None:
                entry.append((m, c))
    entry.append((ix.func("trimesh.transformations:transform_points"), None))
    seen = set()
    for m, c in entry:
        if (m, c) in seen:
            continue
        seen.add((m, c))
        n_at += 1
        s = ef.summary(m, c)
        if "RANDOM" in s.effects:
            # locate the random sources reachable: every function summary with a direct RANDOM site
            sources = set()
            for (fi, sc, pt), sm in ef.summaries.items():
                if "RANDOM" in sm.effects:
                    site = sm.effect_sites.get("RANDOM", ("?", "?"))
                    if site[0].endswith(fi.qualname):
                        sources.add(f"{fi.module.name}:{fi.qualname}")
            bad = sorted(x for x in sources if x not in RANDOM_OK)
            ok = not bad
            run.instance("R1", m.where, f"{c.name + '.' if c else ''}{m.name}: random sources reachable: {sorted(sources)}", ok)
            if not ok:
                run.violation("R1", m.where, f"`{m.qualname}` can reach a random draw in {bad}: the transformed geometry is then not a function of the matrix",
                              key=key_of("C04-R1", m.qualname, c.name if c else "", bad[0]))
        else:
            run.instance("R1", m.where, f"{c.name + '.' if c else ''}{m.name}: no randomness reachable", True)
    run.floor("transform entry points", n_at, 10)

    # ------------------------------------------------------------------ R1b flips_winding identity
    fw = ix.func("trimesh.transformations:flips_winding")
    M = symbols_array("m", (4, 4))
    it = Interp(ix)
    it.decider = lambda frame, test: False if frame.fi.name == "flips_winding" else None
    it.trace = {}
    try:
        it.call(fw, [M])
    except Unsupported as e:
        raise AnalysisError(f"E3 cannot translate flips_winding: {e}")
    tr = it.trace

    def last(name, n=-1):
        v = tr.get(("flips_winding", name))
        if not v:
            raise AnalysisError(f"anchor vanished: `{name}` in flips_winding")
        return v[n]

    tri = arr(last("tri", 0))
    proj = arr(last("projection"))
    norm = arr(last("norm"))
    count = int(last("count"))
    if tri.shape != (3 * count, 3) or proj.shape != (count,) or norm.shape != (2 * count, 1):
        raise AnalysisError(f"flips_winding: unexpected shapes tri {tri.shape} projection {proj.shape} norm {norm.shape}")
    M3 = sp.Matrix(M[:3, :3].tolist())
    det = M3.det()
    for i in range(count):
        p0, p1, p2 = (sp.Matrix(tri[3 * i + j].tolist()) for j in range(3))
        n = (p1 - p0).cross(p2 - p1)
        # the code divides by the two norms (positive wherever defined): multiply them back, what is left must be det * |n|^2
        lhs = sp.expand(sp.simplify(proj[i] * norm[i, 0] * norm[count + i, 0]))
        rhs = sp.expand(det * (n.T * n)[0])
        ok = sp.expand(lhs - rhs) == 0
        run.obligation("R1b", fw.where, f"sampled triangle {i}: projection * |Mn| * |Me1 x Me2| - det(M) |n|^2 == 0 for symbolic sample and matrix", ok)
        if not ok:
            run.violation("R1b", fw.where, "flips_winding's projection is not det(M)|n|^2 / (positive norms): its answer can depend on the random "
                                           "sample, so whether faces are re-wound is not a function of the matrix", key=key_of("C04-R1b", "identity"))
            break
    t = ast.unparse(fw.node)
    ok = "flip = projection.mean() < 0.0" in t and "return flip" in t
    run.obligation("R1b", fw.where, "decision = mean projection < 0", ok)
    if not ok:
        run.violation("R1b", fw.where, "flips_winding no longer decides by the sign of the projection", key=key_of("C04-R1b", "decision"))

    # ------------------------------------------------------------------ R2 funnels
    for c in concrete:
        for name in ("apply_translation", "apply_scale"):
            m = ix.member(c, name).get("method")
            if m is None:
                continue
            rets = [r.value for r in ast.walk(m.node) if isinstance(r, ast.Return) and r.value is not None]
            calls = [r for r in rets if isinstance(r, ast.Call) and ast.unparse(r.func) == "self.apply_transform"]
            direct_stores = [st for st in ast.walk(m.node) if isinstance(st, (ast.Assign, ast.AugAssign)) and any(
                isinstance(x, (ast.Attribute, ast.Subscript)) and ast.unparse(x).startswith("self.") for x in
                (st.targets if isinstance(st, ast.Assign) else [st.target]))]
            ok = bool(rets) and len(calls) == len(rets) and not direct_stores
            key = (m.module.name, m.qualname)
            run.instance("R2", m.where, f"{c.name}.{name} -> {m.qualname}: every return is self.apply_transform(matrix), no direct store", ok)
            if not ok:
                run.violation("R2", m.where, f"`{m.qualname}` (used by {c.name}) changes the geometry without going through apply_transform "
                                             f"(returns {[ast.unparse(r)[:40] for r in rets]}, direct stores {len(direct_stores)})",
                              key=key_of("C04-R2", m.qualname))

    # ------------------------------------------------------------------ R3 scene
    S = ix.cls("trimesh.scene.scene.Scene")
    sa = S.methods["apply_transform"]
    s = ef.summary(sa, S)
    bad = [(".".join(p), k) for (r, p, k) in s.writes if r == sa.params[0] and k != "memo" and p and p[0] == "geometry"]
    ok = not bad
    run.instance("R3", sa.where, "Scene.apply_transform has no write path into self.geometry", ok)
    if not ok:
        run.violation("R3", sa.where, f"Scene.apply_transform writes geometry ({bad[:3]}): instanced geometry would be moved for every node",
                      key=key_of("C04-R3", "geometry"))
    pv = Prov(ix, sa)
    tparam = f"P_{sa.params[1]}"
    each = "EACH(P_self.graph.transforms.children[P_self.graph.base_frame])"
    ups = []
    for st in ast.walk(sa.node):
        if isinstance(st, ast.Expr) and isinstance(st.value, ast.Call) and isinstance(st.value.func, ast.Attribute) and st.value.func.attr == "update" \
                and pv.canon(st.value.func.value, st) == "P_self.graph":
            c, args, kw = pv.canon_call(st.value, st)
            # positional arguments take the names SceneGraph.update gives them
            upd = ix.cls("trimesh.scene.transforms.SceneGraph").methods.get("update")
            names = upd.params[1:] if upd is not None else []
            for i_, a_ in enumerate(args):
                if i_ < len(names):
                    kw.setdefault(names[i_], a_)
            ups.append((st, args, kw))
    ok = len(ups) == 1
    if ok:
        st, args, kw = ups[0]
        ok = kw.get("frame_from") == "P_self.graph.base_frame" and kw.get("frame_to") == each \
            and kw.get("matrix") in (f"numpy.dot({tparam}, P_self.graph[{each}][0])", f"numpy.matmul({tparam}, P_self.graph[{each}][0])",
                                      f"{tparam} @ P_self.graph[{each}][0]")
    run.instance("R3", sa.where, "every edge out of the base frame is replaced by transform . edge (left multiplication), for each child of the base frame", ok)
    if not ok:
        run.violation("R3", sa.where, f"Scene.apply_transform does not left-multiply every edge out of the base frame by the transform "
                                      f"(graph.update calls: {[(a_, k_) for _, a_, k_ in ups][:2]})", key=key_of("C04-R3", "edges"))

    # ------------------------------------------------------------------ R4 / R5 point-like kinds
    T = ix.cls("trimesh.base.Trimesh")
    ta = T.methods["apply_transform"]
    s = ef.summary(ta, T)
    bad = sorted({".".join(p) for (r, p, k) in s.writes if r == ta.params[0] and k != "memo" and "_cache" not in p
                  and p[:2] not in (("_data", "[vertices]"), ("_data", "[faces]"), ("_data", "[center_mass]"))})
    ok = not bad
    run.instance("R4", ta.where, f"writes only vertices / faces / center_mass ({bad})", ok)
    if not ok:
        run.violation("R4", ta.where, f"Trimesh.apply_transform also writes {bad[:4]}: a transform must change nothing but positions (and winding)",
                      key=key_of("C04-R4", "writes"))

    def identity_guard(text, mparam):
        """canonical test text -> (what is compared, tolerance) when it is a closeness test of `what` against an identity matrix"""
        try:
            e = ast.parse(text, mode="eval").body
        except SyntaxError:
            return None
        # util.allclose(X, IDENT, tol)
        if isinstance(e, ast.Call) and ast.unparse(e.func) == "trimesh.util.allclose" and len(e.args) >= 2:
            tol = e.args[2] if len(e.args) > 2 else next((k.value for k in e.keywords if k.arg == "atol"), ast.Constant(1e-8))
            ident = ast.unparse(e.args[1])
            if not (ident.startswith("_IDENTITY") or ident.startswith("numpy.eye(")):
                return None
            return ast.unparse(e.args[0]), tol.value if isinstance(tol, ast.Constant) else None
        # np.abs(X - np.eye(n)).max() < tol
        if isinstance(e, ast.Compare) and len(e.ops) == 1 and isinstance(e.ops[0], (ast.Lt, ast.LtE)) and isinstance(e.comparators[0], ast.Constant):
            l = e.left
            if isinstance(l, ast.Call) and isinstance(l.func, ast.Attribute) and l.func.attr == "max" and isinstance(l.func.value, ast.Call) \
                    and ast.unparse(l.func.value.func) in ("numpy.abs", "numpy.absolute") and isinstance(l.func.value.args[0], ast.BinOp) \
                    and isinstance(l.func.value.args[0].op, ast.Sub) and ast.unparse(l.func.value.args[0].right).startswith("numpy.eye("):
                return ast.unparse(l.func.value.args[0].left), e.comparators[0].value
        return None

    def enclosing_tests(f, stmt):
        """tests of every If that encloses stmt (as (test, positive?))"""
        out = []

        def rec(body, acc):
            for st in body:
                if st is stmt:
                    out.extend(acc)
                    return True
                if isinstance(st, ast.If):
                    if rec(st.body, acc + [(st, True)]) or rec(st.orelse, acc + [(st, False)]):
                        return True
                else:
                    for fld in ("body", "orelse", "finalbody"):
                        if rec(getattr(st, fld, []) or [], acc):
                            return True
                    for h in getattr(st, "handlers", []):
                        if rec(h.body, acc):
                            return True
            return False

        rec(f.node.body, [])
        return out

    def pointlike(f, rule, kind, mname, attr="self.vertices"):
        """every assignment of the points is transform_points(points, M); every exit without it is under a whole-matrix identity test <= 1e-8"""
        pv = Prov(ix, f)
        mp = f"P_{mname}"
        stores = stores_to(f.node, attr)
        if not stores:
            raise AnalysisError(f"anchor vanished: no store to {attr} in {f.qualname}")
        for st, val in stores:
            ok = False
            txt = pv.canon(val, st) if isinstance(val, ast.expr) else ast.unparse(val)
            val_i = pv.inline(val, st) if isinstance(val, ast.expr) else None
            if isinstance(val_i, ast.Call):
                c, args, kw = pv.canon_call(val_i, st)
                pts = args[0] if args else kw.get("points")
                mat = args[1] if len(args) > 1 else kw.get("matrix")
                tr = args[2] if len(args) > 2 else kw.get("translate", "True")
                ok = c == "trimesh.transformations.transform_points" and pts == "P_self." + attr.split(".", 1)[1] and mat == mp and tr == "True"
            run.instance(rule, f.where, f"{kind}: {attr} <- {txt[:110]}", ok)
            if not ok:
                run.violation(rule, f.where, f"{kind}.apply_transform assigns `{txt[:120]}` to {attr}: not transform_points({attr}, {mname}) with translation",
                              key=key_of(f"C04-{rule}", kind, "points"))
        store_nodes = [n for st, _ in stores for n in pv.cfg.nodes_of.get(id(st), [])]
        n_ret = 0
        for r in ast.walk(f.node):
            if not isinstance(r, ast.Return):
                continue
            n_ret += 1
            rn = pv.cfg.nodes_of.get(id(r), [None])[0]
            if rn is None or any(pv.cfg.dominates(sn, rn) for sn in store_nodes):
                continue
            guards = [identity_guard(pv.canon(i.test, i), mp) for (i, pos) in enclosing_tests(f, r) if pos]
            g = next((g for g in guards if g is not None), None)
            ok = g is not None and g[0] == mp and g[1] is not None and g[1] <= 1e-8
            run.instance(rule, f.where, f"{kind}: early `return` (line {r.lineno}) only under a whole-matrix identity test with tolerance <= 1e-8 ({g})", ok)
            if not ok:
                run.violation(rule, f.where, f"{kind}.apply_transform returns without moving the points at line {r.lineno} under guard {g}: only a test of the whole "
                                             f"matrix against the identity (<= 1e-8) may skip the transform", key=key_of(f"C04-{rule}", kind, "shortcut"))
        return pv

    pv = pointlike(ta, "R4", "Trimesh", ta.params[1])
    mp = f"P_{ta.params[1]}"
    # faces: re-wound under exactly {linear part is not the identity, flips_winding(M)}
    fstores = stores_to(ta.node, "self.faces")
    if len(fstores) != 1:
        # no direct store: is the re-winding delegated to a method that does more than reverse the columns?
        flip_ifs = [i for i in ast.walk(ta.node) if isinstance(i, ast.If) and "flips_winding" in ast.unparse(i.test)]
        delegated = [c for i in flip_ifs for b in i.body for c in ast.walk(b) if isinstance(c, ast.Call) and isinstance(c.func, ast.Attribute)
                     and isinstance(c.func.value, ast.Name) and c.func.value.id == ta.params[0] and ix.member(T, c.func.attr).get("method") is not None]
        for c in delegated:
            sm = ef.summary(ix.member(T, c.func.attr)["method"], T)
            memo = sorted({p[-1] for (r, p, k) in sm.writes if r == sm and False} | {".".join(p) for (r, p, k) in sm.writes if k == "memo" and any("normals" in x for x in p)})
            run.instance("R4", ta.where, f"re-winding delegated to `{ast.unparse(c)}` which also stores {memo}", False)
            run.violation("R4", ta.where, f"Trimesh.apply_transform re-winds through `{ast.unparse(c)}`, which also rewrites cached normals ({memo[:2]}): apply_transform has already "
                                          f"carried those normals through the matrix, so they are negated a second time and point inward for mirror transforms",
                          key=key_of("C04-R4", "flip-delegated", c.func.attr))
        if delegated:
            run.assume("the remaining R4 sub-rules about the face store are skipped: the store is delegated (reported above)")
            fstores = []
        else:
            raise AnalysisError(f"expected exactly one store to self.faces in Trimesh.apply_transform, found {len(fstores)}")
    direct_store = bool(fstores)
    if direct_store:
        fst, fval = fstores[0]
        ftxt = pv.canon(fval, fst)
        ok = ftxt in ("numpy.fliplr(P_self.faces)", "P_self.faces[:, ::-1]", "numpy.flip(P_self.faces, axis=1)", "numpy.flip(P_self.faces, 1)")
        run.instance("R4", ta.where, f"re-winding = column reversal of every face ({ftxt})", ok)
        if not ok:
            run.violation("R4", ta.where, f"the re-winding store `{ftxt}` is not a column reversal of all faces", key=key_of("C04-R4", "fliplr"))
        # the conditions under which the store runs, as normalised (atom, polarity) pairs: `not`, double negation, and / or
        # and the branch taken are all folded into the polarity (sa/pathsum.py), so `if A and B: flip` and
        # `if not (A and B): ... else: flip` read the same
        from ..pathsum import _atoms
        conj = []
        for (i, pos) in enclosing_tests(ta, fst):
            conj += _atoms(i.test, pos, lambda e_, origin=None, _i=i: pv.canon(e_, _i))
        kinds_ = []
        for txt, pos in conj:
            while txt.startswith("not "):  # a negation that came in with an inlined local (`has_rotation = not allclose(...)`)
                txt, pos = txt[4:].strip(), not pos
                if txt.startswith("(") and txt.endswith(")"):
                    txt = txt[1:-1]
            if pos and txt == f"trimesh.transformations.flips_winding({mp})":
                kinds_.append("flips")
                continue
            if not pos:
                g = identity_guard(txt, mp)
                if g is not None and g[0] == f"{mp}[:3, :3]" and g[1] is not None and g[1] <= 1e-6:
                    kinds_.append("linear-part-not-identity")
                    continue
            kinds_.append(f"OTHER:{'' if pos else 'not '}{txt[:80]}")
        ok = sorted(kinds_) in (["flips", "linear-part-not-identity"], ["flips"])
        run.instance("R4", ta.where, f"faces are re-wound under exactly {sorted(kinds_)}", ok)
        if not ok:
            run.violation("R4", ta.where, f"faces are re-wound under {sorted(kinds_)}: any condition beyond `flips_winding(matrix)` and `linear part != identity` "
                                          f"means some matrix with negative determinant is not re-wound (or a positive one is)", key=key_of("C04-R4", "flip-guard"))
    # centre of mass
    cstores = stores_to(ta.node, "self.center_mass")
    ok = bool(cstores)
    for st, val in cstores:
        val = pv.inline(val, st)
        inner = val.value if isinstance(val, ast.Subscript) else val
        if not isinstance(inner, ast.Call):
            ok = False
            continue
        c, args, kw = pv.canon_call(inner, st)
        pts = args[0] if args else kw.get("points", "")
        mat = args[1] if len(args) > 1 else kw.get("matrix")
        tr = args[2] if len(args) > 2 else kw.get("translate", "True")
        g = [pv.canon(i.test, i) for (i, pos) in enclosing_tests(ta, st) if pos]
        ok = ok and c == "trimesh.transformations.transform_points" and "center_mass" in pts and pts.lstrip("[").startswith("P_self.") and mat == mp \
            and tr == "True" and g == ["'center_mass' in P_self._data"]
    run.instance("R4", ta.where, "an overridden centre of mass is mapped through the matrix (with translation), only when one is stored", ok)
    if not ok:
        run.violation("R4", ta.where, "an overridden centre of mass is not mapped through the same matrix", key=key_of("C04-R4", "center_mass"))
    # the centre-of-mass store and the vertex store happen on the same paths (no exit between them)
    pointlike(ix.func("trimesh.points:PointCloud.apply_transform"), "R5", "PointCloud", "transform")
    pa = ix.func("trimesh.path.path:Path.apply_transform")
    pointlike(pa, "R5", "Path", "transform")

    va = ix.func("trimesh.voxel.base:VoxelGrid.apply_transform")
    pvv = Prov(ix, va)
    calls = [(st, pvv.canon(st.value, st)) for st in ast.walk(va.node) if isinstance(st, ast.Expr) and isinstance(st.value, ast.Call)]
    ok = [c for _, c in calls] == [f"P_self._transform.apply_transform(P_{va.params[1]})"]
    run.instance("R5", va.where, f"VoxelGrid delegates to its Transform with the same matrix ({[c for _, c in calls]})", ok)
    if not ok:
        run.violation("R5", va.where, "VoxelGrid.apply_transform no longer hands the matrix to its Transform", key=key_of("C04-R5", "VoxelGrid"))
    vt = ix.func("trimesh.voxel.transforms:Transform.apply_transform")
    pvt = Prov(ix, vt)
    m_ = f"P_{vt.params[1]}"
    st_ = stores_to(vt.node, "self.matrix")
    txts = [pvt.canon(v, s_) for s_, v in st_ if isinstance(v, ast.expr)]
    ok = len(txts) == 1 and txts[0] in (f"numpy.matmul({m_}, P_self.matrix)", f"numpy.dot({m_}, P_self.matrix)", f"{m_} @ P_self.matrix")
    run.instance("R5", vt.where, f"voxel Transform: matrix <- M . matrix ({txts})", ok)
    if not ok:
        run.violation("R5", vt.where, f"voxel Transform.apply_transform does not left-multiply its matrix by the argument ({txts})", key=key_of("C04-R5", "Transform"))
    pr = ix.func("trimesh.primitives:Primitive.apply_transform")
    pvp = Prov(ix, pr)
    m_ = f"P_{pr.params[1]}"
    st_ = stores_to(pr.node, "self.primitive.transform")
    if len(st_) != 1 or not isinstance(st_[0][1], ast.Name):
        raise AnalysisError("anchor vanished: single store `self.primitive.transform = <local>` in Primitive.apply_transform")
    alts = pvp.alternatives(st_[0][1].id, st_[0][0])
    cur = "P_self.primitive.transform.copy()"
    ok = alts is not None and len(alts) >= 1
    for a_ in alts or ():
        ok = ok and ((a_.startswith(f"numpy.dot({m_}, ") or a_.startswith(f"trimesh.util.multi_dot([{m_}, ")))
    run.instance("R5", pr.where, f"Primitive: transform <- M . (...) . current on every branch ({sorted(alts or [])})", ok)
    if not ok:
        run.violation("R5", pr.where, f"Primitive.apply_transform does not left-multiply its transform by the argument ({sorted(alts or [])})",
                      key=key_of("C04-R5", "Primitive"))
    # primitive identity shortcut
    for r in ast.walk(pr.node):
        if isinstance(r, ast.Return):
            rn = pvp.cfg.nodes_of.get(id(r), [None])[0]
            if rn is None or any(pvp.cfg.dominates(sn, rn) for sn in pvp.cfg.nodes_of.get(id(st_[0][0]), [])):
                continue
            g = [identity_guard(pvp.canon(i.test, i), m_) for (i, pos) in enclosing_tests(pr, r) if pos]
            g = next((x for x in g if x), None)
            ok = g is not None and g[0] == m_ and g[1] is not None and g[1] <= 1e-8
            run.instance("R5", pr.where, f"Primitive: early return only under a whole-matrix identity test ({g})", ok)
            if not ok:
                run.violation("R5", pr.where, f"Primitive.apply_transform returns early under {g}", key=key_of("C04-R5", "Primitive", "shortcut"))

    # ------------------------------------------------------------------ R7 transform_points == M p (+ t)
    tp = ix.func("trimesh.transformations:transform_points")
    for dim in (2, 3):
        for tr in (True, False):
            it = Interp(ix)
            it.decider = lambda frame, test: False
            P = symbols_array("p", (2, dim))
            Mx = symbols_array("m", (dim + 1, dim + 1))
            try:
                out = arr(it.call(tp, [P, Mx], {"translate": tr}))
            except Unsupported as e:
                raise AnalysisError(f"E3 cannot translate transform_points: {e}")
            exp = np.array([[sum(Mx[i, j] * P[k, j] for j in range(dim)) + (Mx[i, dim] if tr else 0) for i in range(dim)] for k in range(2)], dtype=object)
            ok = out.shape == exp.shape and all(sp.expand(a_ - b_) == 0 for a_, b_ in zip(out.flat, exp.flat))
            run.obligation("R7", tp.where, f"transform_points(p, M, translate={tr}) == M[:d,:d].p{' + M[:d,d]' if tr else ''} for symbolic p, M (d={dim})", ok)
            if not ok:
                run.violation("R7", tp.where, f"transform_points is not p -> M.p{' + t' if tr else ''} for {dim}D points (translate={tr})",
                              key=key_of("C04-R7", dim, tr))
    it = Interp(ix)
    it.decider = lambda frame, test: True if "1e-08" in ast.unparse(test) or "_IDENTITY" in ast.unparse(test) else False
    P = symbols_array("p", (2, 3))
    out = arr(it.call(tp, [P, symbols_array("m", (4, 4))]))
    ok = out.shape == P.shape and all(sp.expand(a_ - b_) == 0 for a_, b_ in zip(out.flat, P.flat))
    run.obligation("R7", tp.where, "identity shortcut of transform_points returns the points unchanged", ok)
    if not ok:
        run.violation("R7", tp.where, "the identity shortcut of transform_points does not return the points themselves", key=key_of("C04-R7", "shortcut"))
    # the shortcut test itself compares the whole matrix at <= 1e-8
    pvt = Prov(ix, tp)
    n_sc = 0
    for i in ast.walk(tp.node):
        # a shortcut: an `if` whose body returns the points as they came in
        rets_ = [x for x in i.body if isinstance(x, ast.Return) and x.value is not None] if isinstance(i, ast.If) else []
        if not rets_ or not all(pvt.canon(x.value, x) in ("P_points", "P_points.copy()") for x in rets_):
            continue
        txt = pvt.canon(i.test, i)
        n_sc += 1
        e = ast.parse(txt, mode="eval").body
        IDENT = ("_IDENTITY[", "numpy.eye(", "numpy.identity(")
        ok, why = None, ""
        if isinstance(e, ast.Compare) and len(e.ops) == 1 and isinstance(e.ops[0], (ast.Lt, ast.LtE)) and isinstance(e.comparators[0], ast.Constant):
            l = ast.unparse(e.left)
            tol = e.comparators[0].value
            mm = re.fullmatch(r"numpy\.(?:abs|absolute)\(P_matrix - (.+)\)\.max\(\)", l)
            ok = bool(mm) and mm.group(1).startswith(IDENT) and tol <= 1e-8
            why = "not a max-norm test of the whole matrix at <= 1e-8"
        elif isinstance(e, ast.Call) and ast.unparse(e.func) in ("numpy.allclose", "numpy.isclose", "trimesh.util.allclose"):
            fn_ = ast.unparse(e.func)
            kw_ = {k.arg: k.value for k in e.keywords}
            args_ = [ast.unparse(a_) for a_ in e.args]
            whole = len(args_) >= 2 and args_[0] == "P_matrix" and args_[1].startswith(IDENT)
            if fn_ == "trimesh.util.allclose":
                tol_n = e.args[2] if len(e.args) > 2 else kw_.get("atol")
                ok = whole and isinstance(tol_n, ast.Constant) and tol_n.value <= 1e-8
                why = "not a comparison of the whole matrix at <= 1e-8"
            else:
                rt = kw_.get("rtol", e.args[2] if len(e.args) > 2 else None)
                at = kw_.get("atol", e.args[3] if len(e.args) > 3 else None)
                rt_zero = isinstance(rt, ast.Constant) and rt.value == 0
                ok = whole and rt_zero and isinstance(at, ast.Constant) and at.value <= 1e-8
                why = (f"{fn_} applies a RELATIVE tolerance as well (rtol = {ast.unparse(rt) if rt is not None else 'default 1e-5'} against the ones on the diagonal): "
                       f"matrices that scale by up to that much are treated as the identity and the points are returned unmoved")
        if ok is None:
            run.instance("R7", tp.where, f"identity shortcut `{txt[:100]}`: form not recognised - NOT decided", True, nontrivial=False)
            run.assume(f"transform_points: the identity shortcut test `{txt[:80]}` is not in a recognised form")
            continue
        run.instance("R7", tp.where, f"identity shortcut: `{txt[:120]}`", ok)
        if not ok:
            run.violation("R7", tp.where, f"transform_points skips the transform under `{txt[:100]}`: {why}", key=key_of("C04-R7", "shortcut-test"))
    run.floor("identity shortcut tests in transform_points", n_sc, 1)

    # ------------------------------------------------------------------ R8 translation / scale matrices
    def built(q, arg, decide=None):
        f = ix.func(q)
        got = []
        it = Interp(ix)
        it.decider = decide
        try:
            it.call(f, [Namespace("G", apply_transform=PyHook(lambda m_: got.append(m_))), arg])
        except Unsupported as e:
            if run.violations:
                return f, None  # the function was already reported (R2): its matrix cannot be evaluated, nothing further to decide
            raise AnalysisError(f"E3 cannot translate {q}: {e}")
        if len(got) != 1:
            if run.violations:
                return f, None
            raise AnalysisError(f"{q}: apply_transform called {len(got)} times")
        return f, arr(got[0])

    def expect(q, arg, want, what, decide=None):
        f, m_ = built(q, arg, decide)
        if m_ is None:
            return
        want = np.array(want, dtype=object)
        ok = m_.shape == want.shape and all(sp.expand(sp.S(a_) - sp.S(b_)) == 0 for a_, b_ in zip(m_.flat, want.flat))
        run.obligation("R8", f.where, what, ok)
        if not ok:
            run.violation("R8", f.where, f"{what}: got {m_.tolist()}", key=key_of("C04-R8", q.split(':')[1], str(np.shape(arg))))

    t3 = symbols_array("t", (3,))
    t2 = symbols_array("t", (2,))
    s1 = sp.Symbol("s", real=True)
    s3 = symbols_array("s", (3,))
    s2 = symbols_array("s", (2,))
    sd = lambda fr, t_: True if fr.fi.name == "scale_and_translate" else None  # noqa
    expect("trimesh.parent:Geometry.apply_translation", t3, [[1, 0, 0, t3[0]], [0, 1, 0, t3[1]], [0, 0, 1, t3[2]], [0, 0, 0, 1]],
           "apply_translation((3,)) applies the matrix [I | t]")
    expect("trimesh.parent:Geometry.apply_translation", t2, [[1, 0, t2[0]], [0, 1, t2[1]], [0, 0, 1]], "apply_translation((2,)) applies the planar matrix [I | t]")
    expect("trimesh.parent:Geometry.apply_scale", s1, [[s1, 0, 0, 0], [0, s1, 0, 0], [0, 0, s1, 0], [0, 0, 0, 1]], "apply_scale(s) applies diag(s, s, s, 1)", sd)
    expect("trimesh.parent:Geometry.apply_scale", s3, [[s3[0], 0, 0, 0], [0, s3[1], 0, 0], [0, 0, s3[2], 0], [0, 0, 0, 1]],
           "apply_scale((3,)) applies diag(sx, sy, sz, 1)", sd)
    expect("trimesh.path.path:Path2D.apply_scale", s1, [[s1, 0, 0], [0, s1, 0], [0, 0, 1]], "Path2D.apply_scale(s) applies diag(s, s, 1)")
    expect("trimesh.path.path:Path2D.apply_scale", s2, [[s2[0], 0, 0], [0, s2[1], 0], [0, 0, 1]], "Path2D.apply_scale((2,)) applies diag(sx, sy, 1)")

    # ------------------------------------------------------------------ R10 primitives under a scaling matrix
    run.rule("R10", "Primitive.apply_transform with scale s: every size parameter is multiplied by s and the stored transform T' satisfies "
                    "T'.(s p) == M.T.p for every local point p (so the re-parameterised primitive is the transformed one)")
    pa_ = ix.func("trimesh.primitives:Primitive.apply_transform")
    KINDS = {"Box": ["extents"], "Cylinder": ["height", "radius"], "Capsule": ["height", "radius"], "Sphere": ["radius"]}
    sc = sp.Symbol("s", positive=True)
    for kind, sizes in KINDS.items():
        Mx = symbols_array("m", (4, 4))
        Mx[3] = [0, 0, 0, 1]
        Cx = symbols_array("c", (4, 4))
        Cx[3] = [0, 0, 0, 1]
        vals = {k: (symbols_array("e", (3,)) if k == "extents" else sp.Symbol(k, positive=True)) for k in sizes}
        prim = Namespace(kind + "Attributes", transform=Cx.copy(), **{k: (v.copy() if isinstance(v, np.ndarray) else v) for k, v in vals.items()})
        me = Namespace(kind, primitive=prim)
        # the uniform scale is the cube root of the determinant of the linear part: treat the determinant as s**3 with
        # s > 0, whatever the locals holding it are called and however many steps the root is taken in
        it = Interp(ix)
        it.ext_stubs["numpy.linalg.det"] = lambda itp, args, kw: sc ** 3
        it.stubs["trimesh.transformations:is_rigid"] = lambda itp, args, kw: True

        def dec(fr, t, _sizes=sizes):
            # the case examined is one of the four supported kinds under a scale s that is not 1: tests are evaluated
            # through their boolean structure (whatever the nesting / De Morgan form), atoms as follows
            if isinstance(t, ast.BoolOp):
                vals = [dec(fr, v_, _sizes) for v_ in t.values]
                return all(vals) if isinstance(t.op, ast.And) else any(vals)
            if isinstance(t, ast.UnaryOp) and isinstance(t.op, ast.Not):
                return not dec(fr, t.operand, _sizes)
            if isinstance(t, ast.Call) and ast.unparse(t.func) == "isinstance" and len(t.args) == 2 and ast.unparse(t.args[0]) == "self":
                return True
            if isinstance(t, ast.Call) and ast.unparse(t.func) == "hasattr" and len(t.args) == 2 and isinstance(t.args[1], ast.Constant) \
                    and t.args[1].value in ("height", "radius", "extents"):
                return t.args[1].value in _sizes
            if isinstance(t, ast.Compare):
                # a comparison of the scale factor with a tolerance: evaluated at a generic scale (s = 2)
                if len(t.ops) == 1:
                    import operator as _op
                    fn_ = {ast.Lt: _op.lt, ast.LtE: _op.le, ast.Gt: _op.gt, ast.GtE: _op.ge, ast.Eq: _op.eq, ast.NotEq: _op.ne}.get(type(t.ops[0]))
                    try:
                        a_, b_ = (sp.powdenest(sp.nsimplify(sp.sympify(fr.ev(x_)), rational=True), force=True).subs(sc, 2)
                                  for x_ in (t.left, t.comparators[0]))
                        if fn_ is not None and not a_.free_symbols and not b_.free_symbols:
                            return bool(fn_(float(a_), float(b_)))
                    except Exception:  # noqa
                        pass
            return False

        it.decider = dec
        fr = Frame(it, pa_, {"self": me, "matrix": Mx})
        skipped = []
        try:
            tolerant_block(fr, pa_.node.body, skipped)
        except _Return:
            pass
        U = arr(prim.transform)
        pl = symbols_array("p", (3,))
        def zero(e_):
            # float literals of the source (1.0 / 3.0) become exact rationals: (s**3)**(1/3) is s for s > 0
            return sp.simplify(sp.powdenest(sp.nsimplify(sp.sympify(e_), rational=True), force=True)) == 0

        scaled_ok = all(zero(sp.sympify(x_) - sc * sp.sympify(y_))
                        for k in sizes for x_, y_ in zip(np.ravel(arr(getattr(prim, k))), np.ravel(arr(vals[k]))))
        new = U.dot(np.append(sc * pl, 1))
        old = Mx.dot(Cx.dot(np.append(pl, 1)))
        moved_ok = U is not Cx and all(zero(a_ - b_) for a_, b_ in zip(new, old))
        if skipped:
            # part of the function is outside E3 (an external call it has no transfer function for): the identity is not decided
            run.instance("R10", pa_.where, f"{kind}: Primitive.apply_transform not translatable ({str(skipped[:1])[:80]}) - NOT decided", True, nontrivial=False)
            run.assume(f"Primitive.apply_transform ({kind}): outside E3 ({str(skipped[:1])[:100]}); re-parameterisation under scaling not decided")
            continue
        ok = scaled_ok and moved_ok and not skipped
        run.obligation("R10", pa_.where, f"{kind}: size parameters {sizes} scaled by s: {scaled_ok}; T'.(s p) == M.T.p: {moved_ok}"
                                         f"{'; untranslated: ' + str(skipped[:2]) if skipped else ''}", ok)
        if not ok and not skipped:
            run.violation("R10", pa_.where, f"Primitive.apply_transform ({kind}) under a scaling matrix: size parameters scaled: {scaled_ok}, placement T'.(s p) == M.T.p: "
                                            f"{moved_ok}: the re-parameterised primitive is not the transformed primitive", key=key_of("C04-R10", kind))
        elif skipped:
            raise AnalysisError(f"E3 cannot translate Primitive.apply_transform for {kind}: {skipped[:3]}")

    # ------------------------------------------------------------------ R9 util.allclose is a max-norm test
    ac = ix.func("trimesh.util:allclose")
    pva = Prov(ix, ac)
    rets = [r for r in ast.walk(ac.node) if isinstance(r, ast.Return) and r.value is not None]
    if len(rets) != 1:
        raise AnalysisError("util.allclose: expected a single return")
    txt = pva.canon(rets[0].value, rets[0])
    good = {
        "numpy.abs(P_a - P_b).max() < P_atol", "numpy.max(numpy.abs(P_a - P_b)) < P_atol", "numpy.amax(numpy.abs(P_a - P_b)) < P_atol",
        "numpy.abs(P_b - P_a).max() < P_atol", "numpy.all(numpy.abs(P_a - P_b) < P_atol)", "(numpy.abs(P_a - P_b) < P_atol).all()",
        "bool(numpy.abs(P_a - P_b).max() < P_atol)", "bool(numpy.all(numpy.abs(P_a - P_b) < P_atol))",
    }
    if txt in good:
        run.instance("R9", ac.where, f"util.allclose := `{txt}` (largest absolute difference below the tolerance)", True)
    elif "abs" not in txt:
        run.instance("R9", ac.where, f"util.allclose := `{txt}`", False)
        run.violation("R9", ac.where, f"util.allclose decides by `{txt}`: a reduction of the signed difference, so a constant offset (M = I + c.ones) compares "
                                      f"as close to the identity and apply_transform skips the winding flip / normal transport for it",
                      key=key_of("C04-R9", "allclose"))
    else:
        raise AnalysisError(f"util.allclose has an unrecognised form `{txt}`: review and extend the table of max-norm forms in C04-R9")

    # ------------------------------------------------------------------ R6 memo entries across transforms
    from . import c01, c14

    fps = c01.producer_footprints(ix, ef, T)
    sp_ = c01.side_products(ix, ef, T, fps)

    def fp_mesh(k):
        if k in fps:
            return fps[k][1]
        if k in sp_ and sp_[k] in fps:
            return fps[sp_[k]][1]
        return None

    check_surgery(run, ef, ta, T, ta.params[0], c01.hashed_data, c01.rhs_kind, fp_mesh, set(fps) | set(sp_), c01.INVARIANCE,
                  {k: v for k, v in sp_.items() if k in fps}, (lambda f_, k_, d_, kind_: c01._translation_only_ok(f_, k_, d_, kind_, ix)), "C04", r2="R6", r2b="R6", r6="R6", r8="R6",
                  transport_ok=c01.TRANSPORT)
    P2 = ix.cls("trimesh.path.path.Path2D")
    pfps = {}
    for k in P2.mro:
        for name, g in k.getters.items():
            if g.kind == "cached" and name not in pfps:
                sm = ef.summary(g, P2)
                pfps[name] = {(c14.hashed_path(p), tg) for (r, p, tg) in sm.reads if r == g.params[0] and p and c14.hashed_path(p) is not None}
    check_surgery(run, ef, pa, P2, pa.params[0], c14.hashed_path, c14.rhs_kind, lambda k: pfps.get(k), set(pfps), c14.INVARIANCE, {}, None, "C04",
                  r2="R6", r2b="R6", r6="R6", r8="R6", transport_ok=c14.TRANSPORT)
    run.assume("M.p numerically, composition / inverse laws, volume / area / inertia scaling and the 1e-8 / 1e-6 shortcut thresholds are not decided")
    from ..rigidrule import rigid_rule
    rigid_rule(run, ix, "R11", "C04")
    return {
        "explanation": "Effect analysis (RANDOM effect, write sets) over every geometry kind's transform entry points; an algebraic proof that "
        "flips_winding's sample-based test equals sign(det M); structural funnel checks; the C01/C14 preservation obligations applied to the "
        "two apply_transform implementations that keep memo entries. Decides that a transform is a function of the matrix, touches only "
        "positions / winding / centre of mass, funnels through one implementation per kind and leaves no stale derived value behind.",
    }
