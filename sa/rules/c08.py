"""C08 - export / load round trip (narrow).

Decides: (R1) no exporter can write through the object it exports (interprocedural write
effects rooted at the exported object); (R2) every exported file type has a registered loader;
(R3) writer and reader type tables are mutual inverses and every dtype a writer can emit is a
key of the reader's table; (R4) fixed-endian record dtypes are shared by writer and reader and
carry an explicit byte order.
"""
from __future__ import annotations

import ast
import re

from ..effects import MAXLEN, Effects
from ..index import Index, const_eval
from ..report import AnalysisError, key_of
from ..tables import Tables

LEVEL = "other"

EXPORTERS = [
    # (function, parameter that is the exported object)
    "trimesh.exchange.stl:export_stl", "trimesh.exchange.stl:export_stl_ascii", "trimesh.exchange.ply:export_ply",
    "trimesh.exchange.off:export_off", "trimesh.exchange.obj:export_obj", "trimesh.exchange.gltf:export_glb",
    "trimesh.exchange.gltf:export_gltf", "trimesh.exchange.export:export_dict", "trimesh.exchange.export:export_dict64",
    "trimesh.exchange.dae:export_collada", "trimesh.exchange.xyz:export_xyz", "trimesh.exchange.threemf:export_3MF",
    "trimesh.exchange.export:export_scene", "trimesh.exchange.export:scene_to_dict", "trimesh.exchange.export:export_mesh",
    "trimesh.exchange.urdf:export_urdf", "trimesh.exchange.binvox:export_binvox",
    "trimesh.path.exchange.dxf:export_dxf", "trimesh.path.exchange.svg_io:export_svg", "trimesh.path.exchange.export:export_path",
    "trimesh.path.exchange.export:export_dict",
]
EXPORT_METHODS = ["trimesh.base:Trimesh.export", "trimesh.scene.scene:Scene.export", "trimesh.path.path:Path.export",
                  "trimesh.points:PointCloud.export", "trimesh.voxel.base:VoxelGrid.export", "trimesh.base:Trimesh.to_dict",
                  "trimesh.path.path:Path.to_dict"]

# exported types that are not looked up in a loader registry (reasoned, frozen)
NO_LOADER = {
    "dict": "a python dict handed to trimesh.load() directly (load_kwargs path), not bytes",
    "dict64": "as dict",
    "stl_ascii": None,  # must be present in the loader registry
}


def _ply_layout(run, ix, tb):
    """R10: the PLY header declares, element by element, the scalar fields in the order and of the types the packed
    record stores them - for every combination of the optional per-vertex / per-face blocks.  Decided on the containers
    the exporter builds (sa/conteval.py): the list of header templates and the dtype list handed to numpy for each
    element, evaluated for one configuration at a time without running anything."""
    import itertools

    from ..conteval import ContEval, Opaque, Undecided
    run.rule("R10", "PLY export: for every combination of optional blocks (vertex normals, vertex colours, face colours) the properties declared under each "
                    "`element` of the header are the fields of the record packed for it, in the same order and with the same scalar types "
                    "(a reader cuts the bytes by the header)")
    fi = ix.func("trimesh.exchange.ply:export_ply")
    ply_types = tb.literal("trimesh.exchange.ply", "_dtypes") or {}
    subject = fi.params[0] if fi.params else "mesh"
    n = 0
    for normal, vcol, fcol in itertools.product((False, True), repeat=3):
        if vcol and fcol:
            continue  # a visual is of one kind

        def decide(t, _v=vcol, _f=fcol, _m=subject):
            m_ = re.escape(_m)
            table = [(rf"hasattr\({m_}, 'entities'\)", False), (rf"hasattr\({m_}, 'vertices'\)", True), (rf"hasattr\({m_}, 'faces'\)", True),
                     (rf"hasattr\({m_}, 'visual'\)", True), (rf"{m_}\.visual\.kind == 'vertex'", _v), (rf"'vertex' == {m_}\.visual\.kind", _v),
                     (rf"{m_}\.visual\.kind == 'face'", _f), (rf"'face' == {m_}\.visual\.kind", _f),
                     (rf"{m_}\.visual\.kind != 'vertex'", not _v), (rf"{m_}\.visual\.kind != 'face'", not _f),
                     (rf"len\({m_}\.visual\.vertex_colors\) == len\({m_}\.vertices\)", True),
                     (rf"len\({m_}\.vertices\) == len\({m_}\.visual\.vertex_colors\)", True),
                     (rf"len\({m_}\.visual\.face_colors\) == len\({m_}\.faces\)", True),
                     (rf"len\({m_}\.(vertices|faces)\)( > 0)?", True), (rf"len\({m_}\.(vertices|faces)\) == 0", False)]
            for p_, v_ in table:
                if re.fullmatch(p_, t):
                    return v_
            return None

        cfg = f"vertex_normal={normal}, vertex colours={vcol}, face colours={fcol}"
        ev = ContEval(ix, decide=decide)
        args = {subject: Opaque(subject), "encoding": "binary_little_endian"}
        for p_ in fi.params[1:]:
            if p_ == "vertex_normal":
                args[p_] = normal
            elif p_ == "include_attributes":
                args[p_] = False
        try:
            ev.run(fi, args)
        except Undecided as e:
            run.instance("R10", fi.where, f"[{cfg}] export_ply depends on `{str(e)[:70]}` - NOT decided", True, nontrivial=False)
            run.assume(f"export_ply [{cfg}]: container evaluation stopped at `{str(e)[:80]}`")
            continue
        env = ev.last_env
        headers = [v for v in env.values() if isinstance(v, list) and v and all(isinstance(x, str) for x in v) and v[0].startswith("ply")]
        records = [(a, kw.get("dtype")) for name, a, kw, r in ev.calls if name in ("numpy.zeros", "numpy.empty", "numpy.ones")
                   and isinstance(kw.get("dtype"), list) and all(isinstance(x, tuple) and len(x) >= 2 and isinstance(x[1], str) for x in kw["dtype"])]
        if len(headers) != 1 or not records:
            run.instance("R10", fi.where, f"[{cfg}] header list / packed records not found ({len(headers)} header(s), {len(records)} record(s)) - NOT decided", True, nontrivial=False)
            run.assume(f"export_ply [{cfg}]: header or records not in a recognised form")
            continue
        # header -> {element: [("scalar", code) | ("list", count code, item code)]}
        elements, cur = [], None
        bad_type = None
        for line in "".join(headers[0]).splitlines():
            w = line.split()
            if w[:1] == ["element"] and len(w) >= 2:
                cur = (w[1], [])
                elements.append(cur)
            elif w[:1] == ["property"] and cur is not None:
                if w[1] == "list" and len(w) >= 5:
                    cur[1].append(("list", ply_types.get(w[2]), ply_types.get(w[3])))
                    bad_type = bad_type or next((x for x in w[2:4] if x not in ply_types), None)
                elif len(w) >= 3:
                    cur[1].append(("scalar", ply_types.get(w[1])))
                    bad_type = bad_type or (w[1] if w[1] not in ply_types else None)
        if bad_type:
            run.instance("R10", fi.where, f"[{cfg}] header names the type `{bad_type}` that the PLY type table does not know", False)
            run.violation("R10", fi.where, f"[{cfg}] the PLY header declares a property of type `{bad_type}` which the reader's type table cannot map",
                          key=key_of("C08-R10", "ply-layout", "type", bad_type))
            continue
        # records matched to elements by what they are sized with, falling back to order
        def of(elname):
            word = {"vertex": "vertices", "face": "faces", "edge": "edges"}.get(elname, elname)
            hit = [d for a, d in records if a and word in str(getattr(a[0], "text", a[0]))]
            return hit[0] if len(hit) == 1 else None

        for k, (elname, props) in enumerate(elements):
            dt = of(elname) or (records[k][1] if len(records) == len(elements) else None)
            if dt is None:
                run.instance("R10", fi.where, f"[{cfg}] record packed for element `{elname}` not identified - NOT decided", True, nontrivial=False)
                continue
            fields = []
            for fld in dt:
                cnt = 1
                if len(fld) > 2:
                    sh = fld[2] if isinstance(fld[2], (tuple, list)) else (fld[2],)
                    for x in sh:
                        cnt *= x if isinstance(x, int) else 1
                fields.append([fld[0], fld[1].lstrip("<>=|"), cnt])
            want = [pr[1] if pr[0] == "scalar" else f"list {pr[1]} {pr[2]}" for pr in props]
            got = [(c, k_) for _, c, k_ in fields]
            ok, i = True, 0
            for pr in props:
                if pr[0] == "scalar":
                    if i < len(fields) and fields[i][1] == pr[1] and fields[i][2] > 0:
                        fields[i][2] -= 1
                        if fields[i][2] == 0:
                            i += 1
                    else:
                        ok = False
                        break
                else:
                    if i + 1 < len(fields) and fields[i][1] == pr[1] and fields[i][2] == 1 and fields[i + 1][1] == pr[2]:
                        i += 2
                    else:
                        ok = False
                        break
            ok = ok and i == len(fields)
            n += 1
            run.instance("R10", fi.where, f"[{cfg}] element {elname}: header {want} == record {got}", ok)
            if not ok:
                run.violation("R10", fi.where, f"[{cfg}] PLY element `{elname}`: the header declares {want} but the packed record is laid out as "
                                               f"{[(nm, c, k_) for (nm, c, _), (_, k_) in zip(fields, got)] if False else [(f[0], g[0], g[1]) for f, g in zip(dt, got)]}: "
                                               f"a reader that cuts the bytes by the header gets other fields' bytes",
                              key=key_of("C08-R10", "ply-layout", elname, f"n{int(normal)}v{int(vcol)}f{int(fcol)}"))
    run.floor("PLY element layouts compared", n, 6)


def check(run):
    ix = Index(run.repo)
    ef = Effects(ix)
    tb = Tables(ix)
    run.analysed.update(ix.stats())
    run.rule("R1", "exporters are read-only on their subject: no write effect rooted at the exported object (memo fills, lazily created defaults, "
                   "camera intrinsics and the visuals' cache->data normalisation aside)")
    run.rule("R2", "registry pairing: every file type an exporter registry offers has a loader registered")
    run.rule("R3", "table agreement: PLY / glTF / DXF writer and reader tables are mutual inverses; every dtype the writers can emit is readable")
    run.rule("R4", "fixed-endian records: STL reader and writer use the same dtype objects, every multi-byte field carries an explicit byte order")

    # ------------------------------------------------------------------ R1
    n = 0
    truncated = 0
    for spec in EXPORTERS + EXPORT_METHODS:
        try:
            f = ix.func(spec)
        except AnalysisError:
            if spec in ("trimesh.exchange.urdf:export_urdf",):
                continue
            raise
        cls = f.cls if f.cls is not None else None
        s = ef.summary(f, cls)
        root = f.params[0]
        n += 1
        bad = []
        for (r, p, k) in sorted(s.writes):
            if r != root or k == "memo" or "_cache" in p:
                continue
            if any(x in ("_visual", "visual") for x in p) and "_data" in p:
                continue  # ColorVisuals cache->data normalisation (value preserving, documented)
            if "_camera" in p or "_lights" in p or "_source" in p:
                continue  # lazily derived camera intrinsics / defaults: not geometry
            if any(x == "_direction" for x in p):
                continue  # traversal direction flag of path entities (re-established on every traversal)
            if len(p) >= MAXLEN:
                truncated += 1
                continue  # path cut at the analysis bound: cannot be judged, counted in evidence
            bad.append((".".join(p), k, s.sites.get((r, p, k), (0, ""))[1]))
        ok = not bad
        run.instance("R1", f.where, f"{f.qualname}({root}): " + ("no write through the exported object" if ok else f"writes {bad[:3]}"), ok)
        for path, kind, site in bad[:5]:
            run.violation("R1", f.where,
                          f"exporter `{f.qualname}` modifies the object it exports: {kind} write of `{root}.{path}` (at `{site}`)",
                          key=key_of("C08-R1", spec, path))
    run.floor("exporters analysed", n, 20)
    run.analysed["writes_cut_at_path_bound"] = truncated

    # ------------------------------------------------------------------ R2
    mesh_exp = tb.keys("trimesh.exchange.export", "_mesh_exporters")
    mesh_load = tb.keys("trimesh.exchange.load", "mesh_loaders")
    path_exp = tb.keys("trimesh.path.exchange.export", "_path_exporters")
    path_load = tb.keys("trimesh.path.exchange.load", "path_loaders")
    vox_load = tb.keys("trimesh.exchange.load", "voxel_loaders")
    run.floor("mesh exporter entries", len(mesh_exp), 12)
    run.floor("mesh loader entries", len(mesh_load), 15)
    run.analysed["registries"] = {"mesh_exporters": sorted(mesh_exp), "mesh_loaders": sorted(mesh_load), "path_exporters": sorted(path_exp),
                                  "path_loaders": sorted(path_load), "voxel_loaders": sorted(vox_load)}
    for k in sorted(mesh_exp):
        why = NO_LOADER.get(k)
        ok = k in mesh_load or why is not None
        run.instance("R2", "trimesh/exchange/export.py _mesh_exporters", f"`{k}`: " + (why if (k not in mesh_load and why) else "loader registered"), ok)
        if not ok:
            run.violation("R2", "trimesh/exchange/export.py _mesh_exporters", f"meshes can be exported as `{k}` but no loader is registered for that type",
                          key=key_of("C08-R2", "mesh", k))
    # scene exporter dispatch chain: string comparisons in export_scene
    es = ix.func("trimesh.exchange.export:export_scene")
    scene_types = set()
    for c in ast.walk(es.node):
        if isinstance(c, ast.Compare) and ast.unparse(c.left) == "file_type" and isinstance(c.ops[0], ast.Eq) and isinstance(c.comparators[0], ast.Constant):
            scene_types.add(c.comparators[0].value)
    run.floor("scene export types", len(scene_types), 8)
    for k in sorted(scene_types):
        ok = k in mesh_load or k in path_load or NO_LOADER.get(k) is not None
        run.instance("R2", es.where, f"scene export type `{k}` has a loader", ok)
        if not ok:
            run.violation("R2", es.where, f"scenes can be exported as `{k}` but nothing loads that type", key=key_of("C08-R2", "scene", k))
    for k in sorted(path_exp):
        ok = k in path_load or k in mesh_load or k in ("dict",)
        run.instance("R2", "trimesh/path/exchange/export.py _path_exporters", f"path export type `{k}` has a loader", ok)
        if not ok:
            run.violation("R2", "trimesh/path/exchange/export.py _path_exporters", f"paths can be exported as `{k}` but nothing loads that type",
                          key=key_of("C08-R2", "path", k))
    ok = "binvox" in vox_load
    run.instance("R2", "trimesh/exchange/load.py voxel_loaders", "binvox loader registered for VoxelGrid.export", ok)
    if not ok:
        run.violation("R2", "trimesh/exchange/load.py voxel_loaders", "VoxelGrid exports binvox but no voxel loader is registered", key=key_of("C08-R2", "binvox"))

    # ------------------------------------------------------------------ R3
    ply = ix.modules["trimesh.exchange.ply"]
    d = tb.literal("trimesh.exchange.ply", "_dtypes")
    inv = tb.literal("trimesh.exchange.ply", "_inverse_dtypes")
    if not isinstance(d, dict) or not isinstance(inv, dict):
        raise AnalysisError("anchor vanished: ply._dtypes / ply._inverse_dtypes literal tables")
    for k, v in sorted(inv.items()):
        ok = d.get(v) == k
        run.instance("R3", f"{ply.rel} _inverse_dtypes", f"numpy `{k}` -> ply `{v}` -> numpy `{d.get(v)}`", ok)
        if not ok:
            run.violation("R3", f"{ply.rel} _inverse_dtypes", f"PLY writer names numpy `{k}` as `{v}` but the reader maps `{v}` to `{d.get(v)}`",
                          key=key_of("C08-R3", "ply", k))
    ok = set(d.values()) <= set(inv)
    run.instance("R3", f"{ply.rel} _dtypes", "every numpy type the reader knows can be written", ok)
    # dtypes the exporter emits literally must be readable
    ex = ix.func("trimesh.exchange.ply:export_ply")
    emitted = set(re.findall(r"'<([iuf][1248])'", ast.unparse(ex.node)))
    for e in sorted(emitted):
        ok = e in inv
        run.instance("R3", ex.where, f"export_ply emits `<{e}` which the tables name `{inv.get(e)}`", ok)
        if not ok:
            run.violation("R3", ex.where, f"export_ply writes fields of dtype `{e}` that the PLY type tables cannot name", key=key_of("C08-R3", "ply-emit", e))
    g = tb.literal("trimesh.exchange.gltf", "_dtypes")
    gl = tb.literal("trimesh.exchange.gltf", "_dtypes_lookup")
    if not isinstance(g, dict):
        raise AnalysisError("anchor vanished: gltf._dtypes")
    if not isinstance(gl, dict):
        raise AnalysisError("gltf._dtypes_lookup is not derivable as a constant")
    for code, dt in sorted(g.items()):
        ok = gl.get(dt[1:]) == code and dt.startswith("<")
        run.instance("R3", "trimesh/exchange/gltf.py _dtypes", f"componentType {code} <-> `{dt}` (little endian)", ok)
        if not ok:
            run.violation("R3", "trimesh/exchange/gltf.py _dtypes", f"glTF componentType {code} / dtype `{dt}` do not round-trip through _dtypes_lookup "
                                                                    f"or lack an explicit little-endian byte order", key=key_of("C08-R3", "gltf", code))
    GLTF_SPEC = {5120: "i1", 5121: "u1", 5122: "i2", 5123: "u2", 5125: "u4", 5126: "f4"}
    for code, dt in sorted(g.items()):
        ok = GLTF_SPEC.get(code) == dt[1:]
        run.instance("R3", "trimesh/exchange/gltf.py _dtypes", f"componentType {code} is `{GLTF_SPEC.get(code)}` in the glTF 2.0 specification", ok)
        if not ok:
            run.violation("R3", "trimesh/exchange/gltf.py _dtypes", f"glTF componentType {code} mapped to `{dt}`; the specification says `{GLTF_SPEC.get(code)}`",
                          key=key_of("C08-R3", "gltf-spec", code))
    du = tb.literal("trimesh.path.exchange.dxf", "_DXF_UNITS")
    ud = tb.literal("trimesh.path.exchange.dxf", "_UNITS_TO_DXF")
    if not isinstance(du, dict) or not isinstance(ud, dict):
        raise AnalysisError("anchor vanished: dxf unit tables")
    ok = ud == {v: k for k, v in du.items()} and len(set(du.values())) == len(du)
    run.instance("R3", "trimesh/path/exchange/dxf.py _DXF_UNITS", f"{len(du)} unit codes, inverse table consistent and injective", ok)
    if not ok:
        run.violation("R3", "trimesh/path/exchange/dxf.py _DXF_UNITS", "DXF unit tables are not mutual inverses", key=key_of("C08-R3", "dxf-units"))

    # ------------------------------------------------------------------ R4
    stl = ix.modules["trimesh.exchange.stl"]
    src = {name: ast.unparse(sts[-1].value) for name, sts in stl.constants.items() if name.startswith("_stl_dtype")}
    if set(src) != {"_stl_dtype", "_stl_dtype_header"}:
        raise AnalysisError(f"anchor vanished: _stl_dtype / _stl_dtype_header ({sorted(src)})")
    for name, txt in src.items():
        fields = re.findall(r"'([<>=|]?)([iuf])([1248])'", txt)
        multi = [f for f in fields if f[2] != "1"]
        ok = bool(multi) and all(f[0] == "<" for f in multi)
        run.instance("R4", f"{stl.rel} {name}", f"fields {[''.join(f) for f in fields]}: explicit little endian", ok)
        if not ok:
            run.violation("R4", f"{stl.rel} {name}", f"`{name}` has a multi-byte field without an explicit `<`: the record layout depends on the host",
                          key=key_of("C08-R4", name))
    ld, exs = ix.func("trimesh.exchange.stl:load_stl_binary"), ix.func("trimesh.exchange.stl:export_stl")
    for f in (ld, exs):
        t = ast.unparse(f.node)
        ok = "_stl_dtype_header" in t and re.search(r"dtype=_stl_dtype\b", t) is not None
        run.instance("R4", f.where, "uses the shared _stl_dtype and _stl_dtype_header objects", ok)
        if not ok:
            run.violation("R4", f.where, f"{f.name} does not use the shared STL record dtypes: reader and writer can disagree on the layout",
                          key=key_of("C08-R4", f.name))
    # the fields the writer fills and the reader reads
    # (the record array is whatever local is created with dtype=_stl_dtype; its name is irrelevant)
    def record_fields(fn, ctx):
        recs = {st.targets[0].id for st in ast.walk(fn.node) if isinstance(st, ast.Assign) and isinstance(st.targets[0], ast.Name)
                and re.search(r"dtype=_stl_dtype\b", ast.unparse(st.value))}
        return {n.slice.value for n in ast.walk(fn.node) if isinstance(n, ast.Subscript) and isinstance(n.ctx, ctx) and isinstance(n.value, ast.Name)
                and n.value.id in recs and isinstance(n.slice, ast.Constant) and isinstance(n.slice.value, str)}

    written, read = record_fields(exs, ast.Store), record_fields(ld, ast.Load)
    for field in ("normals", "vertices"):
        ok = field in written and field in read
        run.instance("R4", exs.where, f"record field `{field}` written and read", ok)
        if not ok:
            run.violation("R4", exs.where, f"STL record field `{field}` is not both written and read", key=key_of("C08-R4", "field", field))
    # the header record (created with dtype=_stl_dtype_header) receives the number of faces of the mesh that is written
    hdr = {st.targets[0].id for st in ast.walk(exs.node) if isinstance(st, ast.Assign) and isinstance(st.targets[0], ast.Name)
           and re.search(r"dtype=_stl_dtype_header\b", ast.unparse(st.value))}
    mp0 = exs.params[0]
    ok = any(isinstance(st, ast.Assign) and isinstance(st.targets[0], ast.Subscript) and isinstance(st.targets[0].value, ast.Name)
             and st.targets[0].value.id in hdr and ast.unparse(st.targets[0].slice) == "'face_count'"
             and ast.unparse(st.value) in (f"len({mp0}.faces)", f"{mp0}.faces.shape[0]", f"len({mp0}.triangles)") for st in ast.walk(exs.node))
    run.instance("R4", exs.where, "header face_count = number of faces written", ok)
    if not ok:
        run.violation("R4", exs.where, "export_stl does not store the face count it writes in the header", key=key_of("C08-R4", "face_count"))
    # other binary writers: every struct/np dtype string with itemsize > 1 in gltf/ply export paths is explicit
    for spec in ("trimesh.exchange.gltf:_build_accessor", "trimesh.exchange.gltf:_data_append", "trimesh.exchange.ply:export_ply"):
        try:
            f = ix.func(spec)
        except AnalysisError:
            continue
        lits = []
        for c in ast.walk(f.node):
            if not isinstance(c, ast.Call):
                continue
            exprs = [k.value for k in c.keywords if k.arg == "dtype"]
            if ast.unparse(c.func).split(".")[-1] in ("dtype", "astype", "view"):
                exprs += list(c.args)
            for e in exprs:
                for k in ast.walk(e):
                    if isinstance(k, ast.Constant) and isinstance(k.value, str):
                        m = re.fullmatch(r"([<>=|]?)([iuf])([248])", k.value)
                        if m:
                            lits.append(m.groups())
        bad = [l for l in lits if l[0] != "<"]
        run.instance("R4", f.where, f"{len(lits)} multi-byte dtype literals, all little endian", not bad)
        if bad:
            run.violation("R4", f.where, f"{f.qualname} uses multi-byte dtype literal(s) {[''.join(b) for b in bad]} without an explicit byte order",
                          key=key_of("C08-R4", spec))
    # ------------------------------------------------------------------ R5 glTF: node -> mesh indices are positions in tree["meshes"]
    run.rule("R5", "glTF: the node->mesh index handed to the scene graph counts entries actually appended to tree['meshes'] (skipped geometry does not shift later indices)")
    cg = ix.func_by_role("trimesh.exchange.gltf:_create_gltf_structure",
                         lambda f_: any(isinstance(c_, ast.Call) and isinstance(c_.func, ast.Attribute) and c_.func.attr == "to_gltf" for c_ in ast.walk(f_.node)) and not f_.nested,
                         "the function that asks the scene graph for its glTF nodes")
    call = None
    for c in ast.walk(cg.node):
        if isinstance(c, ast.Call) and isinstance(c.func, ast.Attribute) and c.func.attr == "to_gltf":
            call = c
    if call is None:
        raise AnalysisError("anchor vanished: scene.graph.to_gltf(...) in _create_gltf_structure")
    arg = next((k.value for k in call.keywords if k.arg == "mesh_index"), call.args[1] if len(call.args) > 1 else None)
    ok = False
    why = "no mesh_index passed: to_gltf falls back to enumerating every geometry, including those that emit no mesh"
    if isinstance(arg, ast.Name):
        stores = [st for st in ast.walk(cg.node) if isinstance(st, ast.Assign) and isinstance(st.targets[0], ast.Subscript)
                  and ast.unparse(st.targets[0].value) == arg.id]
        defs = {}
        for st in ast.walk(cg.node):
            if isinstance(st, ast.Assign) and isinstance(st.targets[0], ast.Name):
                defs.setdefault(st.targets[0].id, []).append(ast.unparse(st.value))
        derived = False
        guarded = False
        for st in stores:
            names = {n.id for n in ast.walk(st.value) if isinstance(n, ast.Name)}
            txt = ast.unparse(st.value)
            if "len(tree['meshes'])" in txt or any("len(tree['meshes'])" in d for nm in names for d in defs.get(nm, [])):
                derived = True
            for par in ast.walk(cg.node):
                if isinstance(par, ast.If) and any(st is x for b in par.body for x in ast.walk(b)) and "len(tree['meshes'])" in ast.unparse(par.test):
                    guarded = True
        ok = bool(stores) and derived and guarded
        why = f"index stores derive from len(tree['meshes']): {derived}; stored only when an entry was appended: {guarded}"
    run.instance("R5", cg.where, why, ok)
    if not ok:
        run.violation("R5", cg.where, f"glTF export: {why}; nodes placed after a skipped geometry would reference the wrong mesh", key=key_of("C08-R5", "mesh_index"))
    tg = ix.func("trimesh.scene.transforms:SceneGraph.to_gltf")
    t = ast.unparse(tg.node)
    ok = "if mesh_key in mesh_index:" in t and "info['mesh'] = mesh_index[mesh_key]" in t
    run.instance("R5", tg.where, "to_gltf writes the index it was given and omits nodes whose geometry emitted nothing", ok)
    if not ok:
        run.violation("R5", tg.where, "SceneGraph.to_gltf no longer takes the mesh position from the index it is handed", key=key_of("C08-R5", "to_gltf"))

    # ------------------------------------------------------------------ R6 face indices are not narrowed by a count
    run.rule("R6", "exporters cast face indices to a fixed type of at least 32 bits; a width chosen at run time is chosen by the largest index (faces.max() / len(vertices)), never by a count of faces")
    from ..provenance import Prov
    import re as _re
    WIDE = {"uint32", "numpy.uint32", "numpy.int32", "numpy.int64", "numpy.uint64", "int64", "int32", "int", "'<u4'", "'<i4'", "'<i8'", "'<u8'", "numpy.dtype('<u4')",
            "trimesh.exchange.gltf.uint32", "trimesh.exchange.ply.int32", "numpy.int_", "'i4'", "'u4'", "'i8'"}
    n6 = 0
    exp_mods = [m for m in ix.modules.values() if m.name.startswith(("trimesh.exchange.", "trimesh.path.exchange."))]
    for m in exp_mods:
        for f in [x for x in ix.all_functions if x.module is m]:
            casts = [c for c in ast.walk(f.node) if isinstance(c, ast.Call) and isinstance(c.func, ast.Attribute) and c.func.attr == "astype" and c.args
                     and _re.search(r"\.faces\b", ast.unparse(c.func.value)) and not _re.search(r"face_(normals|colors|attributes)", ast.unparse(c.func.value))]
            if not casts:
                continue
            pv = Prov(ix, f)
            for c in casts:
                st = pv.stmt_of(c)
                if st is None or not pv.cfg.nodes_of.get(id(st)):
                    continue
                n6 += 1
                dt = pv.canon(c.args[0], st)
                ok = dt in WIDE or dt.replace('"', "'") in WIDE
                how = "fixed wide type"
                if not ok:
                    # a computed dtype: whatever selects it must look at the largest index
                    ok = ".max()" in dt or "len(P_mesh.vertices)" in dt or "vertices" in dt
                    how = f"selected at run time by `{dt[:60]}`"
                run.instance("R6", f.where, f"{f.qualname}: `{ast.unparse(c)[:50]}` -> {dt[:40]} ({how})", ok)
                if not ok:
                    run.violation("R6", f.where, f"`{f.qualname}` narrows face indices with `{ast.unparse(c)[:60]}` to a type chosen by `{dt[:70]}`: the choice does not depend on the "
                                                 f"largest index, so a mesh with few faces but many vertices wraps its indices on export", key=key_of("C08-R6", f.qualname))
    run.floor("face-index casts in exporters", n6, 1)
    # ------------------------------------------------------------------ R7 format fields match the data formatted
    run.rule("R7", "text exporters: a template applied with `.format(*array)` has one field group per row of that array (template * len(array)); a pre-built template of another size would silently drop rows")
    n7 = 0
    for m in exp_mods:
        for f in [x for x in ix.all_functions if x.module is m]:
            calls = [c for c in ast.walk(f.node) if isinstance(c, ast.Call) and isinstance(c.func, ast.Attribute) and c.func.attr == "format"
                     and len(c.args) == 1 and isinstance(c.args[0], ast.Starred) and isinstance(c.func.value, ast.Name)]
            if not calls:
                continue
            pv = Prov(ix, f)
            for c in calls:
                st = pv.stmt_of(c)
                if st is None or not pv.cfg.nodes_of.get(id(st)):
                    continue
                star = c.args[0].value
                base = star
                while isinstance(base, ast.Call) and isinstance(base.func, ast.Attribute) and base.func.attr in ("flatten", "reshape", "ravel", "tolist"):
                    base = base.func.value
                bname = ast.unparse(base)
                alts = pv.alternatives(c.func.value.id, st, stop=tuple(n.id for n in ast.walk(base) if isinstance(n, ast.Name)))
                if alts is None:
                    continue
                n7 += 1
                sized = {a_: (_re.search(r"\* len\(([^()]+)\)$", a_).group(1) if _re.search(r"\* len\(([^()]+)\)$", a_) else None) for a_ in alts}

                def norm(x):
                    return _re.sub(r"\b(P_|L_|PHI_)", "", x)

                # what the array's own first dimension is built from (e.g. np.zeros((len(mesh.faces), 4, 3)))
                arr_defs = set()
                if isinstance(base, ast.Name):
                    arr_defs = {norm(x) for x in (pv.alternatives(base.id, st) or set())}
                ok = all(v is not None and (norm(v) == norm(bname) or any(f"len({norm(v)})" in d_ for d_ in arr_defs)) for v in sized.values())
                run.instance("R7", f.where, f"{f.qualname}: `{ast.unparse(c.func.value)}.format(*{bname[:30]}...)`: template sized by {sorted(str(v) for v in sized.values())}", ok)
                if not ok:
                    run.violation("R7", f.where, f"`{f.qualname}` formats `{bname}` with a template that is not `<fields> * len({bname})` on every path ({sorted(alts)[0][:60]}...): "
                                                 f"str.format ignores surplus arguments, so rows beyond the template's size are dropped without an error",
                                  key=key_of("C08-R7", f.qualname, bname))
    run.floor("starred format calls in exporters", n7, 2)

    # ------------------------------------------------------------------ R8 path dict format: writer types vs reader table, and the reader is wired in
    run.rule("R8", "path `dict` export: every entity type the writer can emit has a constructor in dict_to_path's table, the reader passes only keys the class can take, "
                   "and the load path actually calls dict_to_path")
    ent = ix.modules["trimesh.path.entities"]
    E = ent.classes["Entity"]
    writers = sorted(c.name for c in [E] + ix.all_subclasses(E) if not c.name == "Entity" and not any("ABC" in str(b) for b in c.ext_bases) and c.name != "Curve")
    dp = ix.func("trimesh.path.exchange.misc:dict_to_path")
    table = None
    for st in ast.walk(dp.node):
        if isinstance(st, ast.Assign) and isinstance(st.targets[0], ast.Name) and st.targets[0].id == "loaders" and isinstance(st.value, ast.Dict):
            table = sorted(k.value for k in st.value.keys if isinstance(k, ast.Constant))
    if table is None:
        raise AnalysisError("anchor vanished: `loaders = {...}` in dict_to_path")
    for w in writers:
        ok = w in table
        run.instance("R8", dp.where, f"entity type `{w}` written by to_dict has a reader in dict_to_path", ok)
        if not ok:
            run.violation("R8", dp.where, f"a path containing a `{w}` entity exports to a dict whose `type: {w}` entry dict_to_path cannot rebuild (reader table {table})",
                          key=key_of("C08-R8", "entity-type", w))
    # closed= is only passed to classes whose `closed` can be assigned
    from ..provenance import Prov as _Prov
    pdp = _Prov(ix, dp)
    sites = [st for st in ast.walk(dp.node) if isinstance(st, ast.Assign) and ast.unparse(st.targets[0]) in ("kwargs['closed']", 'kwargs["closed"]')]
    sites += [pdp.stmt_of(c) for c in ast.walk(dp.node) if isinstance(c, ast.Call) and any(k.arg == "closed" for k in c.keywords)]
    for st in sites:
        types = set(table)
        for i, pos in pdp.enclosing_tests(st):
            t_ = i.test
            if pos and isinstance(t_, ast.Compare) and "type" in ast.unparse(t_.left):
                if isinstance(t_.ops[0], ast.Eq) and isinstance(t_.comparators[0], ast.Constant):
                    types &= {t_.comparators[0].value}
                elif isinstance(t_.ops[0], ast.In) and isinstance(t_.comparators[0], (ast.Tuple, ast.List, ast.Set)):
                    types &= {e.value for e in t_.comparators[0].elts if isinstance(e, ast.Constant)}
        bad = []
        for name in sorted(types):
            c = ent.classes.get(name)
            if c is None:
                continue
            if any("closed" in k.getters for k in c.mro) and not any("closed" in k.setters for k in c.mro):
                bad.append(name)
        ok = not bad
        run.instance("R8", dp.where, f"`closed` is handed to {sorted(types)} (line {st.lineno}); read-only there: {bad}", ok)
        if not ok:
            run.violation("R8", dp.where, f"dict_to_path passes `closed` to {bad}, whose `closed` is a property without a setter: every exported {bad[0]} fails to load",
                          key=key_of("C08-R8", "closed-setter"))
    callers = [f for f in ix.all_functions if f is not dp and any(isinstance(c, ast.Call) and isinstance(c.func, (ast.Name, ast.Attribute))
                                                                 and ast.unparse(c.func).split(".")[-1] == "dict_to_path" for c in ast.walk(f.node))]
    ok = bool(callers)
    run.instance("R8", dp.where, f"dict_to_path is called from {[f.qualname for f in callers][:3]}", ok)
    if not ok:
        run.violation("R8", dp.where, "nothing on the load path calls dict_to_path: an exported path dict reaches the Path constructor with plain dicts as entities",
                      key=key_of("C08-R8", "unwired"))

    # ------------------------------------------------------------------ R9 text writers keep significant digits
    run.rule("R9", "text exporters format coordinates with significant digits (`g`, `e`, repr) - a fixed number of decimals (`.Nf`) erases geometry that is small in absolute terms")
    n9 = 0
    for m_ in ix.modules.values():
        if not (m_.name.startswith("trimesh.exchange.") or m_.name.startswith("trimesh.path.exchange.")):
            continue
        for f_ in ix.all_functions:
            if f_.module is not m_ or "export" not in f_.qualname.lower():
                continue
            specs = []
            for n_ in ast.walk(f_.node):
                if isinstance(n_, ast.FormattedValue) and n_.format_spec is not None:
                    specs.append((n_, "".join(v.value for v in n_.format_spec.values if isinstance(v, ast.Constant) and isinstance(v.value, str))))
                elif isinstance(n_, ast.Constant) and isinstance(n_.value, str) and "{" in n_.value:
                    specs += [(n_, sp_) for sp_ in re.findall(r"\{[^{}]*:([^{}]*)\}", n_.value)]
                elif isinstance(n_, ast.BinOp) and isinstance(n_.op, ast.Mod) and isinstance(n_.left, ast.Constant) and isinstance(n_.left.value, str):
                    specs += [(n_, sp_) for sp_ in re.findall(r"%[-+ 0#]*\d*(\.\d+[a-zA-Z])", n_.left.value)]
            for node_, sp_ in specs:
                mm = re.search(r"\.(\d+)([fFgGeE])", sp_)
                if not mm:
                    continue
                n9 += 1
                fixed = mm.group(2) in "fF" and int(mm.group(1)) > 0
                where_ = f"{f_.module.rel}:{getattr(node_, 'lineno', f_.node.lineno)} {f_.qualname}"
                run.instance("R9", where_, f"float format `{sp_}` keeps significant digits: {not fixed}", not fixed)
                if fixed:
                    run.violation("R9", where_, f"`{f_.qualname}` writes numbers with `{sp_}`: {mm.group(1)} decimals, not {mm.group(1)} significant digits - coordinates much smaller than one "
                                                f"lose their leading digits, so a scaled-down drawing or mesh does not reload to the same geometry", key=key_of("C08-R9", f_.qualname, sp_))
    run.floor("float format specs in text exporters", n9, 5)

    run.assume("element-by-element equality of reloaded data, precision, colour order and instance placement are values and are not decided")
    _ply_layout(run, ix, tb)
    # ------------------------------------------------------------------ R13 the DXF polyline writer writes every point it was given
    run.rule("R13", "DXF export (LWPOLYLINE): the points written are all points of the entity's discrete form - none is dropped by a coordinate test while the closed flag "
                    "(group 70) is decided from the entity's indices; the reader re-closes a polyline only when that flag is set")
    dxm = ix.modules.get("trimesh.path.exchange.dxf")
    n13 = 0
    for f_ in ix.all_functions:
        if f_.module is not dxm or f_.parent is None or "export" not in f_.parent.qualname:
            continue
        pts_calls = [c_ for c_ in ast.walk(f_.node) if isinstance(c_, ast.Call) and ast.unparse(c_.func).split(".")[-1] == "format_points" and c_.args and isinstance(c_.args[0], ast.Name)]
        flag = [st for st in ast.walk(f_.node) if isinstance(st, ast.Assign) and "closed" in ast.unparse(st.value) and isinstance(st.targets[0], ast.Subscript)]
        if not pts_calls or not flag:
            continue
        pname = pts_calls[0].args[0].id
        n13 += 1
        drops = []
        for st in ast.walk(f_.node):
            if isinstance(st, ast.Assign) and len(st.targets) == 1 and isinstance(st.targets[0], ast.Name) and st.targets[0].id == pname \
                    and isinstance(st.value, ast.Subscript) and isinstance(st.value.value, ast.Name) and st.value.value.id == pname:
                sl = st.value.slice
                sl0 = sl.elts[0] if isinstance(sl, ast.Tuple) and sl.elts else sl
                if isinstance(sl0, ast.Slice) and (sl0.upper is not None or sl0.lower is not None) and sl0.step is None:
                    # guards of the statement
                    g_ = [x_ for x_ in ast.walk(f_.node) if isinstance(x_, ast.If) and any(y_ is st for y_ in ast.walk(x_))]
                    by_flag = any(".closed" in ast.unparse(x_.test) for x_ in g_)
                    if not by_flag:
                        drops.append(st)
        ok = not drops
        where_ = f"{f_.module.rel}:{(drops[0] if drops else f_.node).lineno} {f_.qualname}"
        run.instance("R13", where_, f"{f_.qualname}: `{pname}` reaches format_points with every row: {ok}", ok)
        for st in drops:
            run.violation("R13", where_, f"`{f_.qualname}` drops points with `{ast.unparse(st)[:60]}` under a test that is not the entity's own closed flag, while `FLAG` is still written from "
                                         f"`.closed` (index based): a loop closed by coordinates only (separate first / last vertex rows) is written one point short AND open, so "
                                         f"its last segment is lost on import", key=key_of("C08-R13", f_.qualname))
    if n13 == 0:
        run.instance("R13", "trimesh/path/exchange/dxf.py", "DXF polyline writer not in a recognised form - NOT decided", True, nontrivial=False)
        run.assume("export_dxf: polyline writer not recognised")
    from ..svgarc import sweep_rule
    sweep_rule(run, ix, "R11", "C08")
    from ..memostore import memo_store_rule
    memo_store_rule(run, ix, "R12", "C08", module_filter=lambda m: "exchange" in m, floor=0)
    return {
        "explanation": "Interprocedural write-effect analysis of every exporter entry point (nothing rooted at the exported object is written); "
        "constant-table extraction of exporter / loader registries and of the PLY, glTF and DXF type tables (pairing, mutual inverses, "
        "agreement with the glTF componentType codes); shared fixed little-endian STL record dtypes. Decides the last sentence of C08 for "
        "every format and option, and the table-level necessary conditions of round-tripping.",
    }
